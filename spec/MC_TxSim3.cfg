SPECIFICATION Spec
CONSTANTS
  MaxR = 3
  Langs = {3}
  Kinds = {"cheap", "costly", "fail"}
  ScriptLocs = {"witness", "missing"}
  DatumKinds = {"inline", "none"}
INVARIANTS Accounting FailsIff Emit
CHECK_DEADLOCK FALSE
