-------------------------------- MODULE Flat --------------------------------
(***************************************************************************)
(* The bit-level "flat" encoding of Untyped Plutus Core programs (C08),     *)
(* written from the flat / Plutus Core specification:                       *)
(*   - naturals: 7-bit groups, least significant first, high bit = more;    *)
(*   - integers: zig-zag, then as a natural;                                *)
(*   - terms: 4-bit tags  var 0, delay 1, lam 2, app 3, con 4, force 5,     *)
(*     error 6, builtin 7 (+ 7-bit function tag), constr 8, case 9;         *)
(*   - lists (type tags, constr fields, case branches, constant lists):     *)
(*     each element preceded by a 1 bit, a 0 bit ends the list;             *)
(*   - constant types as lists of 4-bit tags: integer 0, bytestring 1,      *)
(*     string 2, unit 3, bool 4, (list T) = 7 5 T, (pair A B) = 7 7 6 A B,  *)
(*     data 8;                                                              *)
(*   - byte strings: filler to the next byte boundary (0 bits then a 1),    *)
(*     then chunks of at most 255 bytes each preceded by its length, then a *)
(*     0 length;  strings are their UTF-8 bytes; Data is its CBOR bytes;    *)
(*   - the program ends with a filler.                                      *)
(* Everything is a sequence of bits (0 / 1).  The CBOR of Data follows the  *)
(* Plutus encoder: constructor tags 121+i / 1280+(i-7) / 102, non-empty     *)
(* lists of indefinite length, maps of definite length, byte strings of at  *)
(* most 64 bytes in one piece.                                              *)
(***************************************************************************)
EXTENDS Integers, Sequences, FiniteSets, TLC, UplcText

RECURSIVE BitsN(_, _)
BitsN(n, w) == IF w = 0 THEN <<>> ELSE BitsN(n \div 2, w - 1) \o <<n % 2>>     \* w bits, most significant first
Bits8(b) == BitsN(b, 8)

RECURSIVE Word(_)
Word(n) == IF n < 128 THEN Bits8(n) ELSE Bits8(128 + (n % 128)) \o Word(n \div 128)
\* zig-zag (n >= 0 -> 2n, n < 0 -> -2n - 1) then Word, written so that nothing exceeds TLC's 32-bit integers
IntBits(n) ==
    LET m   == IF n >= 0 THEN n ELSE (0 - n) - 1
        odd == IF n >= 0 THEN 0 ELSE 1
    IN  IF m < 64 THEN Bits8(2 * m + odd) ELSE Bits8(128 + 2 * (m % 64) + odd) \o Word(m \div 64)

\* filler after `len` bits have been written
Filler(len) == [i \in 1..(8 - (len % 8)) |-> IF i = 8 - (len % 8) THEN 1 ELSE 0]

RECURSIVE BytesBits(_), Chunks(_)
BytesBits(bs) == IF bs = <<>> THEN <<>> ELSE Bits8(bs[1]) \o BytesBits(Tail(bs))
Chunks(bs) ==
    IF bs = <<>> THEN Bits8(0)
    ELSE LET k == IF Len(bs) > 255 THEN 255 ELSE Len(bs) IN
         Bits8(k) \o BytesBits(SubSeq(bs, 1, k)) \o Chunks(SubSeq(bs, k + 1, Len(bs)))
\* a byte string written when `len` bits precede it
ByteStringBits(len, bs) == Filler(len) \o Chunks(bs)

(***************************************************************************)
(* UTF-8 and CBOR, as byte sequences                                        *)
(***************************************************************************)
Utf8Of(cp) ==
    IF cp < 128 THEN <<cp>>
    ELSE IF cp < 2048 THEN <<192 + (cp \div 64), 128 + (cp % 64)>>
    ELSE IF cp < 65536 THEN <<224 + (cp \div 4096), 128 + ((cp \div 64) % 64), 128 + (cp % 64)>>
    ELSE <<240 + (cp \div 262144), 128 + ((cp \div 4096) % 64), 128 + ((cp \div 64) % 64), 128 + (cp % 64)>>
RECURSIVE Utf8(_)
Utf8(s) == IF s = <<>> THEN <<>> ELSE Utf8Of(s[1]) \o Utf8(Tail(s))

RECURSIVE BE(_, _)
BE(n, bytes) == IF bytes = 0 THEN <<>> ELSE BE(n \div 256, bytes - 1) \o <<n % 256>>
\* CBOR head (CHead): major type m (0..7) and argument n
CHead(m, n) ==
    IF n < 24 THEN <<32 * m + n>>
    ELSE IF n < 256 THEN <<32 * m + 24, n>>
    ELSE IF n < 65536 THEN <<32 * m + 25>> \o BE(n, 2)
    ELSE <<32 * m + 26>> \o BE(n, 4)

RECURSIVE CborData(_), CborSeq(_), CborPairs(_)
CborSeq(ds) == IF ds = <<>> THEN <<>> ELSE CborData(ds[1]) \o CborSeq(Tail(ds))
CborPairs(kvs) == IF kvs = <<>> THEN <<>> ELSE CborData(kvs[1][1]) \o CborData(kvs[1][2]) \o CborPairs(Tail(kvs))
CborList(ds) == IF ds = <<>> THEN <<128>> ELSE <<159>> \o CborSeq(ds) \o <<255>>
CborData(d) ==
    CASE d.d = "I" -> IF d.v >= 0 THEN CHead(0, d.v) ELSE CHead(1, (0 - 1) - d.v)
      [] d.d = "B" -> CHead(2, Len(d.v)) \o d.v                 \* up to 64 bytes: one definite-length piece
      [] d.d = "L" -> CborList(d.v)
      [] d.d = "M" -> CHead(5, Len(d.v)) \o CborPairs(d.v)
      [] d.d = "C" -> (IF d.tag < 7 THEN CHead(6, 121 + d.tag) \o CborList(d.fs)
                       ELSE IF d.tag < 128 THEN CHead(6, 1280 + (d.tag - 7)) \o CborList(d.fs)
                       ELSE CHead(6, 102) \o <<130>> \o CHead(0, d.tag) \o CborList(d.fs))

(***************************************************************************)
(* Constants                                                                *)
(***************************************************************************)
RECURSIVE TypeTags(_)
TypeTags(ty) ==
    CASE ty.t = "int"  -> <<0>>
      [] ty.t = "bs"   -> <<1>>
      [] ty.t = "str"  -> <<2>>
      [] ty.t = "unit" -> <<3>>
      [] ty.t = "bool" -> <<4>>
      [] ty.t = "data" -> <<8>>
      [] ty.t = "list" -> <<7, 5>> \o TypeTags(ty.e)
      [] ty.t = "pair" -> <<7, 7, 6>> \o TypeTags(ty.a) \o TypeTags(ty.b)
RECURSIVE TagListBits(_)
TagListBits(tags) == IF tags = <<>> THEN <<0>> ELSE <<1>> \o BitsN(tags[1], 4) \o TagListBits(Tail(tags))

\* every encoder takes the bits written so far (`pre`) and returns them extended
RECURSIVE EncValue(_, _), EncValues(_, _)
EncValues(pre, cs) ==
    IF cs = <<>> THEN pre \o <<0>> ELSE EncValues(EncValue(pre \o <<1>>, cs[1]), Tail(cs))
EncValue(pre, c) ==
    CASE c.t = "int"  -> pre \o IntBits(c.v)
      [] c.t = "bs"   -> pre \o ByteStringBits(Len(pre), c.v)
      [] c.t = "str"  -> pre \o ByteStringBits(Len(pre), Utf8(c.v))
      [] c.t = "unit" -> pre
      [] c.t = "bool" -> pre \o <<IF c.v THEN 1 ELSE 0>>
      [] c.t = "data" -> pre \o ByteStringBits(Len(pre), CborData(c.v))
      [] c.t = "list" -> EncValues(pre, c.v)
      [] c.t = "pair" -> EncValue(EncValue(pre, c.f), c.s)

(***************************************************************************)
(* Terms (de Bruijn) and programs                                           *)
(***************************************************************************)
BuiltinTag(f) ==
    LET i == CHOOSE j \in 1..Len(BuiltinNames) : BuiltinNames[j] = f IN
    IF i <= 89 THEN i - 1 ELSE i + 2          \* ..., dropList = 88, G1 / G2 multiScalarMul = 92 / 93

RECURSIVE EncTerm(_, _), EncTerms(_, _)
EncTerms(pre, ts) ==
    IF ts = <<>> THEN pre \o <<0>> ELSE EncTerms(EncTerm(pre \o <<1>>, ts[1]), Tail(ts))
EncTerm(pre, t) ==
    CASE t.k = "var"    -> pre \o BitsN(0, 4) \o Word(t.i)
      [] t.k = "delay"  -> EncTerm(pre \o BitsN(1, 4), t.b)
      [] t.k = "lam"    -> EncTerm(pre \o BitsN(2, 4), t.b)
      [] t.k = "app"    -> EncTerm(EncTerm(pre \o BitsN(3, 4), t.f), t.a)
      [] t.k = "con"    -> EncValue(pre \o BitsN(4, 4) \o TagListBits(TypeTags(TypeOfC(t.c))), t.c)
      [] t.k = "force"  -> EncTerm(pre \o BitsN(5, 4), t.b)
      [] t.k = "err"    -> pre \o BitsN(6, 4)
      [] t.k = "bi"     -> pre \o BitsN(7, 4) \o BitsN(BuiltinTag(t.f), 7)
      [] t.k = "constr" -> EncTerms(pre \o BitsN(8, 4) \o Word(t.tag), t.fs)
      [] t.k = "case"   -> EncTerms(EncTerm(pre \o BitsN(9, 4), t.s), t.bs)

EncProgram(major, minor, patch, t) ==
    LET body == EncTerm(Word(major) \o Word(minor) \o Word(patch), t) IN body \o Filler(Len(body))

RECURSIVE ToBytes(_)
ToBytes(bits) ==
    IF bits = <<>> THEN <<>>
    ELSE <<128 * bits[1] + 64 * bits[2] + 32 * bits[3] + 16 * bits[4] + 8 * bits[5] + 4 * bits[6] + 2 * bits[7] + bits[8]>>
         \o ToBytes(SubSeq(bits, 9, Len(bits)))

\* the script bytes as they travel: a CBOR byte string around the flat bytes
CborWrap(bytes) == CHead(2, Len(bytes)) \o bytes
=============================================================================
