----------------------------- MODULE Obs_Shrink -----------------------------
(***************************************************************************)
(* Trace validation of the real shrinker (C16).  Each event is one run of   *)
(* Counterexample::simplify recorded from the real code:                    *)
(*   {"f","p","mode","init", "final", "value", "queries":[{"c","s"}]}       *)
(* It is accepted iff, according to Shrink.tla,                             *)
(*   - the reported counterexample is real: `final` replays to `value` and  *)
(*     that value is kept under the expectation,                            *)
(*   - it is no larger than the first failing case (short-lex),             *)
(*   - every test execution the shrinker made answered with the true status *)
(*     (this also cross-checks the harness' mirror of the catalogue),       *)
(*   - it terminated within the query bound.                                *)
(***************************************************************************)
EXTENDS Shrink, Json, IOUtils

Rec == ndJsonDeserialize(IOEnv.TRACE)
MaxQueries == 20000

ShortLexLE(a, b) == Len(a) < Len(b) \/ (Len(a) = Len(b) /\ (a = b \/ LexLess(a, b)))

SameStatus(s, t) == s.s = t.s /\ (s.s = "keep" => s.v = t.v)

Why(e) ==
    LET st0 == Status(e.f, e.p, e.mode, e.init)
        st1 == Status(e.f, e.p, e.mode, e.final)
    IN
    IF st0.s # "keep" THEN "skip"
    ELSE IF st1.s # "keep" THEN "the reported counterexample does not falsify the property when replayed"
    ELSE IF st1.v # e.value THEN "replaying the recorded choices does not regenerate the reported value"
    ELSE IF ~ShortLexLE(e.final, e.init) THEN "the reported counterexample is larger than the first failing case"
    ELSE IF \E i \in 1..Len(e.queries) : ~SameStatus(e.queries[i].s, Status(e.f, e.p, e.mode, e.queries[i].c))
         THEN "a test execution made while shrinking disagrees with the catalogue"
    ELSE IF Len(e.queries) >= MaxQueries THEN "shrinking did not finish within the query bound"
    ELSE "ok"

(***************************************************************************)
(* End-to-end events: one property test of an authored project, run by the  *)
(* real test runner (PropertyTest::run through Project::check):             *)
(*   {"e2e", "f", "p", "mode", "found", "value", "success", "iterations", "max"} *)
(* The fuzzers are the catalogue's, written in Aiken; a value determines    *)
(* the choices that produce it.                                             *)
(***************************************************************************)
Decode(f, v) ==
    CASE f = "byte"  -> <<v>>
      [] f = "pair"  -> <<v \div 256, v % 256>>
      [] f = "const" -> <<>>
InRange(f, v) ==
    CASE f = "byte"  -> v \in 0..255
      [] f = "pair"  -> v \in 0..65535
      [] f = "const" -> v = 7
\* every sample is kept / no sample is kept, whatever the seed
AllKept(p, mode)  == (p = "never" /\ mode # "succeed_eventually") \/ (p = "always" /\ mode = "succeed_eventually")
NoneKept(p, mode) == (p = "always" /\ mode # "succeed_eventually") \/ (p = "never" /\ mode = "succeed_eventually")

WhyE2E(e) ==
    IF e.found /\ ~InRange(e.f, e.value) THEN "the reported counterexample is not a value of the fuzzer"
    ELSE IF e.found /\ Status(e.f, e.p, e.mode, Decode(e.f, e.value)) # [s |-> "keep", v |-> e.value]
         THEN "the reported counterexample does not falsify the property when re-applied"
    ELSE IF e.success # TestPasses(e.mode, e.found) THEN "the verdict is not the one documented for this expectation"
    ELSE IF AllKept(e.p, e.mode) /\ ~e.found THEN "every sample is a counterexample, none was reported"
    ELSE IF NoneKept(e.p, e.mode) /\ e.found THEN "no sample is a counterexample, one was reported"
    ELSE IF e.found /\ ~(e.iterations \in 1..e.max) THEN "the iteration count is outside 1..max"
    ELSE IF ~e.found /\ e.iterations # e.max THEN "no counterexample, but not all iterations were run"
    ELSE "ok"

VARIABLES l, bad, okc
vars == <<l, bad, okc>>
Init == l = 1 /\ bad = <<>> /\ okc = 0
Judge ==
    /\ l <= Len(Rec)
    /\ LET w == IF "e2e" \in DOMAIN Rec[l] THEN WhyE2E(Rec[l]) ELSE Why(Rec[l]) IN
        /\ bad' = IF w \notin {"ok", "skip"} THEN Append(bad, <<l, w>>) ELSE bad
        /\ okc' = IF w = "ok" THEN okc + 1 ELSE okc
    /\ l' = l + 1
Finish ==
    /\ l = Len(Rec) + 1
    /\ PrintT(<<"OBSRESULT", ToJson([n |-> Len(Rec), ok |-> okc, bad |-> bad, skipped |-> <<>>])>>)
    /\ l' = l + 1
    /\ UNCHANGED <<bad, okc>>
Next == Judge \/ Finish
Spec == Init /\ [][Next]_vars
=============================================================================
