----------------------------- MODULE Obs_Shrink -----------------------------
(***************************************************************************)
(* Trace validation of the real shrinker (C16).  Each event is one run of   *)
(* Counterexample::simplify recorded from the real code:                    *)
(*   {"f","p","mode","init", "final", "value", "queries":[{"c","s"}]}       *)
(* It is accepted iff, according to Shrink.tla,                             *)
(*   - the reported counterexample is real: `final` replays to `value` and  *)
(*     that value is kept under the expectation,                            *)
(*   - it is no larger than the first failing case (short-lex),             *)
(*   - every test execution the shrinker made answered with the true status *)
(*     (this also cross-checks the harness' mirror of the catalogue),       *)
(*   - it terminated within the query bound.                                *)
(***************************************************************************)
EXTENDS Shrink, Json, IOUtils

Rec == ndJsonDeserialize(IOEnv.TRACE)
MaxQueries == 20000

ShortLexLE(a, b) == Len(a) < Len(b) \/ (Len(a) = Len(b) /\ (a = b \/ LexLess(a, b)))

SameStatus(s, t) == s.s = t.s /\ (s.s = "keep" => s.v = t.v)

Why(e) ==
    LET st0 == Status(e.f, e.p, e.mode, e.init)
        st1 == Status(e.f, e.p, e.mode, e.final)
    IN
    IF st0.s # "keep" THEN "skip"
    ELSE IF st1.s # "keep" THEN "the reported counterexample does not falsify the property when replayed"
    ELSE IF st1.v # e.value THEN "replaying the recorded choices does not regenerate the reported value"
    ELSE IF ~ShortLexLE(e.final, e.init) THEN "the reported counterexample is larger than the first failing case"
    ELSE IF \E i \in 1..Len(e.queries) : ~SameStatus(e.queries[i].s, Status(e.f, e.p, e.mode, e.queries[i].c))
         THEN "a test execution made while shrinking disagrees with the catalogue"
    ELSE IF Len(e.queries) >= MaxQueries THEN "shrinking did not finish within the query bound"
    ELSE "ok"

VARIABLES l, bad, okc
vars == <<l, bad, okc>>
Init == l = 1 /\ bad = <<>> /\ okc = 0
Judge ==
    /\ l <= Len(Rec)
    /\ LET w == Why(Rec[l]) IN
        /\ bad' = IF w \notin {"ok", "skip"} THEN Append(bad, <<l, w>>) ELSE bad
        /\ okc' = IF w = "ok" THEN okc + 1 ELSE okc
    /\ l' = l + 1
Finish ==
    /\ l = Len(Rec) + 1
    /\ PrintT(<<"OBSRESULT", ToJson([n |-> Len(Rec), ok |-> okc, bad |-> bad, skipped |-> <<>>])>>)
    /\ l' = l + 1
    /\ UNCHANGED <<bad, okc>>
Next == Judge \/ Finish
Spec == Init /\ [][Next]_vars
=============================================================================
