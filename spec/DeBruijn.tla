------------------------------ MODULE DeBruijn ------------------------------
(***************************************************************************)
(* Names <-> de Bruijn indices (C11).                                       *)
(*                                                                         *)
(* A NAMED term carries on every variable and binder a name                 *)
(* n = [t |-> text, u |-> unique]; binding goes by the UNIQUE alone (the    *)
(* text is documentation).  The reference semantics is the classical one:   *)
(* an occurrence refers to the innermost enclosing binder with the same     *)
(* unique, and is FREE when there is none.  The de Bruijn form of a term IS  *)
(* its resolution (index = distance to the binder), so                      *)
(*     two named terms are alpha-equivalent  iff  ToDB gives the same term.  *)
(*                                                                         *)
(* A second, code-shaped definition transcribes the scope stack of          *)
(* crates/uplc/src/debruijn.rs (levels, one map per level, declare / remove  *)
(* around the body) and TLC checks it against the reference on every term    *)
(* of the bound - the design-level half of the property.                     *)
(***************************************************************************)
EXTENDS Integers, Sequences, FiniteSets, TLC

NVar(n)      == [k |-> "var", n |-> n]
NLam(n, b)   == [k |-> "lam", n |-> n, b |-> b]
DVar(i)      == [k |-> "var", i |-> i]
DLam(b)      == [k |-> "lam", b |-> b]
App(f, a)    == [k |-> "app", f |-> f, a |-> a]
Delay(b)     == [k |-> "delay", b |-> b]
Force(b)     == [k |-> "force", b |-> b]
Unit         == [k |-> "con", c |-> [t |-> "unit"]]
Constr(t, fs) == [k |-> "constr", tag |-> t, fs |-> fs]
Case(s, bs)  == [k |-> "case", s |-> s, bs |-> bs]

(***************************************************************************)
(* Reference: ctx is the sequence of uniques of the enclosing binders,      *)
(* innermost LAST.                                                          *)
(***************************************************************************)
Positions(ctx, u) == {j \in 1..Len(ctx) : ctx[j] = u}
Max(S) == CHOOSE x \in S : \A y \in S : y <= x

RECURSIVE IsOpen(_, _), AnyOpen(_, _)
AnyOpen(ts, ctx) == \E i \in 1..Len(ts) : IsOpen(ts[i], ctx)
IsOpen(t, ctx) ==
    CASE t.k = "var"    -> Positions(ctx, t.n.u) = {}
      [] t.k = "lam"    -> IsOpen(t.b, Append(ctx, t.n.u))
      [] t.k = "app"    -> IsOpen(t.f, ctx) \/ IsOpen(t.a, ctx)
      [] t.k \in {"delay", "force"} -> IsOpen(t.b, ctx)
      [] t.k = "constr" -> AnyOpen(t.fs, ctx)
      [] t.k = "case"   -> IsOpen(t.s, ctx) \/ AnyOpen(t.bs, ctx)
      [] OTHER -> FALSE

RECURSIVE ToDB(_, _), ToDBSeq(_, _)
ToDBSeq(ts, ctx) == [i \in 1..Len(ts) |-> ToDB(ts[i], ctx)]
ToDB(t, ctx) ==      \* defined on terms that are not open
    CASE t.k = "var"    -> DVar(Len(ctx) - Max(Positions(ctx, t.n.u)) + 1)
      [] t.k = "lam"    -> DLam(ToDB(t.b, Append(ctx, t.n.u)))
      [] t.k = "app"    -> App(ToDB(t.f, ctx), ToDB(t.a, ctx))
      [] t.k = "delay"  -> Delay(ToDB(t.b, ctx))
      [] t.k = "force"  -> Force(ToDB(t.b, ctx))
      [] t.k = "constr" -> Constr(t.tag, ToDBSeq(t.fs, ctx))
      [] t.k = "case"   -> Case(ToDB(t.s, ctx), ToDBSeq(t.bs, ctx))
      [] OTHER -> t

\* de Bruijn side: an index is bound iff 1 <= i <= depth
RECURSIVE DBOpen(_, _), DBAnyOpen(_, _)
DBAnyOpen(ts, d) == \E i \in 1..Len(ts) : DBOpen(ts[i], d)
DBOpen(t, d) ==
    CASE t.k = "var"    -> ~(t.i >= 1 /\ t.i <= d)
      [] t.k = "lam"    -> DBOpen(t.b, d + 1)
      [] t.k = "app"    -> DBOpen(t.f, d) \/ DBOpen(t.a, d)
      [] t.k \in {"delay", "force"} -> DBOpen(t.b, d)
      [] t.k = "constr" -> DBAnyOpen(t.fs, d)
      [] t.k = "case"   -> DBOpen(t.s, d) \/ DBAnyOpen(t.bs, d)
      [] OTHER -> FALSE

\* canonical naming of a closed de Bruijn term: the binder at depth d gets unique d
RECURSIVE Canon(_, _), CanonSeq(_, _)
CanonSeq(ts, d) == [i \in 1..Len(ts) |-> Canon(ts[i], d)]
Canon(t, d) ==
    CASE t.k = "var"    -> NVar([t |-> "i", u |-> d - t.i])
      [] t.k = "lam"    -> NLam([t |-> "i", u |-> d], Canon(t.b, d + 1))
      [] t.k = "app"    -> App(Canon(t.f, d), Canon(t.a, d))
      [] t.k = "delay"  -> Delay(Canon(t.b, d))
      [] t.k = "force"  -> Force(Canon(t.b, d))
      [] t.k = "constr" -> Constr(t.tag, CanonSeq(t.fs, d))
      [] t.k = "case"   -> Case(Canon(t.s, d), CanonSeq(t.bs, d))
      [] OTHER -> t

(***************************************************************************)
(* Code-shaped converter (name -> index), transcribed from the scope stack: *)
(* state s = [level, scopes] where scopes[l + 1] is the map (a set of        *)
(* <<unique, level>> pairs) of level l.  Results are [s, ok, t].             *)
(***************************************************************************)
\* only the unique -> level half of the bimap is read in this direction
Declare(s, u) ==
    [s EXCEPT !.scopes[s.level + 1] = {p \in @ : p[1] # u} \cup {<<u, s.level>>}]
Remove(s, u) ==
    [s EXCEPT !.scopes[s.level + 1] = {p \in @ : p[1] # u}]
StartScope(s) == [level |-> s.level + 1, scopes |-> Append(s.scopes, {})]
EndScope(s)   == [level |-> s.level - 1, scopes |-> SubSeq(s.scopes, 1, Len(s.scopes) - 1)]

\* innermost scope holding the unique
RECURSIVE Lookup(_, _, _)
Lookup(s, u, l) ==
    IF l = 0 THEN 0 - 1
    ELSE LET hit == {p \in s.scopes[l] : p[1] = u} IN
         IF hit # {} THEN s.level - (CHOOSE p \in hit : TRUE)[2] ELSE Lookup(s, u, l - 1)

RECURSIVE Conv(_, _), ConvSeq(_, _, _)
ConvSeq(ts, s, acc) ==
    IF ts = <<>> THEN [s |-> s, ok |-> TRUE, t |-> acc]
    ELSE LET r == Conv(ts[1], s) IN
         IF ~r.ok THEN r ELSE ConvSeq(Tail(ts), r.s, Append(acc, r.t))
Conv(t, s) ==
    CASE t.k = "var" ->
            LET i == Lookup(s, t.n.u, Len(s.scopes)) IN
            IF i < 0 THEN [s |-> s, ok |-> FALSE] ELSE [s |-> s, ok |-> TRUE, t |-> DVar(i)]
      [] t.k = "lam" ->
            LET s1 == StartScope(Declare(s, t.n.u))
                r  == Conv(t.b, s1)
            IN  IF ~r.ok THEN r
                ELSE [s |-> Remove(EndScope(r.s), t.n.u), ok |-> TRUE, t |-> DLam(r.t)]
      [] t.k = "app" ->
            LET r1 == Conv(t.f, s) IN
            IF ~r1.ok THEN r1
            ELSE LET r2 == Conv(t.a, r1.s) IN
                 IF ~r2.ok THEN r2 ELSE [s |-> r2.s, ok |-> TRUE, t |-> App(r1.t, r2.t)]
      [] t.k \in {"delay", "force"} ->
            LET r == Conv(t.b, s) IN
            IF ~r.ok THEN r ELSE [r EXCEPT !.t = [k |-> t.k, b |-> r.t]]
      [] t.k = "constr" ->
            LET r == ConvSeq(t.fs, s, <<>>) IN
            IF ~r.ok THEN r ELSE [r EXCEPT !.t = Constr(t.tag, r.t)]
      [] t.k = "case" ->
            LET r1 == Conv(t.s, s) IN
            IF ~r1.ok THEN r1
            ELSE LET r2 == ConvSeq(t.bs, r1.s, <<>>) IN
                 IF ~r2.ok THEN r2 ELSE [r2 EXCEPT !.t = Case(r1.t, r2.t)]
      [] OTHER -> [s |-> s, ok |-> TRUE, t |-> t]

Conv0 == [level |-> 0, scopes |-> <<{}>>]
=============================================================================
