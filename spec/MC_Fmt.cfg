SPECIFICATION Spec
INVARIANTS PrintParses FullParses Emit
CHECK_DEADLOCK FALSE
