---------------------------- MODULE CodeGenReuse ----------------------------
(***************************************************************************)
(* C09 (generator-reuse part): one code generator instance is used for a    *)
(* HISTORY of items (validators, tests, exported functions); property tests *)
(* run on CLONES of it.  What the implementation relies on:                 *)
(*   - two resettable counters (an interner and an id generator) start at 0 *)
(*     for every item because `finalize` resets them,                       *)
(*   - a cache of compiled module constants that survives resets; compiling *)
(*     a constant consumes ids, so a cache hit REPLAYS the same increments. *)
(* The output of an item is modelled as everything that could leak the      *)
(* history into it: the counter values seen at every use of a constant and  *)
(* at the start.  TLC checks, over every history in the bound, that the     *)
(* output is a function of the item alone.  Every history is replayed on    *)
(* the real CodeGenerator and compared byte for byte with a fresh one.      *)
(***************************************************************************)
EXTENDS Integers, Sequences, FiniteSets, TLC, Json

CONSTANTS NItems,   \* items are 1..NItems
          H         \* history length

\* which module constants an item refers to, in order of use (1..3 are constants; sizes differ)
Uses(i) == CASE i = 1 -> <<>> [] i = 2 -> <<1>> [] i = 3 -> <<1, 2>> [] i = 4 -> <<2, 1, 3>> [] i = 5 -> <<3, 3>> [] OTHER -> <<1>>
Size(c) == [interner |-> c + 1, ids |-> 2 * c]       \* ids consumed by compiling constant c

VARIABLES gen,     \* the generator: [ictr, idctr, cache]
          hist     \* operations so far with the outputs produced
vars == <<gen, hist>>

Fresh == [ictr |-> 0, idctr |-> 0, cache |-> {}]

\* generating item i from generator state g: returns [g, out]
RECURSIVE UseAll(_, _, _)
UseAll(g, cs, trace) ==
    IF cs = <<>> THEN [g |-> g, trace |-> trace]
    ELSE LET c == cs[1]
             g1 == [g EXCEPT !.ictr = @ + Size(c).interner, !.idctr = @ + Size(c).ids, !.cache = @ \cup {c}]
             \* compile or cached: either way the same increments happen (that is the replay)
         IN  UseAll(g1, Tail(cs), Append(trace, <<c, g.ictr, g.idctr>>))

Generate(g, i) ==
    LET r == UseAll(g, Uses(i), <<<<0, g.ictr, g.idctr>>>>) IN
    \* finalize: counters are reset, the constant cache is kept
    [g |-> [ictr |-> 0, idctr |-> 0, cache |-> r.g.cache], out |-> r.trace]

Init == gen = Fresh /\ hist = <<>>

Gen(i) == LET r == Generate(gen, i) IN
          /\ gen' = r.g
          /\ hist' = Append(hist, [op |-> "g", i |-> i, out |-> r.out])
\* a property test: generate on a clone, which is then dropped
Fork(i) == LET r == Generate(gen, i) IN
           /\ hist' = Append(hist, [op |-> "f", i |-> i, out |-> r.out])
           /\ UNCHANGED gen
\* continue on a clone (the original is dropped)
Clone == /\ hist' = Append(hist, [op |-> "c", i |-> 0, out |-> <<>>])
         /\ UNCHANGED gen

Next == Len(hist) < H /\ (Clone \/ \E i \in 1..NItems : Gen(i) \/ Fork(i))
Spec == Init /\ [][Next]_vars

\* the output attached to an item is what a fresh generator produces for it
HistoryIndependent ==
    \A j \in 1..Len(hist) : hist[j].op \in {"g", "f"} => hist[j].out = Generate(Fresh, hist[j].i).out
CountersReset == gen.ictr = 0 /\ gen.idctr = 0

Emit == Len(hist) = H => PrintT(<<"REPLAY", ToJson([hist |-> [j \in 1..Len(hist) |-> [op |-> hist[j].op, i |-> hist[j].i]]])>>)
=============================================================================
