------------------------------- MODULE MC_Fmt -------------------------------
(***************************************************************************)
(* Every operator tree of depth <= 2 over a representative of each          *)
(* precedence level (plus every pair of operators in both nestings at depth *)
(* 2, and selected depth-3 shapes), prefix operators and pipelines in every *)
(* position.  TLC checks the specification's printers against its parser    *)
(* and prints both renderings for the real parser / formatter.              *)
(***************************************************************************)
EXTENDS Fmt, Json

Atoms == {V("a"), V("b")}
Ops == {"||", "&&", "==", "<", "+", "-", "*", "/"}
AllOps == BinOps
U1 == {Un(op, a) : op \in {"!", "neg"}, a \in Atoms}
D1 == {Bin(op, a, b) : op \in AllOps, a \in {V("a")}, b \in {V("b")}}
\* every ordered pair of operators, nested on the left and on the right
D2 == {Bin(o2, Bin(o1, V("a"), V("b")), V("c")) : o1 \in AllOps, o2 \in AllOps}
      \cup {Bin(o2, V("a"), Bin(o1, V("b"), V("c"))) : o1 \in AllOps, o2 \in AllOps}
\* three operators: the four bracketings over one representative per level
D3 == {Bin(o3, Bin(o2, Bin(o1, V("a"), V("b")), V("c")), V("d")) : o1 \in Ops, o2 \in Ops, o3 \in Ops}
      \cup {Bin(o3, V("a"), Bin(o2, V("b"), Bin(o1, V("c"), V("d")))) : o1 \in Ops, o2 \in Ops, o3 \in Ops}
      \cup {Bin(o3, Bin(o1, V("a"), V("b")), Bin(o2, V("c"), V("d"))) : o1 \in Ops, o2 \in Ops, o3 \in Ops}
      \cup {Bin(o3, V("a"), Bin(o2, Bin(o1, V("b"), V("c")), V("d"))) : o1 \in Ops, o2 \in Ops, o3 \in Ops}
\* prefix operators around and inside binary ones
DU == {Un(u, Bin(o, V("a"), V("b"))) : u \in {"!", "neg"}, o \in Ops}
      \cup {Bin(o, Un(u, V("a")), V("b")) : u \in {"!", "neg"}, o \in Ops}
      \cup {Bin(o, V("a"), Un(u, V("b"))) : u \in {"!", "neg"}, o \in Ops}
      \cup {Un(u, Un(w, V("a"))) : u \in {"!", "neg"}, w \in {"!", "neg"}}
\* pipelines: as operands, with operator operands, nested
DP == {Pipe(<<V("a"), V("f")>>), Pipe(<<V("a"), V("f"), V("g")>>)}
      \cup {Pipe(<<Bin(o, V("a"), V("b")), V("f")>>) : o \in Ops}
      \cup {Bin(o, Pipe(<<V("a"), V("f")>>), V("b")) : o \in Ops}
      \cup {Bin(o, V("a"), Pipe(<<V("b"), V("f")>>)) : o \in Ops}
      \cup {Pipe(<<V("a"), Pipe(<<V("b"), V("f")>>)>>), Pipe(<<Pipe(<<V("a"), V("f")>>), V("g")>>), Un("!", Pipe(<<V("a"), V("f")>>))}

\* calls, constructors, captures: every labelling of <= 2 arguments (<= 3 for the all-labelled / none-labelled cases), at most one hole,
\* punnable values, operator expressions and nested calls as arguments, calls as operands and as pipeline stages
Vals == {V("x"), V("a"), V("b"), Hole}
Holes(args) == Cardinality({i \in 1..Len(args) : args[i].v = Hole})
ArgSeqs(n, labels) == {s \in [1..n -> {Arg(l, v) : l \in labels, v \in Vals}] :
                          /\ Holes(s) <= 1
                          /\ \A i, j \in 1..n : (i # j /\ s[i].l # "") => s[i].l # s[j].l}
FnArgs == UNION {ArgSeqs(n, {"", "a", "b"}) : n \in 0..2}
ConsArgs == UNION {ArgSeqs(n, {""}) : n \in 0..2} \cup UNION {ArgSeqs(n, {"a", "b"}) : n \in 1..2}
DC == {Call("foo", a) : a \in FnArgs} \cup {Call("Foo", a) : a \in ConsArgs}
      \cup {Call("Foo", <<Arg("a", V("x")), Arg("b", Hole), Arg("c", V("c"))>>), Call("Foo", <<Arg("", V("x")), Arg("", Hole), Arg("", V("a"))>>),
            Call("foo", <<Arg("a", Hole), Arg("", V("x")), Arg("b", V("b"))>>)}
\* compound arguments and positions
DCN == {Call(f, <<Arg(l, Bin(o, V("x"), V("y"))), Arg(l2, v)>>) : f \in {"foo"}, l \in {"", "a"}, l2 \in {"", "b"}, o \in {"+", "&&", "=="}, v \in {V("z"), Hole}}
       \cup {Call("Foo", <<Arg("a", Bin(o, V("x"), V("y"))), Arg("b", v)>>) : o \in {"+", "||"}, v \in {V("b"), Hole}}
       \cup {Call("foo", <<Arg("", Call("Foo", <<Arg("a", Hole), Arg("b", V("b"))>>)), Arg("", V("x"))>>),
             Call("Foo", <<Arg("a", Call("bar", <<Arg("", Hole), Arg("c", V("x"))>>)), Arg("b", V("y"))>>)}
       \cup {Bin(o, Call("foo", <<Arg("", V("x"))>>), Call("Foo", <<Arg("a", V("a"))>>)) : o \in {"+", "==", "&&"}}
       \cup {Un("!", Call("foo", <<Arg("a", V("x"))>>))}
\* as pipeline stages: a stage with a labelled hole keeps it; (an unlabelled first hole is sugar and is not in the universe)
DCP == {Pipe(<<V("x"), Call("foo", a)>>) : a \in {s \in FnArgs : Len(s) >= 1 /\ ~(s[1].l = "" /\ s[1].v = Hole) /\ Holes(s) = 1}}
       \cup {Pipe(<<V("x"), Call("Foo", a)>>) : a \in {s \in ConsArgs : Len(s) >= 1 /\ ~(s[1].l = "" /\ s[1].v = Hole) /\ Holes(s) = 1}}

Universe == Atoms \cup U1 \cup D1 \cup D2 \cup D3 \cup DU \cup DP \cup DC \cup DCN \cup DCP

VARIABLES e
Init == e \in Universe
Next == UNCHANGED e
Spec == Init /\ [][Next]_e

\* flattening: a pipeline whose first stage is itself a pipeline denotes the longer pipeline (that is how `|>` reads)
RECURSIVE Norm(_)
Norm(t) ==
    CASE t.k = "un"   -> Un(t.op, Norm(t.e))
      [] t.k = "bin"  -> Bin(t.op, Norm(t.l), Norm(t.r))
      [] t.k = "call" -> Call(t.f, [i \in 1..Len(t.args) |-> Arg(t.args[i].l, Norm(t.args[i].v))])
      [] t.k = "pipe" -> LET es == [i \in 1..Len(t.es) |-> Norm(t.es[i])] IN
                         IF es[1].k = "pipe" THEN Pipe(es[1].es \o SubSeq(es, 2, Len(es))) ELSE Pipe(es)
      [] OTHER -> t

PrintParses == Parse(Min(e)) = Norm(e)
FullParses == Parse(Full(e)) = Norm(e)

Emit == PrintT(<<"REPLAY", ToJson([tree |-> Norm(e), min |-> Min(e), full |-> Full(e)])>>)
=============================================================================
