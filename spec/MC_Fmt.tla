------------------------------- MODULE MC_Fmt -------------------------------
(***************************************************************************)
(* Every operator tree of depth <= 2 over a representative of each          *)
(* precedence level (plus every pair of operators in both nestings at depth *)
(* 2, and selected depth-3 shapes), prefix operators and pipelines in every *)
(* position.  TLC checks the specification's printers against its parser    *)
(* and prints both renderings for the real parser / formatter.              *)
(***************************************************************************)
EXTENDS Fmt, Json

Atoms == {V("a"), V("b")}
Ops == {"||", "&&", "==", "<", "+", "-", "*", "/"}
AllOps == BinOps
U1 == {Un(op, a) : op \in {"!", "neg"}, a \in Atoms}
D1 == {Bin(op, a, b) : op \in AllOps, a \in {V("a")}, b \in {V("b")}}
\* every ordered pair of operators, nested on the left and on the right
D2 == {Bin(o2, Bin(o1, V("a"), V("b")), V("c")) : o1 \in AllOps, o2 \in AllOps}
      \cup {Bin(o2, V("a"), Bin(o1, V("b"), V("c"))) : o1 \in AllOps, o2 \in AllOps}
\* three operators: the four bracketings over one representative per level
D3 == {Bin(o3, Bin(o2, Bin(o1, V("a"), V("b")), V("c")), V("d")) : o1 \in Ops, o2 \in Ops, o3 \in Ops}
      \cup {Bin(o3, V("a"), Bin(o2, V("b"), Bin(o1, V("c"), V("d")))) : o1 \in Ops, o2 \in Ops, o3 \in Ops}
      \cup {Bin(o3, Bin(o1, V("a"), V("b")), Bin(o2, V("c"), V("d"))) : o1 \in Ops, o2 \in Ops, o3 \in Ops}
      \cup {Bin(o3, V("a"), Bin(o2, Bin(o1, V("b"), V("c")), V("d"))) : o1 \in Ops, o2 \in Ops, o3 \in Ops}
\* prefix operators around and inside binary ones
DU == {Un(u, Bin(o, V("a"), V("b"))) : u \in {"!", "neg"}, o \in Ops}
      \cup {Bin(o, Un(u, V("a")), V("b")) : u \in {"!", "neg"}, o \in Ops}
      \cup {Bin(o, V("a"), Un(u, V("b"))) : u \in {"!", "neg"}, o \in Ops}
      \cup {Un(u, Un(w, V("a"))) : u \in {"!", "neg"}, w \in {"!", "neg"}}
\* pipelines: as operands, with operator operands, nested
DP == {Pipe(<<V("a"), V("f")>>), Pipe(<<V("a"), V("f"), V("g")>>)}
      \cup {Pipe(<<Bin(o, V("a"), V("b")), V("f")>>) : o \in Ops}
      \cup {Bin(o, Pipe(<<V("a"), V("f")>>), V("b")) : o \in Ops}
      \cup {Bin(o, V("a"), Pipe(<<V("b"), V("f")>>)) : o \in Ops}
      \cup {Pipe(<<V("a"), Pipe(<<V("b"), V("f")>>)>>), Pipe(<<Pipe(<<V("a"), V("f")>>), V("g")>>), Un("!", Pipe(<<V("a"), V("f")>>))}

Universe == Atoms \cup U1 \cup D1 \cup D2 \cup D3 \cup DU \cup DP

VARIABLES e
Init == e \in Universe
Next == UNCHANGED e
Spec == Init /\ [][Next]_e

\* flattening: a pipeline whose first stage is itself a pipeline denotes the longer pipeline (that is how `|>` reads)
RECURSIVE Norm(_)
Norm(t) ==
    CASE t.k = "un"   -> Un(t.op, Norm(t.e))
      [] t.k = "bin"  -> Bin(t.op, Norm(t.l), Norm(t.r))
      [] t.k = "pipe" -> LET es == [i \in 1..Len(t.es) |-> Norm(t.es[i])] IN
                         IF es[1].k = "pipe" THEN Pipe(es[1].es \o SubSeq(es, 2, Len(es))) ELSE Pipe(es)
      [] OTHER -> t

PrintParses == Parse(Min(e)) = Norm(e)
FullParses == Parse(Full(e)) = Norm(e)

Emit == PrintT(<<"REPLAY", ToJson([tree |-> Norm(e), min |-> Min(e), full |-> Full(e)])>>)
=============================================================================
