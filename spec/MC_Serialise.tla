---------------------------- MODULE MC_Serialise -----------------------------
(***************************************************************************)
(* serialiseData (C04): the CBOR bytes of a Data value, as the Plutus       *)
(* specification fixes them (Flat.tla: CborData).  Integers beyond TLC's    *)
(* range are given by the BYTES of their CBOR argument:                     *)
(*     Big(neg, m)  stands for   m   (neg = FALSE)  or  -1 - m  (neg = TRUE)*)
(* where m is a big-endian magnitude without leading zeros.  Then           *)
(*   - up to 8 bytes: major type 0 / 1 with the 8-byte argument form        *)
(*     (used here for magnitudes of 5 to 8 bytes; smaller ones are ordinary  *)
(*     integers and go through CHead),                                      *)
(*   - more than 8 bytes: tag 2 / 3 around a byte string (in one piece up    *)
(*     to 64 bytes).                                                        *)
(* This is where 2^63, 2^64 - 1 and 2^64 separate: the first two are CBOR    *)
(* integers, the third is a bignum.                                         *)
(***************************************************************************)
EXTENDS Flat, Json

Big(neg, m) == [d |-> "I", big |-> [neg |-> neg, m |-> m]]
IsBig(d) == d.d = "I" /\ "big" \in DOMAIN d

Pad8(m) == [i \in 1..(8 - Len(m)) |-> 0] \o m
CborBig(b) ==
    IF Len(b.m) <= 8 THEN <<32 * (IF b.neg THEN 1 ELSE 0) + 27>> \o Pad8(b.m)
    ELSE <<192 + (IF b.neg THEN 3 ELSE 2)>> \o CHead(2, Len(b.m)) \o b.m

RECURSIVE CborD(_), CborDSeq(_), CborDPairs(_)
CborDSeq(ds) == IF ds = <<>> THEN <<>> ELSE CborD(ds[1]) \o CborDSeq(Tail(ds))
CborDPairs(kvs) == IF kvs = <<>> THEN <<>> ELSE CborD(kvs[1][1]) \o CborD(kvs[1][2]) \o CborDPairs(Tail(kvs))
CborDList(ds) == IF ds = <<>> THEN <<128>> ELSE <<159>> \o CborDSeq(ds) \o <<255>>
CborD(d) ==
    CASE IsBig(d)  -> CborBig(d.big)
      [] d.d = "I" -> IF d.v >= 0 THEN CHead(0, d.v) ELSE CHead(1, (0 - 1) - d.v)
      [] d.d = "B" -> CHead(2, Len(d.v)) \o d.v
      [] d.d = "L" -> CborDList(d.v)
      [] d.d = "M" -> CHead(5, Len(d.v)) \o CborDPairs(d.v)
      [] d.d = "C" -> (IF d.tag < 7 THEN CHead(6, 121 + d.tag) \o CborDList(d.fs)
                       ELSE IF d.tag < 128 THEN CHead(6, 1280 + (d.tag - 7)) \o CborDList(d.fs)
                       ELSE CHead(6, 102) \o <<130>> \o CHead(0, d.tag) \o CborDList(d.fs))

DI(n) == [d |-> "I", v |-> n]
DB(bs) == [d |-> "B", v |-> bs]
DL(xs) == [d |-> "L", v |-> xs]
DM(kvs) == [d |-> "M", v |-> kvs]
DC(tag, fs) == [d |-> "C", tag |-> tag, fs |-> fs]

Zeros(n) == [i \in 1..n |-> 0]
Mags == << <<1, 0, 0, 0, 0>>,                    \* 2^32
           <<127, 255, 255, 255, 255, 255, 255, 255>>,   \* 2^63 - 1
           <<128>> \o Zeros(7),                  \* 2^63
           <<255, 255, 255, 255, 255, 255, 255, 255>>,   \* 2^64 - 1
           <<1>> \o Zeros(8),                    \* 2^64
           <<1>> \o Zeros(16),                   \* 2^128
           <<2>> \o Zeros(63),                   \* 64 bytes: the largest one-piece bignum
           <<255, 254, 253, 252, 251, 250>> >>   \* 6 bytes
Bigs == [i \in 1..(2 * Len(Mags)) |-> Big(i > Len(Mags), Mags[((i - 1) % Len(Mags)) + 1])]

Smalls == << DI(0), DI(23), DI(24), DI(255), DI(256), DI(65535), DI(65536), DI(2147483647), DI(0 - 1), DI(0 - 24), DI(0 - 25), DI(0 - 256), DI(0 - 257),
             DI(0 - 65537), DI(0 - 2147483647), DB(<<>>), DB(<<1, 2, 3>>), DB([i \in 1..64 |-> i]), DL(<<>>), DL(<<DI(1), DB(<<>>)>>), DM(<<>>),
             DM(<<<<DI(1), DB(<<2>>)>>, <<DL(<<>>), DC(0, <<>>)>>>>), DC(0, <<>>), DC(6, <<DI(1)>>), DC(7, <<>>), DC(127, <<DI(1), DI(2)>>), DC(128, <<>>),
             DC(2147483647, <<DC(1, <<DL(<<DI(3)>>)>>)>>) >>
Nested == [i \in 1..Len(Bigs) |-> DC(1, <<Bigs[i], DL(<<Bigs[i], DI(7)>>)>>)]
          \o [i \in 1..Len(Bigs) |-> DM(<<<<Bigs[i], Bigs[((i) % Len(Bigs)) + 1]>>>>)]
Cases == Smalls \o Bigs \o Nested

VARIABLES n
Init == n \in 1..Len(Cases)
Next == UNCHANGED n
Spec == Init /\ [][Next]_n

\* sanity of the statement itself: the encoding starts with the right major type and nothing is empty
Sane == LET b == CborD(Cases[n]) IN Len(b) >= 1 /\ \A i \in 1..Len(b) : b[i] \in 0..255

Emit == PrintT(<<"REPLAY", ToJson([id |-> n, data |-> Cases[n], bytes |-> CborD(Cases[n])])>>)
=============================================================================
