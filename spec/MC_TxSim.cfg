SPECIFICATION Spec
CONSTANTS
  MaxR = 2
  Langs = {2, 3}
INVARIANTS Accounting FailsIff Emit
CHECK_DEADLOCK FALSE
