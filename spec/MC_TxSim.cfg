SPECIFICATION Spec
CONSTANTS
  MaxR = 2
  Langs = {2, 3}
  Kinds = {"cheap", "costly", "picky", "fail"}
  ScriptLocs = {"witness", "reference", "inputref", "missing"}
  DatumKinds = {"inline", "witness", "missing", "none"}
INVARIANTS Accounting FailsIff Emit
CHECK_DEADLOCK FALSE
