SPECIFICATION FSpec
INVARIANTS EndsAligned FEmit
CHECK_DEADLOCK FALSE
