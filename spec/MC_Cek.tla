------------------------------- MODULE MC_Cek -------------------------------
(***************************************************************************)
(* Exhaustive configuration of the CEK machine specification (Uplc.tla):    *)
(* every well-scoped (or, with OpenVars > 0, deliberately ill-scoped) term   *)
(* with at most N nodes over an ATOM POOL selected by Profile, under every   *)
(* ledger semantics variant in Sems.  The next-state relation is the         *)
(* specification's Step; TLC checks the invariants below in every state and  *)
(* prints one REPLAY line per finished run, which the harness executes on    *)
(* the real machine (DESIGN.md sections 4.1, 5, C03/C05/C10).                *)
(***************************************************************************)
EXTENDS Uplc, Json

CONSTANTS N,          \* maximal number of nodes (atoms count 1)
          Profile,    \* which atom pool
          Sems,       \* set of semantics variants
          OpenVars,   \* how many out-of-scope indices are offered (0 = closed terms only)
          MaxSteps

I(n) == Con(MkInt(n))
B(b) == Con(MkBool(b))
BS(s) == Con(MkBs(s))
U == Con(MkUnit)
D(d) == Con(MkData(d))
L(et, xs) == Con(MkList(et, xs))
HugeP == Con(MkHuge(1, 3))
HugeN == Con(MkHuge(0 - 1, 5))
F1(f) == Force(Bi(f))
F2(f) == Force(Force(Bi(f)))

\* a SEQUENCE: TLC cannot normalise a set whose elements carry differently typed payloads under the same field name
AtomSeq ==
    CASE Profile \in {"core", "closure"} -> <<I(0), Err>>
      [] Profile = "lambda" -> <<I(0), I(1), U, Err, Bi("addInteger"), F1("ifThenElse")>>
      [] Profile = "constr" -> <<I(0), I(2), B(TRUE), U, Err, L(TInt, <<MkInt(7)>>), L(TInt, <<>>),
                                Con(MkPair(TInt, TBool, MkInt(4), MkBool(FALSE)))>>
      [] Profile = "arith" -> <<I(0), I(1), I(0 - 7), I(2), HugeP, HugeN, Err, U,
                               Bi("addInteger"), Bi("subtractInteger"), Bi("multiplyInteger"),
                               Bi("divideInteger"), Bi("modInteger"), Bi("quotientInteger"),
                               Bi("remainderInteger"), Bi("lessThanInteger"), Bi("equalsInteger"),
                               Bi("lessThanEqualsInteger")>>
      [] Profile = "bytes" -> <<I(0), I(1), I(0 - 1), I(256), HugeP, BS(<<>>), BS(<<1, 255>>),
                               BS(<<0, 1, 2, 3, 4, 5, 6, 7, 8>>), B(TRUE),
                               Bi("appendByteString"), Bi("consByteString"), Bi("sliceByteString"),
                               Bi("lengthOfByteString"), Bi("indexByteString"), Bi("equalsByteString"),
                               Bi("lessThanByteString"), Bi("lessThanEqualsByteString")>>
      [] Profile = "poly" -> <<I(1), B(TRUE), B(FALSE), U, Err, Con(MkStr(<<104, 105>>)),
                              L(TInt, <<MkInt(1), MkInt(2)>>), L(TInt, <<>>),
                              Con(MkPair(TInt, TBool, MkInt(4), MkBool(FALSE))),
                              Bi("ifThenElse"), F1("ifThenElse"), Bi("chooseUnit"), F1("chooseUnit"),
                              Bi("trace"), F1("trace"), Bi("fstPair"), F1("fstPair"), F2("fstPair"),
                              F2("sndPair"), F1("headList"), F1("tailList"), F1("nullList"),
                              F1("mkCons"), F2("chooseList"), Bi("headList")>>
      [] Profile = "data" -> <<I(3), BS(<<9>>), U, D(DI(5)), D(DB(<<1>>)), D(DL(<<DI(1)>>)),
                              D(DM(<<<<DI(1), DB(<<>>)>>>>)), D(DC(1, <<DI(2)>>)),
                              L(TData, <<MkData(DI(1))>>), L(TData, <<>>),
                              L(TPair(TData, TData), <<>>),
                              Bi("constrData"), Bi("mapData"), Bi("listData"), Bi("iData"), Bi("bData"),
                              Bi("unConstrData"), Bi("unMapData"), Bi("unListData"), Bi("unIData"),
                              Bi("unBData"), Bi("equalsData"), Bi("mkPairData"), Bi("mkNilData"),
                              Bi("mkNilPairData"), F1("chooseData")>>
      [] Profile = "bits" -> <<I(0), I(1), I(0 - 3), I(9), B(TRUE), B(FALSE), BS(<<>>), BS(<<240, 15>>),
                              BS(<<1>>), L(TInt, <<MkInt(0), MkInt(9)>>),
                              Bi("andByteString"), Bi("orByteString"), Bi("xorByteString"),
                              Bi("complementByteString"), Bi("readBit"), Bi("writeBits"),
                              Bi("replicateByte"), Bi("shiftByteString"), Bi("rotateByteString"),
                              Bi("countSetBits"), Bi("findFirstSetBit"), Bi("integerToByteString"),
                              Bi("byteStringToInteger")>>

MaxScope == 3

(***************************************************************************)
(* TS[n][sc]: terms with exactly n nodes whose free indices are <= sc        *)
(* (+ OpenVars indices beyond the scope, and index 0, when OpenVars > 0).    *)
(***************************************************************************)
VarsAt(sc) == {Var(i) : i \in (IF OpenVars > 0 THEN 0..(sc + OpenVars) ELSE 1..sc)}

\* prev[i][sc + 1] = terms with exactly i nodes in scope sc (i < n)
PairsL(n, sc, prev) ==    \* two sub-terms sharing n nodes
    UNION {{<<a, b>> : a \in prev[i][sc + 1], b \in prev[n - i][sc + 1]} : i \in 1..(n - 1)}
TriplesL(n, sc, prev) ==
    UNION {{<<p[1], p[2], c>> : p \in PairsL(i, sc, prev), c \in prev[n - i][sc + 1]} : i \in 2..(n - 1)}
Build(n, sc, prev) ==
    IF n > N THEN {}
    ELSE (IF sc < MaxScope THEN {Lam(b) : b \in prev[n - 1][sc + 2]} ELSE {})
         \cup {Delay(b) : b \in prev[n - 1][sc + 1]}
         \cup {Force(b) : b \in prev[n - 1][sc + 1]}
         \cup {App(p[1], p[2]) : p \in PairsL(n - 1, sc, prev)}
         \cup (IF Profile \in {"constr", "lambda", "core"} THEN
                 {Constr(1, <<b>>) : b \in prev[n - 1][sc + 1]}
                 \cup {Constr(0, <<p[1], p[2]>>) : p \in PairsL(n - 1, sc, prev)}
                 \cup {Case(x, <<>>) : x \in prev[n - 1][sc + 1]}
                 \cup {Case(p[1], <<p[2]>>) : p \in PairsL(n - 1, sc, prev)}
                 \cup {Case(q[1], <<q[2], q[3]>>) : q \in TriplesL(n - 1, sc, prev)}
               ELSE {})

\* constant-level definitions: TLC evaluates each of them once
Scopes == 0..MaxScope
\* inside the enumerated sets an atom is only its index; Expand puts the term back
AtomRef(j) == [k |-> "atom", j |-> j]
L1 == [sc \in 1..(MaxScope + 1) |-> {AtomRef(j) : j \in 1..Len(AtomSeq)} \cup VarsAt(sc - 1) \cup {Constr(0, <<>>)}]
L2 == [sc \in 1..(MaxScope + 1) |-> Build(2, sc - 1, <<L1>>)]
L3 == [sc \in 1..(MaxScope + 1) |-> Build(3, sc - 1, <<L1, L2>>)]
L4 == [sc \in 1..(MaxScope + 1) |-> Build(4, sc - 1, <<L1, L2, L3>>)]
L5 == [sc \in 1..(MaxScope + 1) |-> Build(5, sc - 1, <<L1, L2, L3, L4>>)]
L6 == [sc \in 1..(MaxScope + 1) |-> Build(6, sc - 1, <<L1, L2, L3, L4, L5>>)]
L7 == [sc \in 1..(MaxScope + 1) |-> Build(7, sc - 1, <<L1, L2, L3, L4, L5, L6>>)]
TS(n, sc) == CASE n = 1 -> L1[sc + 1] [] n = 2 -> L2[sc + 1] [] n = 3 -> L3[sc + 1] [] n = 4 -> L4[sc + 1]
               [] n = 5 -> L5[sc + 1] [] n = 6 -> L6[sc + 1] [] n = 7 -> L7[sc + 1]

(***************************************************************************)
(* Profile "closure": results that are closures over closures.  The value   *)
(* returned captures a variable whose value is itself a closure with a      *)
(* captured variable (two to three environment levels), under lam / delay / *)
(* constr / case / application: what read-back (discharge) must substitute  *)
(* with the right environment at the right binder depth.                    *)
(***************************************************************************)
V1 == Var(1)
V2 == Var(2)
V3 == Var(3)
\* closures with one captured variable `a` (index counted from inside)
Inner == {Lam(V2), Delay(V1), Lam(Lam(V3)), Lam(App(V1, V2)), Constr(1, <<V1>>), Lam(Constr(0, <<V1, V2>>)),
          Lam(Case(V2, <<V1>>)), Delay(Lam(V2)), Lam(Delay(V2))}
Captured == {I(7), Lam(V1), Delay(I(7)), Constr(0, <<I(1)>>)}
\* a closure value: [(lam a INNER) CAPTURED]
Clos1 == {App(Lam(c), v) : c \in Inner, v \in Captured}
\* ... whose captured value is itself such a closure
Clos2 == {App(Lam(c), v) : c \in Inner, v \in {App(Lam(Lam(V2)), I(7)), App(Lam(Delay(V1)), Lam(V1)),
                                              App(Lam(Lam(Lam(V3))), I(3)), App(Lam(Constr(1, <<V1>>)), Delay(I(2)))}}
\* what is returned around the captured closure `f`
Outer == {Lam(V2), Delay(V1), Lam(Lam(V3)), Lam(App(V2, V1)), Constr(0, <<V1, I(0)>>), Lam(Constr(1, <<V2>>)),
          Delay(Case(Constr(0, <<>>), <<V1>>)), Lam(Delay(V2)), Lam(Case(V1, <<V2>>)), App(Lam(Lam(V2)), V1)}
ClosureTerms == {App(Lam(o), c) : o \in Outer, c \in Clos1 \cup Clos2}
                \cup {App(App(Lam(Lam(o)), c), d) : o \in {Lam(V3), Lam(V2), Delay(Constr(0, <<V1, V2>>)), Lam(App(V3, V2))},
                                                    c \in Clos1, d \in {I(9), Lam(V1)}}

RECURSIVE Expand(_)
Expand(t) ==
    CASE t.k = "atom"   -> AtomSeq[t.j]
      [] t.k = "lam"    -> Lam(Expand(t.b))
      [] t.k = "delay"  -> Delay(Expand(t.b))
      [] t.k = "force"  -> Force(Expand(t.b))
      [] t.k = "app"    -> App(Expand(t.f), Expand(t.a))
      [] t.k = "constr" -> Constr(t.tag, [i \in 1..Len(t.fs) |-> Expand(t.fs[i])])
      [] t.k = "case"   -> Case(Expand(t.s), [i \in 1..Len(t.bs) |-> Expand(t.bs[i])])
      [] OTHER -> t

VARIABLES st, t0
vars == <<st, t0>>

Init == \E n \in 1..N : \E t \in (IF Profile = "closure" THEN (IF n = 1 THEN ClosureTerms ELSE {}) ELSE TS(n, 0)) : \E s \in Sems :
            /\ t0 = Expand(t)
            /\ st = InitState(Expand(t), s)

Next == /\ ~Terminal(st)
        /\ st' = IF st.n >= MaxSteps THEN Unknown(st, "steps") ELSE Step(st)
        /\ UNCHANGED t0

Spec == Init /\ [][Next]_vars

(***************************************************************************)
(* Invariants of the specification itself.                                  *)
(***************************************************************************)
Modes == {"compute", "return", "done", "fail", "unknown"}
TypeOK == st.mode \in Modes

\* a closed term never fails with an unbound variable, and its result is closed
ScopeSafety ==
    (OpenVars = 0) =>
        /\ ~(st.mode = "fail" /\ st.why = "open")
        /\ (st.mode = "done" => Closed(Discharge(st.ctrl), 0))

\* the number of steps charged is the number of machine steps taken
StepCount == st.n = st.steps[1] + st.steps[2] + st.steps[3] + st.steps[4] + st.steps[5]
                    + st.steps[6] + st.steps[7] + st.steps[8] + st.steps[9]

\* builtin costs are never negative, so the cost of a run is monotone in its length
CostSane == st.bcpu >= 0 /\ st.bmem >= 0

\* one REPLAY line per finished behaviour
Emit ==
    Terminal(st) =>
        PrintT(<<"REPLAY", ToJson([term |-> t0, sem |-> st.sem, out |-> Outcome(st),
                                   cost |-> CostOf(st, MachineCostsOf(st.sem)),
                                   steps |-> st.steps, n |-> st.n, logs |-> st.logs])>>)
=============================================================================
