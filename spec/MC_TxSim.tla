------------------------------ MODULE MC_TxSim ------------------------------
(***************************************************************************)
(* Every transaction of up to MaxR redeemers over the catalogue below, for  *)
(* every budget kind.  The outcome of each is printed for replay on         *)
(* eval_phase_two; the harness supplies the resolved inputs and the witness *)
(* scripts in several orders, which the model does not even have a place    *)
(* for: the answer may not depend on them.                                  *)
(***************************************************************************)
EXTENDS TxSim, Json

CONSTANTS MaxR, Langs, Kinds, ScriptLocs, DatumKinds

Purposes == {"spend", "mint", "withdraw"}
Entry == {[purpose |-> p, kind |-> k, lang |-> l, script |-> s, datum |-> d] :
            p \in Purposes, k \in Kinds, l \in Langs, s \in ScriptLocs, d \in DatumKinds}
\* a datum only makes sense on a spent output; keep one representative otherwise; a missing script needs no further variety
Sensible(r) == /\ (r.purpose # "spend" => r.datum = "none")
               /\ (r.script = "missing" => r.kind = "cheap")
               /\ (r.datum = "missing" => r.kind = "cheap" /\ r.script = "witness")
               /\ (r.script \in {"reference", "inputref"} => r.kind \in {"cheap", "picky"})
Entries == {r \in Entry : Sensible(r)}
BudgetKinds == {"ample", "exact", "short_cpu", "short_mem", "first"}

\* at most one redeemer per (purpose) beyond spend keeps transactions buildable: one minting policy per script kind would collide
Distinct(s) == \A a, b \in 1..Len(s) : a # b => ~(s[a].purpose = s[b].purpose /\ s[a].purpose # "spend" /\ s[a].kind = s[b].kind /\ s[a].lang = s[b].lang /\ s[a].script = s[b].script)

RECURSIVE SeqsUpTo(_, _)
SeqsUpTo(S, n) == IF n = 0 THEN {<<>>} ELSE LET prev == SeqsUpTo(S, n - 1) IN prev \cup {Append(s, x) : s \in {t \in prev : Len(t) = n - 1}, x \in S}

Init == /\ rs \in {s \in SeqsUpTo(Entries, MaxR) : Len(s) >= 1 /\ Distinct(s)}
        /\ bk \in BudgetKinds
        /\ (bk \in {"short_cpu", "short_mem"} => SumCost(rs, Len(rs)).mem >= 1)     \* a budget is never negative
        /\ i = 1
        /\ rem = Budget(rs, bk)
        /\ out = [st |-> "running", at |-> 0, why |-> "", units |-> <<>>]
Next == Step
Spec == Init /\ [][Next]_vars

Emit == (out.st # "running") => PrintT(<<"REPLAY", ToJson([rs |-> rs, budget |-> bk, out |-> out])>>)
=============================================================================
