------------------------------- MODULE Shrink -------------------------------
(***************************************************************************)
(* Property-test shrinking (C16), abstractly.                               *)
(*                                                                         *)
(* A FUZZER is a deterministic reader of a sequence of byte choices: it     *)
(* consumes a prefix and yields a value, or runs out of choices (invalid).  *)
(* It is prefix-deterministic by construction: what it reads decides what   *)
(* it reads next, and unread choices do not matter.  A PROPERTY is a        *)
(* predicate on values.  Under the expectation `mode`                       *)
(*     Status(c) = Invalid        the fuzzer cannot finish on c             *)
(*                 Keep(v)        c replays to v and v is a counterexample  *)
(*                 Ignore         c replays to a value that is not one      *)
(* The catalogue below covers constant fuzzers, fixed and data-dependent    *)
(* numbers of choices, rejection of some choices ("None on replay") and     *)
(* nested structure.  Values are integers (an encoding of what was built).  *)
(***************************************************************************)
EXTENDS Integers, Sequences, FiniteSets, TLC

Inv(k)     == [ok |-> FALSE, used |-> k]
Val(v, k)  == [ok |-> TRUE, v |-> v, used |-> k]

RECURSIVE SumFrom(_, _, _)
SumFrom(c, i, n) == IF n = 0 THEN 0 ELSE c[i] + SumFrom(c, i + 1, n - 1)

\* Fuzz(f, c): the value the fuzzer builds from choices c and how many it consumed
Fuzz(f, c) ==
    CASE f = "const"  -> Val(7, 0)
      [] f = "byte"   -> IF Len(c) >= 1 THEN Val(c[1], 1) ELSE Inv(0)
      [] f = "pair"   -> IF Len(c) >= 2 THEN Val(c[1] * 256 + c[2], 2) ELSE Inv(0)
      [] f = "list"   ->      \* first choice (mod 4) is a length, then that many elements; value = their sum
            IF Len(c) < 1 THEN Inv(0)
            ELSE LET n == c[1] % 4 IN IF Len(c) >= 1 + n THEN Val(SumFrom(c, 2, n), 1 + n) ELSE Inv(0)
      [] f = "until"  ->      \* read until a zero byte, at most 4; value = number read (geometric list)
            LET stop == {i \in 1..Len(c) : i <= 4 /\ c[i] = 0} IN
            IF stop # {} THEN LET k == CHOOSE i \in stop : \A j \in stop : i <= j IN Val(k - 1, k)
            ELSE IF Len(c) >= 4 THEN Val(4, 4) ELSE Inv(0)
      [] f = "picky"  ->      \* rejects odd first choices (returns None on replay of such a sequence)
            IF Len(c) < 1 THEN Inv(0) ELSE IF c[1] % 2 = 1 THEN Inv(1)
            ELSE IF Len(c) >= 2 THEN Val(c[1] + c[2], 2) ELSE Inv(1)
      [] f = "branch" ->      \* data-dependent: small first choice -> one more choice, else two more
            IF Len(c) < 1 THEN Inv(0)
            ELSE IF c[1] < 2 THEN (IF Len(c) >= 2 THEN Val(c[2], 2) ELSE Inv(1))
            ELSE (IF Len(c) >= 3 THEN Val(c[2] * c[3] + c[1], 3) ELSE Inv(1))

Fuzzers == {"const", "byte", "pair", "list", "until", "picky", "branch"}

\* Holds(p, v): the property holds of value v (a counterexample is a value where it does not)
Holds(p, v) ==
    CASE p = "never"  -> FALSE
      [] p = "always" -> TRUE
      [] p = "lt3"    -> v < 3
      [] p = "even"   -> v % 2 = 0
      [] p = "ne5"    -> v # 5
      [] p = "le300"  -> v <= 300

Properties == {"never", "always", "lt3", "even", "ne5", "le300"}
Modes == {"fail_immediately", "succeed_immediately", "succeed_eventually"}

Status(f, p, mode, c) ==
    LET r == Fuzz(f, c) IN
    IF ~r.ok THEN [s |-> "invalid"]
    ELSE LET failure == ~Holds(p, r.v)
             keep == IF mode = "succeed_eventually" THEN ~failure ELSE failure
         IN  IF keep THEN [s |-> "keep", v |-> r.v] ELSE [s |-> "ignore"]

(***************************************************************************)
(* The order in which a candidate may replace the current counterexample.   *)
(***************************************************************************)
RECURSIVE LexLess(_, _)
LexLess(a, b) ==
    IF b = <<>> THEN FALSE
    ELSE IF a = <<>> THEN TRUE
    ELSE IF a[1] # b[1] THEN a[1] < b[1]
    ELSE LexLess(Tail(a), Tail(b))

NoLarger(c, best) == Len(c) <= Len(best) \/ LexLess(c, best) \/ c = best

(***************************************************************************)
(* The verdict layer: what a property test reports, per expectation.        *)
(* found = a kept counterexample was found within the iterations run.        *)
(***************************************************************************)
TestPasses(mode, found) ==
    CASE mode = "fail_immediately"    -> ~found        \* plain test: passes iff no counterexample
      [] mode = "succeed_immediately" -> found         \* `fail once`: passes iff some run fails
      [] mode = "succeed_eventually"  -> ~found        \* `fail`: passes iff no run succeeds
=============================================================================
