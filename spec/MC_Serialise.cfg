SPECIFICATION Spec
INVARIANTS Sane Emit
CHECK_DEADLOCK FALSE
