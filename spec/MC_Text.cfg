SPECIFICATION Spec
INVARIANTS NamesDistinct Emit
CHECK_DEADLOCK FALSE
