------------------------------ MODULE Obs_Uplc ------------------------------
(***************************************************************************)
(* Observation validation for the CEK machine (DESIGN.md section 5).        *)
(* Each line of the ndjson file IOEnv.TRACE is one evaluation recorded from *)
(* the real machine (or, for spec anchoring, an upstream golden):           *)
(*   {"id", "term", "sem", "out": {"o":"val","v":T} | {"o":"fail",...},      *)
(*    "cost": {"cpu","mem"} (optional), "chk": "outcome" | "cost" | "both"}  *)
(* The spec machine runs the term (K steps per TLA+ action) and the event   *)
(* is ACCEPTED iff the recorded outcome (and cost) is the specification's.  *)
(* Events are independent: a rejected one is recorded and the rest is still *)
(* examined.                                                                *)
(***************************************************************************)
EXTENDS Uplc, Json, IOUtils

Rec == ndJsonDeserialize(IOEnv.TRACE)
MaxSteps == 400000
K == 256

VARIABLES l, phase, st, bad, skipped, okc
vars == <<l, phase, st, bad, skipped, okc>>

Idle == [mode |-> "idle"]

Init == l = 1 /\ phase = "load" /\ st = Idle /\ bad = <<>> /\ skipped = <<>> /\ okc = 0

Load ==
    /\ phase = "load" /\ l <= Len(Rec)
    /\ st' = InitState(Rec[l].term, Rec[l].sem)
    /\ phase' = "run"
    /\ UNCHANGED <<l, bad, skipped, okc>>

Chunk ==
    /\ phase = "run" /\ ~Terminal(st) /\ st.n < MaxSteps
    /\ st' = RunK(st, K)
    /\ UNCHANGED <<l, phase, bad, skipped, okc>>

CostMatches(e, s) ==
    LET c == CostOf(s, MachineCostsOf(e.sem)) IN c.cpu = e.cost.cpu /\ c.mem = e.cost.mem

\* [c |-> "ok" | "skip" | "bad", why]
V(c, why) == [c |-> c, why |-> why]
Verdict(e, s) ==
    IF ~Terminal(s) THEN V("skip", "steps")
    ELSE IF s.mode = "unknown" THEN V("skip", s.why)
    ELSE IF s.mode = "fail" THEN
        (IF e.out.o = "fail" THEN V("ok", "")
         ELSE V("bad", "spec fails (" \o s.why \o "), observed " \o e.out.o))
    ELSE \* done
        IF e.out.o # "val" THEN V("bad", "spec returns a value, observed " \o e.out.o)
        ELSE IF e.chk \in {"outcome", "both"} /\ Discharge(s.ctrl) # e.out.v THEN V("bad", "value differs")
        ELSE IF e.chk \in {"cost", "both"} /\ "cpu" \in DOMAIN e.cost /\ ~CostMatches(e, s)
             THEN V("bad", "cost differs")
        ELSE V("ok", "")

Judge ==
    /\ phase = "run" /\ (Terminal(st) \/ st.n >= MaxSteps)
    /\ LET v == Verdict(Rec[l], st) IN
        /\ bad' = IF v.c = "bad" THEN Append(bad, <<l, v.why>>) ELSE bad
        /\ skipped' = IF v.c = "skip" THEN Append(skipped, <<l, v.why>>) ELSE skipped
        /\ okc' = IF v.c = "ok" THEN okc + 1 ELSE okc
    /\ l' = l + 1 /\ phase' = "load" /\ st' = Idle

Finish ==
    /\ phase = "load" /\ l = Len(Rec) + 1
    /\ PrintT(<<"OBSRESULT", ToJson([n |-> Len(Rec), ok |-> okc, bad |-> bad, skipped |-> skipped])>>)
    /\ phase' = "end"
    /\ UNCHANGED <<l, st, bad, skipped, okc>>

Next == Load \/ Chunk \/ Judge \/ Finish
Spec == Init /\ [][Next]_vars
=============================================================================
