------------------------------- MODULE Uplc -------------------------------
(***************************************************************************)
(* Untyped Plutus Core: terms, values, the CEK machine, read-back          *)
(* (discharge) and cost accounting.                                        *)
(*                                                                         *)
(* Written from the Plutus Core specification's CEK machine (section       *)
(* "The CEK machine": compute / return states, frames [_ V], [_ (M,rho)],  *)
(* (force _), (constr i V.. _ M..), (case _ M..)), NOT from machine.rs.     *)
(* The state is one record `st` and the machine is the pure operator       *)
(* Step(st) so that the same definition serves as next-state relation of   *)
(* the exhaustive configurations (MC_Cek) and as evaluator of the          *)
(* observation specs (Obs_Uplc), DESIGN.md section 5.                      *)
(*                                                                         *)
(* Builtin denotations and costing live in UplcBuiltins.tla; this module   *)
(* only needs BuiltinArity / BuiltinForces / BuiltinCall / BuiltinCost.     *)
(***************************************************************************)
EXTENDS Integers, Sequences, FiniteSets, TLC, UplcBuiltins

(***************************************************************************)
(* Term constructors (JSON-shaped; field k discriminates).                  *)
(***************************************************************************)
Var(i)        == [k |-> "var", i |-> i]
Lam(b)        == [k |-> "lam", b |-> b]
App(f, a)     == [k |-> "app", f |-> f, a |-> a]
Delay(b)      == [k |-> "delay", b |-> b]
Force(b)      == [k |-> "force", b |-> b]
Con(c)        == [k |-> "con", c |-> c]
Bi(f)         == [k |-> "bi", f |-> f]
Err           == [k |-> "err"]
Constr(t, fs) == [k |-> "constr", tag |-> t, fs |-> fs]
Case(s, bs)   == [k |-> "case", s |-> s, bs |-> bs]

(***************************************************************************)
(* Values.                                                                  *)
(***************************************************************************)
VCon(c)            == [k |-> "vcon", c |-> c]
VDelay(b, env)     == [k |-> "vdelay", b |-> b, env |-> env]
VLam(b, env)       == [k |-> "vlam", b |-> b, env |-> env]
VBi(f, n, args)    == [k |-> "vbi", f |-> f, forces |-> n, args |-> args]
VConstr(t, fs)     == [k |-> "vconstr", tag |-> t, fs |-> fs]

(***************************************************************************)
(* Frames.                                                                  *)
(***************************************************************************)
FArg(v)               == [k |-> "farg", v |-> v]          \* [V _]
FFunTerm(env, t)      == [k |-> "ffun", env |-> env, t |-> t]  \* [_ (M, rho)]
FFunValue(v)          == [k |-> "fval", v |-> v]          \* [_ V]
FForce                == [k |-> "fforce"]
FConstr(env, t, todo, done) ==
    [k |-> "fconstr", env |-> env, tag |-> t, todo |-> todo, done |-> done]
FCases(env, bs)       == [k |-> "fcases", env |-> env, bs |-> bs]

(***************************************************************************)
(* Step kinds, in the order of the ledger's machine-cost parameters.        *)
(***************************************************************************)
StepKinds == <<"con", "var", "lam", "app", "delay", "force", "bi", "constr", "case">>
KindIx(k) == CASE k = "con" -> 1 [] k = "var" -> 2 [] k = "lam" -> 3 [] k = "app" -> 4
               [] k = "delay" -> 5 [] k = "force" -> 6 [] k = "bi" -> 7
               [] k = "constr" -> 8 [] k = "case" -> 9

(***************************************************************************)
(* Machine state.                                                           *)
(*   mode   : "compute" | "return" | "done" | "fail" | "unknown"             *)
(*   ctrl   : term (compute) or value (return / done)                        *)
(*   steps  : number of steps taken, per kind (the cost is a function of it) *)
(*   bcpu, bmem : sum of builtin costs so far                                *)
(*   why    : failure class                                                  *)
(***************************************************************************)
InitState(t, sem) ==
    [mode |-> "compute", ctrl |-> t, env |-> <<>>, stack |-> <<>>,
     steps |-> [i \in 1..9 |-> 0], n |-> 0, bcpu |-> 0, bmem |-> 0,
     logs |-> <<>>, why |-> "", sem |-> sem]

Tick(st, kind) ==
    [st EXCEPT !.steps[KindIx(kind)] = @ + 1, !.n = @ + 1]

Ret(st, v)          == [st EXCEPT !.mode = "return", !.ctrl = v]
Comp(st, t, env)    == [st EXCEPT !.mode = "compute", !.ctrl = t, !.env = env]
Fail(st, why)       == [st EXCEPT !.mode = "fail", !.why = why]
Unknown(st, why)    == [st EXCEPT !.mode = "unknown", !.why = why]
Push(st, fr)        == [st EXCEPT !.stack = Append(@, fr)]
Pop(st)             == [st EXCEPT !.stack = SubSeq(@, 1, Len(@) - 1)]
Top(st)             == st.stack[Len(st.stack)]

(***************************************************************************)
(* Saturated builtin call: charge the costing function, then the denotation. *)
(***************************************************************************)
CallBuiltin(st, f, args) ==
    LET r    == BuiltinCall(f, args, st.sem)
        cost == BuiltinCost(f, args, st.sem)     \* only looked at for a successful call
    IN  IF r.r = "unknown" THEN Unknown(st, "builtin " \o f)
        ELSE IF r.r = "fail" THEN Fail(st, "builtin")
        ELSE IF ~cost.known THEN Unknown(st, "cost " \o f)
        ELSE Ret([st EXCEPT !.bcpu = @ + cost.cpu, !.bmem = @ + cost.mem,
                            !.logs = @ \o r.logs], r.v)

(***************************************************************************)
(* force V                                                                  *)
(***************************************************************************)
ForceValue(st, v) ==
    IF v.k = "vdelay" THEN Comp(st, v.b, v.env)
    ELSE IF v.k = "vbi" THEN
        IF v.forces < BuiltinForces(v.f) THEN
            LET v1 == VBi(v.f, v.forces + 1, v.args)
            IN  IF v1.forces = BuiltinForces(v.f) /\ Len(v.args) = BuiltinArity(v.f)
                THEN CallBuiltin(st, v.f, v.args)
                ELSE Ret(st, v1)
        ELSE Fail(st, "structural")
    ELSE Fail(st, "structural")

(***************************************************************************)
(* [V W]                                                                    *)
(***************************************************************************)
ApplyValue(st, fun, arg) ==
    IF fun.k = "vlam" THEN Comp(st, fun.b, Append(fun.env, arg))
    ELSE IF fun.k = "vbi" THEN
        IF fun.forces = BuiltinForces(fun.f) /\ Len(fun.args) < BuiltinArity(fun.f) THEN
            LET args == Append(fun.args, arg)
            IN  IF Len(args) = BuiltinArity(fun.f)
                THEN CallBuiltin(st, fun.f, args)
                ELSE Ret(st, VBi(fun.f, fun.forces, args))
        ELSE Fail(st, "structural")
    ELSE Fail(st, "structural")

(***************************************************************************)
(* Case on a built-in constant (only the newest ledger semantics allows it). *)
(* Returns [ok, tag, fields, max].                                           *)
(***************************************************************************)
CaseOfConstant(c) ==
    CASE c.t = "unit" -> [ok |-> TRUE, tag |-> 0, fields |-> <<>>, max |-> 1]
      [] c.t = "bool" -> [ok |-> TRUE, tag |-> IF c.v THEN 1 ELSE 0, fields |-> <<>>, max |-> 2]
      [] c.t = "int"  -> IF IsHuge(c) \/ c.v < 0
                         THEN [ok |-> FALSE, miss |-> TRUE]
                         ELSE [ok |-> TRUE, tag |-> c.v, fields |-> <<>>, max |-> -1]
      [] c.t = "list" -> IF Len(c.v) = 0
                         THEN [ok |-> TRUE, tag |-> 1, fields |-> <<>>, max |-> 2]
                         ELSE [ok |-> TRUE, tag |-> 0,
                               fields |-> <<VCon(c.v[1]),
                                            VCon([t |-> "list", et |-> c.et, v |-> Tail(c.v)])>>,
                               max |-> 2]
      [] c.t = "pair" -> [ok |-> TRUE, tag |-> 0, fields |-> <<VCon(c.f), VCon(c.s)>>, max |-> 1]
      [] OTHER -> [ok |-> FALSE, miss |-> FALSE]

\* frames that apply the branch to the fields left to right: the first field is applied first,
\* so it ends up on top of the stack.
RECURSIVE PushFields(_, _)
PushFields(stack, fields) ==
    IF fields = <<>> THEN stack
    ELSE PushFields(Append(stack, FFunValue(fields[Len(fields)])), SubSeq(fields, 1, Len(fields) - 1))

CaseSelect(st, fr, tag, fields) ==
    IF tag + 1 <= Len(fr.bs)
    THEN Comp([st EXCEPT !.stack = PushFields(@, fields)], fr.bs[tag + 1], fr.env)
    ELSE Fail(st, "structural")

(***************************************************************************)
(* compute                                                                  *)
(***************************************************************************)
Compute(st) ==
    LET t == st.ctrl IN
    CASE t.k = "var" ->
            LET s1 == Tick(st, "var") IN
            IF t.i >= 1 /\ t.i <= Len(st.env)
            THEN Ret(s1, st.env[Len(st.env) - t.i + 1])
            ELSE Fail(s1, "open")
      [] t.k = "delay" -> Ret(Tick(st, "delay"), VDelay(t.b, st.env))
      [] t.k = "lam"   -> Ret(Tick(st, "lam"), VLam(t.b, st.env))
      [] t.k = "app"   -> Comp(Push(Tick(st, "app"), FFunTerm(st.env, t.a)), t.f, st.env)
      [] t.k = "con"   -> Ret(Tick(st, "con"), VCon(t.c))
      [] t.k = "force" -> Comp(Push(Tick(st, "force"), FForce), t.b, st.env)
      [] t.k = "err"   -> Fail(st, "user")
      [] t.k = "bi"    -> Ret(Tick(st, "bi"), VBi(t.f, 0, <<>>))
      [] t.k = "constr" ->
            LET s1 == Tick(st, "constr") IN
            IF t.fs = <<>> THEN Ret(s1, VConstr(t.tag, <<>>))
            ELSE Comp(Push(s1, FConstr(st.env, t.tag, Tail(t.fs), <<>>)), t.fs[1], st.env)
      [] t.k = "case"  ->
            Comp(Push(Tick(st, "case"), FCases(st.env, t.bs)), t.s, st.env)

(***************************************************************************)
(* return                                                                   *)
(***************************************************************************)
Return(st) ==
    IF st.stack = <<>> THEN [st EXCEPT !.mode = "done"]
    ELSE
    LET fr == Top(st)
        s0 == Pop(st)
        v  == st.ctrl
    IN
    CASE fr.k = "fforce" -> ForceValue(s0, v)
      [] fr.k = "ffun"   -> Comp(Push(s0, FArg(v)), fr.t, fr.env)
      [] fr.k = "farg"   -> ApplyValue(s0, fr.v, v)
      [] fr.k = "fval"   -> ApplyValue(s0, v, fr.v)
      [] fr.k = "fconstr" ->
            LET done == Append(fr.done, v) IN
            IF fr.todo = <<>> THEN Ret(s0, VConstr(fr.tag, done))
            ELSE Comp(Push(s0, FConstr(fr.env, fr.tag, Tail(fr.todo), done)), fr.todo[1], fr.env)
      [] fr.k = "fcases" ->
            IF v.k = "vconstr" THEN CaseSelect(s0, fr, v.tag, v.fs)
            ELSE IF v.k = "vcon" /\ st.sem = "E" THEN
                LET r == CaseOfConstant(v.c) IN
                IF ~r.ok THEN Fail(s0, "structural")
                ELSE IF r.max >= 0 /\ Len(fr.bs) > r.max THEN Fail(s0, "structural")
                ELSE CaseSelect(s0, fr, r.tag, r.fields)
            ELSE Fail(s0, "structural")

Terminal(st) == st.mode \in {"done", "fail", "unknown"}

Step(st) ==
    IF st.mode = "compute" THEN Compute(st)
    ELSE IF st.mode = "return" THEN Return(st)
    ELSE st

\* K steps per TLA+ action (DESIGN.md section 5: linear, not quadratic, evaluation).
RECURSIVE RunK(_, _)
RunK(st, k) == IF k = 0 \/ Terminal(st) THEN st ELSE RunK(Step(st), k - 1)

(***************************************************************************)
(* Read-back of a value as a closed term ("discharge"): captured variables  *)
(* are substituted under EVERY term constructor.                            *)
(***************************************************************************)
RECURSIVE Discharge(_), Subst(_, _, _), SubstSeq(_, _, _), DischargeSeq(_), ApplyAll(_, _), ForceN(_, _)

ForceN(t, n) == IF n = 0 THEN t ELSE ForceN(Force(t), n - 1)
ApplyAll(t, args) == IF args = <<>> THEN t ELSE ApplyAll(App(t, Discharge(Head(args))), Tail(args))
DischargeSeq(vs) == [i \in 1..Len(vs) |-> Discharge(vs[i])]
SubstSeq(ts, env, d) == [i \in 1..Len(ts) |-> Subst(ts[i], env, d)]

Subst(t, env, d) ==
    CASE t.k = "var" ->
            IF t.i > d /\ (t.i - d) <= Len(env)
            THEN Discharge(env[Len(env) - (t.i - d) + 1])
            ELSE t
      [] t.k = "lam"    -> Lam(Subst(t.b, env, d + 1))
      [] t.k = "app"    -> App(Subst(t.f, env, d), Subst(t.a, env, d))
      [] t.k = "delay"  -> Delay(Subst(t.b, env, d))
      [] t.k = "force"  -> Force(Subst(t.b, env, d))
      [] t.k = "constr" -> Constr(t.tag, SubstSeq(t.fs, env, d))
      [] t.k = "case"   -> Case(Subst(t.s, env, d), SubstSeq(t.bs, env, d))
      [] OTHER -> t

Discharge(v) ==
    CASE v.k = "vcon"    -> Con(v.c)
      [] v.k = "vdelay"  -> Delay(Subst(v.b, v.env, 0))
      [] v.k = "vlam"    -> Lam(Subst(v.b, v.env, 1))
      [] v.k = "vbi"     -> ApplyAll(ForceN(Bi(v.f), v.forces), v.args)
      [] v.k = "vconstr" -> Constr(v.tag, DischargeSeq(v.fs))

(***************************************************************************)
(* Cost of a finished run under machine-cost parameters mc:                 *)
(*   mc = [startup |-> [cpu,mem], step |-> sequence of 9 [cpu,mem]]          *)
(***************************************************************************)
RECURSIVE SumSteps(_, _, _, _)
SumSteps(steps, mc, dim, i) ==
    IF i = 0 THEN 0 ELSE steps[i] * mc.step[i][dim] + SumSteps(steps, mc, dim, i - 1)

CostOf(st, mc) ==
    [cpu |-> mc.startup.cpu + SumSteps(st.steps, mc, "cpu", 9) + st.bcpu,
     mem |-> mc.startup.mem + SumSteps(st.steps, mc, "mem", 9) + st.bmem]

DefaultMachineCosts ==
    [startup |-> [cpu |-> 100, mem |-> 100],
     step |-> [i \in 1..9 |-> [cpu |-> 16000, mem |-> 100]]]

(***************************************************************************)
(* Outcome as the properties speak about it.                                *)
(***************************************************************************)
Outcome(st) ==
    CASE st.mode = "done" -> [o |-> "val", v |-> Discharge(st.ctrl)]
      [] st.mode = "fail" -> [o |-> "fail", c |-> st.why]
      [] st.mode = "unknown" -> [o |-> "unknown", c |-> st.why]
      [] OTHER -> [o |-> "running"]

(***************************************************************************)
(* Well-scopedness: every variable is bound (index between 1 and depth).    *)
(***************************************************************************)
RECURSIVE Closed(_, _), ClosedSeq(_, _)
ClosedSeq(ts, d) == \A i \in 1..Len(ts) : Closed(ts[i], d)
Closed(t, d) ==
    CASE t.k = "var"    -> t.i >= 1 /\ t.i <= d
      [] t.k = "lam"    -> Closed(t.b, d + 1)
      [] t.k = "app"    -> Closed(t.f, d) /\ Closed(t.a, d)
      [] t.k = "delay"  -> Closed(t.b, d)
      [] t.k = "force"  -> Closed(t.b, d)
      [] t.k = "constr" -> ClosedSeq(t.fs, d)
      [] t.k = "case"   -> Closed(t.s, d) /\ ClosedSeq(t.bs, d)
      [] OTHER -> TRUE

=============================================================================
