------------------------------ MODULE MC_Text -------------------------------
(***************************************************************************)
(* C15: the programs whose textual form is pinned by the specification:     *)
(* one per built-in function name, per constant type and type nesting, per  *)
(* string escape class, per Data constructor-tag range, per term            *)
(* constructor.  For each, TLC prints the term (JSON) and the               *)
(* specification's text (pieces); the harness gives the text to the real    *)
(* parser (which must return the term), and sends the term through the real *)
(* printer and back.                                                        *)
(***************************************************************************)
EXTENDS UplcText, Json

Var(i) == [k |-> "var", i |-> i]
Lam(b) == [k |-> "lam", b |-> b]
App(f, a) == [k |-> "app", f |-> f, a |-> a]
Delay(b) == [k |-> "delay", b |-> b]
Force(b) == [k |-> "force", b |-> b]
Con(c) == [k |-> "con", c |-> c]
Bi(f) == [k |-> "bi", f |-> f]
Err == [k |-> "err"]
Constr(t, fs) == [k |-> "constr", tag |-> t, fs |-> fs]
Case(s, bs) == [k |-> "case", s |-> s, bs |-> bs]

TInt == [t |-> "int"]
TBs == [t |-> "bs"]
TStr == [t |-> "str"]
TBool == [t |-> "bool"]
TUnit == [t |-> "unit"]
TData == [t |-> "data"]
TList(e) == [t |-> "list", e |-> e]
TPair(a, b) == [t |-> "pair", a |-> a, b |-> b]
MkInt(n) == [t |-> "int", v |-> n]
MkBs(b) == [t |-> "bs", v |-> b]
MkStr(s) == [t |-> "str", v |-> s]
MkBool(b) == [t |-> "bool", v |-> b]
MkUnit == [t |-> "unit"]
MkData(d) == [t |-> "data", v |-> d]
MkList(et, xs) == [t |-> "list", et |-> et, v |-> xs]
MkPair(ft, st, f, s) == [t |-> "pair", ft |-> ft, st |-> st, f |-> f, s |-> s]
DI(n) == [d |-> "I", v |-> n]
DB(b) == [d |-> "B", v |-> b]
DL(xs) == [d |-> "L", v |-> xs]
DM(kvs) == [d |-> "M", v |-> kvs]
DC(tag, fs) == [d |-> "C", tag |-> tag, fs |-> fs]

Builtins == [i \in 1..Len(BuiltinNames) |-> Bi(BuiltinNames[i])]

Strings == << <<>>, <<97>>, <<34>>, <<92>>, <<10>>, <<13>>, <<9>>, <<39>>, <<0>>, <<127>>, <<233>>, <<8232>>, <<128512>>,
              <<97, 34, 92, 110>>, <<92, 120, 52, 49>>, <<32, 45, 45, 32, 120>>, <<40, 41, 91, 93>>, <<233, 97, 128512, 34>>,
              <<1>>, <<27, 91>>, <<8203>>, <<65279, 97>>, <<97, 0, 98>> >>

Consts ==
    << MkInt(0), MkInt(1), MkInt(0 - 1), MkInt(2147483647), MkInt(0 - 2147483647),
       MkBs(<<>>), MkBs(<<0>>), MkBs(<<255, 1, 171>>),
       MkUnit, MkBool(TRUE), MkBool(FALSE) >>
    \o [i \in 1..Len(Strings) |-> MkStr(Strings[i])]
    \* the same strings NESTED in a list and in a pair (nested constants go through another printer)
    \o [i \in 1..Len(Strings) |-> MkList(TStr, <<MkStr(Strings[i])>>)]
    \o [i \in 1..Len(Strings) |-> MkPair(TInt, TStr, MkInt(1), MkStr(Strings[i]))]
    \o << MkData(DI(0)), MkData(DI(0 - 5)), MkData(DB(<<>>)), MkData(DB(<<1, 2>>)), MkData(DL(<<>>)), MkData(DL(<<DI(1), DB(<<>>)>>)),
          MkData(DM(<<>>)), MkData(DM(<<<<DI(1), DB(<<2>>)>>, <<DL(<<>>), DC(0, <<>>)>>>>)),
          MkData(DC(0, <<>>)), MkData(DC(6, <<DI(1)>>)), MkData(DC(7, <<>>)), MkData(DC(127, <<DI(1), DI(2)>>)), MkData(DC(128, <<>>)),
          MkData(DC(2147483647, <<DC(1, <<DL(<<DI(3)>>)>>)>>)),
          MkList(TInt, <<>>), MkList(TInt, <<MkInt(1), MkInt(0 - 2)>>), MkList(TBs, <<MkBs(<<>>), MkBs(<<9>>)>>),
          MkList(TStr, <<MkStr(<<97, 34>>), MkStr(<<>>)>>), MkList(TBool, <<MkBool(TRUE)>>), MkList(TUnit, <<MkUnit, MkUnit>>),
          MkList(TData, <<MkData(DI(1)), MkData(DC(1, <<>>))>>),
          MkList(TList(TInt), <<MkList(TInt, <<>>), MkList(TInt, <<MkInt(3)>>)>>),
          MkList(TPair(TInt, TBs), <<MkPair(TInt, TBs, MkInt(1), MkBs(<<1>>))>>),
          MkList(TPair(TData, TData), <<MkPair(TData, TData, MkData(DI(1)), MkData(DB(<<>>)))>>),
          MkPair(TInt, TBool, MkInt(4), MkBool(FALSE)),
          MkPair(TInt, TPair(TBool, TUnit), MkInt(4), MkPair(TBool, TUnit, MkBool(TRUE), MkUnit)),
          MkPair(TList(TInt), TData, MkList(TInt, <<MkInt(1)>>), MkData(DM(<<>>))),
          MkPair(TStr, TList(TPair(TInt, TInt)), MkStr(<<120>>), MkList(TPair(TInt, TInt), <<>>)) >>

I1 == Con(MkInt(1))
Terms ==
    << Lam(Var(1)), Lam(Lam(Var(2))), Lam(Lam(Var(1))), Lam(Lam(Lam(App(Var(3), App(Var(1), Var(2)))))),
       App(Lam(Var(1)), I1), App(App(Bi("addInteger"), I1), I1), Delay(I1), Force(Delay(Err)), Err,
       Force(Force(Bi("fstPair"))), Lam(Delay(Force(Var(1)))),
       Constr(0, <<>>), Constr(5, <<I1, Lam(Var(1))>>), Constr(2147483647, <<Err>>),
       Case(Constr(1, <<I1>>), <<Err, Lam(Var(1))>>), Case(I1, <<>>), Lam(Case(Var(1), <<Var(1), Constr(0, <<Var(1)>>)>>)),
       App(Lam(App(Var(1), Var(1))), Lam(App(Var(1), Var(1)))) >>

Cases == Builtins \o [i \in 1..Len(Consts) |-> Con(Consts[i])] \o Terms
         \o [i \in 1..Len(Consts) |-> Lam(App(Var(1), Con(Consts[i])))]

\* integers beyond a machine word: 1000001 .. 1000006 stand for 2^63, -2^63 - 1, 2^64, -2^64, 2^64 + 1, 2^127 (the harness substitutes
\* them in the term and in the text alike; TLC's integers are 32-bit). Text only: their flat / CBOR encodings are not computed.
Bigs == <<1000001, 1000002, 1000003, 1000004, 1000005, 1000006>>
BigConsts ==
    [i \in 1..Len(Bigs) |-> MkInt(Bigs[i])] \o [i \in 1..Len(Bigs) |-> MkData(DI(Bigs[i]))]
    \o << MkData(DC(1, <<DI(1000001), DL(<<DI(1000002)>>)>>)), MkData(DM(<<<<DI(1000003), DI(1000004)>>>>)),
          MkList(TData, <<MkData(DI(1000005))>>), MkPair(TData, TData, MkData(DI(1000006)), MkData(DI(1000002))),
          MkList(TInt, <<MkInt(1000001), MkInt(1000004)>>) >>
TextCases == Cases \o [i \in 1..Len(BigConsts) |-> Con(BigConsts[i])]

VARIABLES n
Init == n \in 1..Len(TextCases)
Next == UNCHANGED n
Spec == Init /\ [][Next]_n

\* the table has no duplicate names (the concrete syntax is a bijection onto the built-in functions)
NamesDistinct == \A i, j \in 1..Len(BuiltinNames) : BuiltinNames[i] = BuiltinNames[j] => i = j

Emit == PrintT(<<"REPLAY", ToJson([id |-> n, term |-> TextCases[n], v110 |-> PrintProgram(1, 1, 0, TextCases[n]),
                                   v100 |-> PrintProgram(1, 0, 0, TextCases[n])])>>)
=============================================================================
