---------------------------- MODULE MC_Blueprint ----------------------------
(***************************************************************************)
(* C18 (and the history part of C08): a parameterised validator group in a  *)
(* blueprint, under every history of tool operations:                       *)
(*   Apply(d)  - apply data d to the first remaining parameter; accepted    *)
(*               iff d has the shape of that parameter's type (Aiken.tla    *)
(*               FromData = the declared schema, C12); exactly one          *)
(*               parameter is consumed; a refused application changes       *)
(*               nothing;                                                   *)
(*   SaveLoad  - the blueprint is serialised and read back: nothing changes.*)
(* TLC explores every history up to H operations over a pool of conforming  *)
(* and near-miss data and prints it with the expected outcome of every step *)
(* and the values the remaining code must be applied to.                    *)
(***************************************************************************)
EXTENDS Aiken, Json

CONSTANTS SigName, H

TInt == [t |-> "Int"]
TBool == [t |-> "Bool"]
TBytes == [t |-> "ByteArray"]
Adt(n, as) == [t |-> "adt", n |-> n, as |-> as]
Types == [
    Option |-> [ps |-> <<"a">>, cs |-> <<[n |-> "Some", fs |-> <<[t |-> "var", x |-> "a"]>>], [n |-> "None", fs |-> <<>>]>>],
    Color  |-> [ps |-> <<>>, cs |-> <<[n |-> "Red", fs |-> <<>>], [n |-> "Green", fs |-> <<>>], [n |-> "Blue", fs |-> <<>>]>>],
    Point  |-> [ps |-> <<>>, cs |-> <<[n |-> "Point", fs |-> <<TInt, TInt>>]>>]]

Sig ==
    CASE SigName = "int"            -> <<TInt>>
      [] SigName = "int_point"      -> <<TInt, Adt("Point", <<>>)>>
      [] SigName = "color_opt_list" -> <<Adt("Color", <<>>), Adt("Option", <<TInt>>), [t |-> "List", e |-> TInt]>>
      [] SigName = "bytes_tuple"    -> <<TBytes, [t |-> "Tuple", es |-> <<TInt, TBool>>]>>
      [] SigName = "point_point"    -> <<Adt("Point", <<>>), Adt("Point", <<>>)>>

\* what the handlers compute from the parameters p1, p2, ... (Aiken.tla expressions; the harness renders them)
V(x) == [k |-> "var", x |-> x]
N(n) == [k |-> "int", n |-> n]
Bin(op, l, r) == [k |-> "binop", op |-> op, l |-> l, r |-> r]
Fld(e, i) == [k |-> "field", e |-> e, i |-> i]
Con(ty, i, args) == [k |-> "con", ty |-> ty, i |-> i, args |-> args]
Bodies ==
    CASE SigName = "int" ->
            [mint |-> Bin("==", V("p1"), N(2)), spend |-> Bin("<", V("p1"), N(0)), else |-> Bin("==", V("p1"), N(2))]
      [] SigName = "int_point" ->
            [mint |-> Bin("==", Bin("+", V("p1"), Fld(V("p2"), 1)), N(3)),
             spend |-> Bin("==", Bin("+", V("p1"), Fld(V("p2"), 2)), N(3)),
             else |-> Bin("<", Fld(V("p2"), 1), V("p1"))]
      [] SigName = "color_opt_list" ->
            [mint |-> Bin("||", Bin("==", V("p1"), Con("Color", 1, <<>>)), Bin("==", V("p2"), Con("Option", 1, <<>>))),
             spend |-> Bin("==", V("p3"), [k |-> "list", es |-> <<N(1), N(2)>>]),
             else |-> Bin("&&", Bin("==", V("p1"), Con("Color", 0, <<>>)), Bin("==", V("p2"), Con("Option", 0, <<N(1)>>)))]
      [] SigName = "bytes_tuple" ->
            [mint |-> Bin("==", V("p1"), [k |-> "bytes", bs |-> <<1, 2>>]),
             spend |-> [k |-> "tupidx", e |-> V("p2"), i |-> 2],
             else |-> Bin("==", [k |-> "tupidx", e |-> V("p2"), i |-> 1], N(1))]
      [] SigName = "point_point" ->
            [mint |-> Bin("==", V("p1"), V("p2")),
             spend |-> Bin("<", Fld(V("p1"), 1), Fld(V("p2"), 2)),
             else |-> Bin("!=", V("p1"), V("p2"))]

M0 == [types |-> Types, fns |-> [x \in {} |-> 0]]
\* the verdict of a handler once every parameter has been applied: TRUE / FALSE ("none" while parameters remain)
Verdict(h, ds) ==
    IF Len(ds) # Len(Sig) THEN "none"
    ELSE LET env == [x \in {"p1", "p2", "p3"} |->
                        LET j == IF x = "p1" THEN 1 ELSE IF x = "p2" THEN 2 ELSE 3 IN
                        IF j <= Len(Sig) THEN FromData(Types, Sig[j], ds[j]).v ELSE VVoid]
             r == Eval(M0, env, Bodies[h], 5)
         IN  IF r.r = "ok" THEN (IF r.v.b THEN "true" ELSE "false") ELSE r.r

\* conforming values of the types above and their near misses (a sequence: never a set of Data)
Pool == <<DI(2), DI(0 - 1), DB(<<1, 2>>), DC(0, <<>>), DC(1, <<>>), DC(2, <<>>), DC(3, <<>>), DC(0, <<DI(1), DI(2)>>),
          DC(0, <<DI(1)>>), DC(0, <<DI(1), DI(2), DI(3)>>), DC(1, <<DI(1), DI(2)>>), DC(0, <<DI(5)>>), DC(0, <<DB(<<>>)>>),
          DL(<<>>), DL(<<DI(1), DI(2)>>), DL(<<DI(1), DC(1, <<>>)>>), DL(<<DI(1), DC(0, <<>>), DI(0)>>), DM(<<>>), DL(<<DB(<<>>)>>)>>

ASSUME PrintT(<<"VALIDATOR", ToJson([sig |-> SigName, types |-> Sig, bodies |-> Bodies])>>)

VARIABLES k,        \* number of parameters consumed so far
          hist      \* the operations so far, with their expected outcome
vars == <<k, hist>>

Init == k = 0 /\ hist = <<>>

ApplyParam(i) ==
    IF k >= Len(Sig)
    THEN /\ hist' = Append(hist, [op |-> "apply", d |-> Pool[i], ok |-> FALSE, left |-> 0, why |-> "no parameter left"])
         /\ UNCHANGED k
    ELSE IF FromData(Types, Sig[k + 1], Pool[i]).ok
    THEN /\ k' = k + 1
         /\ hist' = Append(hist, [op |-> "apply", d |-> Pool[i], ok |-> TRUE, left |-> Len(Sig) - k - 1, why |-> ""])
    ELSE /\ hist' = Append(hist, [op |-> "apply", d |-> Pool[i], ok |-> FALSE, left |-> Len(Sig) - k, why |-> "does not conform"])
         /\ UNCHANGED k

SaveLoad ==
    /\ hist' = Append(hist, [op |-> "saveload", ok |-> TRUE, left |-> Len(Sig) - k])
    /\ UNCHANGED k

Next == Len(hist) < H /\ (SaveLoad \/ \E i \in 1..Len(Pool) : ApplyParam(i))
Spec == Init /\ [][Next]_vars

\* exactly the accepted applications consumed a parameter, in order
Accepted == SelectSeq(hist, LAMBDA e : e.op = "apply" /\ e.ok)
ConsumedInOrder == k = Len(Accepted) /\ k <= Len(Sig)
                   /\ \A j \in 1..k : FromData(Types, Sig[j], Accepted[j].d).ok
\* a refused application and a save/load leave the number of remaining parameters unchanged
RefusalChangesNothing ==
    \A j \in 1..Len(hist) : (~hist[j].ok \/ hist[j].op = "saveload") =>
        hist[j].left = (IF j = 1 THEN Len(Sig) ELSE hist[j - 1].left)

Emit == Len(hist) = H => PrintT(<<"REPLAY", ToJson([sig |-> SigName, hist |-> hist,
                                     applied |-> [j \in 1..Len(Accepted) |-> Accepted[j].d],
                                     verdicts |-> LET ds == [j \in 1..Len(Accepted) |-> Accepted[j].d] IN
                                                  [mint |-> Verdict("mint", ds), spend |-> Verdict("spend", ds), else |-> Verdict("else", ds)]])>>)
=============================================================================
