SPECIFICATION Spec
CONSTANTS
  MaxR = 2
  Langs = {1}
  Kinds = {"cheap", "costly", "picky", "fail"}
  ScriptLocs = {"witness", "missing"}
  DatumKinds = {"witness", "missing", "none"}
INVARIANTS Accounting FailsIff Emit
CHECK_DEADLOCK FALSE
