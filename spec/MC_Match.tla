------------------------------ MODULE MC_Match ------------------------------
(***************************************************************************)
(* C07: pattern matching is exhaustive when accepted and first-match when   *)
(* run.  For a scrutinee type (constant Ty) TLC enumerates EVERY clause     *)
(* list of up to K clauses over a pattern grammar of depth <= 2 and decides *)
(* from the SEMANTIC definition (Aiken.tla: Match over the value universe,   *)
(* which is a complete abstraction for these patterns: every literal used    *)
(* by a pattern plus one fresh literal, lists up to one element longer than  *)
(* the longest list pattern):                                               *)
(*   - which clause is the first that no value can reach (redundant),        *)
(*   - whether some value is matched by no clause (not exhaustive),          *)
(*   - for every value: the first matching clause and the values bound, in   *)
(*     left-to-right order of the pattern's variables.                       *)
(* One REPLAY line per clause list; the harness asks the real checker for    *)
(* its verdict and, when it accepts, runs the compiled `when` on every       *)
(* value of the universe.                                                    *)
(***************************************************************************)
EXTENDS Aiken, Json

CONSTANTS Ty, K

TInt == [t |-> "Int"]
TBool == [t |-> "Bool"]
Adt(n, as) == [t |-> "adt", n |-> n, as |-> as]

Types == [
    Option |-> [ps |-> <<"a">>, cs |-> <<[n |-> "Some", fs |-> <<[t |-> "var", x |-> "a"]>>], [n |-> "None", fs |-> <<>>]>>],
    Color  |-> [ps |-> <<>>, cs |-> <<[n |-> "Red", fs |-> <<>>], [n |-> "Green", fs |-> <<>>], [n |-> "Blue", fs |-> <<>>]>>],
    Point  |-> [ps |-> <<>>, cs |-> <<[n |-> "Point", fs |-> <<TInt, TInt>>]>>],
    Shape  |-> [ps |-> <<>>, cs |-> <<[n |-> "Circle", fs |-> <<TInt>>], [n |-> "Rect", fs |-> <<TInt, TInt>>], [n |-> "Empty", fs |-> <<>>]>>]]

TypeOf ==
    CASE Ty = "Bool"      -> TBool
      [] Ty \in {"Int", "IntBig"} -> TInt
      [] Ty = "Color"     -> Adt("Color", <<>>)
      [] Ty = "OptInt"    -> Adt("Option", <<TInt>>)
      [] Ty = "OptColor"  -> Adt("Option", <<Adt("Color", <<>>)>>)
      [] Ty = "Shape"     -> Adt("Shape", <<>>)
      [] Ty = "Point"     -> Adt("Point", <<>>)
      [] Ty \in {"ListInt", "ListIntSmall"} -> [t |-> "List", e |-> TInt]
      [] Ty = "TupIntBool" -> [t |-> "Tuple", es |-> <<TInt, TBool>>]
      [] Ty = "TupListSmall" -> [t |-> "Tuple", es |-> <<[t |-> "List", e |-> TInt], TInt>>]
      [] Ty = "TupColorOpt" -> [t |-> "Tuple", es |-> <<Adt("Color", <<>>), Adt("Option", <<TInt>>)>>]
      [] Ty = "PairIntBool" -> [t |-> "Pair", a |-> TInt, b |-> TBool]

Discard == [p |-> "discard"]
PVar == [p |-> "var", x |-> "v"]       \* the renderer gives every variable a distinct name

\* all sequences over S of length n
RECURSIVE SeqsN(_, _)
SeqsN(S, n) == IF n = 0 THEN {<<>>} ELSE {<<a>> \o r : a \in S, r \in SeqsN(S, n - 1)}

RECURSIVE Pats(_, _)
Pats(ty, d) ==
    {Discard, PVar} \cup
    (IF d = 0 THEN {} ELSE
     CASE ty.t = "Int"  -> {[p |-> "int", n |-> 0], [p |-> "int", n |-> 1]}
       [] ty.t = "Bool" -> {[p |-> "bool", b |-> TRUE], [p |-> "bool", b |-> FALSE]}
       [] ty.t = "adt"  ->
            UNION {LET fts == FieldTypes(Types, ty, ci) IN
                   IF Len(fts) = 0 THEN {[p |-> "con", ty |-> ty.n, i |-> ci - 1, args |-> <<>>]}
                   ELSE IF Len(fts) = 1
                   THEN {[p |-> "con", ty |-> ty.n, i |-> ci - 1, args |-> <<a>>] : a \in Pats(fts[1], d - 1)}
                   ELSE {[p |-> "con", ty |-> ty.n, i |-> ci - 1, args |-> <<a, b>>] :
                            a \in Pats(fts[1], d - 1), b \in Pats(fts[2], d - 1)} :
                   ci \in 1..Len(Types[ty.n].cs)}
       [] ty.t = "List" ->
            {[p |-> "list", ps |-> <<>>, tail |-> "none"]}
            \cup UNION {{[p |-> "list", ps |-> ps, tail |-> tl] : ps \in SeqsN(Pats(ty.e, d - 1), n), tl \in {"none", "discard"}} : n \in 1..2}
            \cup {[p |-> "list", ps |-> <<q>>, tail |-> "var", x |-> "v"] : q \in Pats(ty.e, d - 1)}
       [] ty.t = "Tuple" ->
            {[p |-> "tuple", ps |-> <<a, b>>] : a \in Pats(ty.es[1], d - 1), b \in Pats(ty.es[2], d - 1)}
       [] ty.t = "Pair" ->
            {[p |-> "pair", a |-> a, b |-> b] : a \in Pats(ty.a, d - 1), b \in Pats(ty.b, d - 1)})

\* the value universe (sequences, enumerated by index)
RECURSIVE UVals(_, _)
Cross2(A, B) == [i \in 1..(Len(A) * Len(B)) |-> <<A[((i - 1) \div Len(B)) + 1], B[((i - 1) % Len(B)) + 1]>>]
RECURSIVE Concat(_)
Concat(ss) == IF ss = <<>> THEN <<>> ELSE ss[1] \o Concat(Tail(ss))
UVals(ty, d) ==
    CASE ty.t = "Int"  -> IF Ty = "IntBig" THEN <<VInt(0), VInt(1000001), VInt(1000002), VInt(99)>> ELSE <<VInt(0), VInt(1), VInt(99)>>
      [] ty.t = "Bool" -> <<VBool(TRUE), VBool(FALSE)>>
      [] ty.t = "adt"  ->
            Concat([ci \in 1..Len(Types[ty.n].cs) |->
                LET fts == FieldTypes(Types, ty, ci) IN
                IF Len(fts) = 0 THEN <<VCon(ty.n, ci - 1, <<>>)>>
                ELSE IF Len(fts) = 1 THEN LET A == UVals(fts[1], d - 1) IN [i \in 1..Len(A) |-> VCon(ty.n, ci - 1, <<A[i]>>)]
                ELSE LET X == Cross2(UVals(fts[1], d - 1), UVals(fts[2], d - 1)) IN
                     [i \in 1..Len(X) |-> VCon(ty.n, ci - 1, X[i])]])
      [] ty.t = "List" ->
            LET A == UVals(ty.e, d - 1)
                X2 == Cross2(A, A)
            IN  <<VList(<<>>)>> \o [i \in 1..Len(A) |-> VList(<<A[i]>>)] \o [i \in 1..Len(X2) |-> VList(X2[i])]
                \o [i \in 1..Len(X2) |-> VList(X2[i] \o <<A[1]>>)]
      [] ty.t = "Tuple" -> LET X == Cross2(UVals(ty.es[1], d - 1), UVals(ty.es[2], d - 1)) IN [i \in 1..Len(X) |-> VTuple(X[i])]
      [] ty.t = "Pair" -> LET X == Cross2(UVals(ty.a, d - 1), UVals(ty.b, d - 1)) IN [i \in 1..Len(X) |-> VPair(X[i][1], X[i][2])]

Universe == UVals(TypeOf, 3)

\* values bound by a pattern, in left-to-right order of its variables (Match's bindings carry names;
\* here the order is what the harness compares)
RECURSIVE Bound(_, _, _), BoundSeq(_, _, _)
BoundSeq(ps, vs, tys) == IF ps = <<>> THEN <<>> ELSE Bound(ps[1], vs[1], tys[1]) \o BoundSeq(Tail(ps), Tail(vs), Tail(tys))
Bound(p, val, ty) ==      \* as Data, so that the compiled code can hand them back
    CASE p.p = "var"   -> <<ToData(Types, ty, val)>>
      [] p.p = "con"   -> BoundSeq(p.args, val.fs, FieldTypes(Types, ty, p.i + 1))
      [] p.p = "tuple" -> BoundSeq(p.ps, val.xs, ty.es)
      [] p.p = "pair"  -> Bound(p.a, val.a, ty.a) \o Bound(p.b, val.b, ty.b)
      [] p.p = "list"  -> BoundSeq(p.ps, SubSeq(val.xs, 1, Len(p.ps)), [i \in 1..Len(p.ps) |-> ty.e])
                          \o (IF p.tail = "var"
                              THEN <<ToData(Types, ty, VList(SubSeq(val.xs, Len(p.ps) + 1, Len(val.xs))))>> ELSE <<>>)
      [] OTHER -> <<>>

ASSUME PrintT(<<"UNIVERSE", ToJson([ty |-> Ty, vals |-> [j \in 1..Len(Universe) |-> ToData(Types, TypeOf, Universe[j])]])>>)

VARIABLES cl      \* the clause list: a sequence of patterns
\* "ListIntSmall": the same lists with element patterns restricted to `_` and `1`, so that 3 clauses stay enumerable
SmallListPats ==
    {Discard, PVar, [p |-> "list", ps |-> <<>>, tail |-> "none"]}
    \cup UNION {{[p |-> "list", ps |-> ps, tail |-> tl] : ps \in SeqsN({Discard, [p |-> "int", n |-> 1]}, n), tl \in {"none", "discard"}} : n \in 1..2}
    \cup {[p |-> "list", ps |-> <<PVar>>, tail |-> tl] : tl \in {"none", "discard"}}
\* "TupListSmall": (List<Int>, Int) - a list column beside a refutable column, so that clauses that are a wildcard in the list column
\* sit between list patterns (the decision tree must carry them into every list case it creates)
TupListPats ==
    {Discard} \cup
    {[p |-> "tuple", ps |-> <<a, b>>] :
        a \in {Discard, [p |-> "list", ps |-> <<>>, tail |-> "none"], [p |-> "list", ps |-> <<[p |-> "int", n |-> 1]>>, tail |-> "discard"],
               [p |-> "list", ps |-> <<Discard, Discard>>, tail |-> "none"]},
        b \in {Discard, [p |-> "int", n |-> 1]}}
\* "IntBig": integer literals far beyond a machine word; 1000001 and 1000002 stand for two such literals (the harness writes them
\* as 2^70 * 720720 + 1 and + 2): matching only needs them to be different from each other and from 0
BigIntPats == {Discard, PVar, [p |-> "int", n |-> 0], [p |-> "int", n |-> 1000001], [p |-> "int", n |-> 1000002]}
PatSet == IF Ty = "IntBig" THEN BigIntPats ELSE IF Ty = "ListIntSmall" THEN SmallListPats ELSE IF Ty = "TupListSmall" THEN TupListPats ELSE Pats(TypeOf, 2)
Init == \E n \in 1..K : cl \in SeqsN(PatSet, n)
Next == UNCHANGED cl
Spec == Init /\ [][Next]_cl

First(val) == FirstMatch([i \in 1..Len(cl) |-> [p |-> cl[i]]], val, 1)
Reached(i) == \E j \in 1..Len(Universe) : First(Universe[j]) = i
Redundant == {i \in 1..Len(cl) : ~Reached(i)}
Uncovered == {j \in 1..Len(Universe) : First(Universe[j]) = 0}

\* sanity of the specification itself: matching is deterministic and a matched value's clause really matches
Sane == \A j \in 1..Len(Universe) : LET i == First(Universe[j]) IN
            i # 0 => (Match(cl[i], Universe[j]).m /\ \A h \in 1..(i - 1) : ~Match(cl[h], Universe[j]).m)

Emit ==
    PrintT(<<"REPLAY", ToJson([ty |-> Ty, cl |-> cl,
        redundant |-> IF Redundant = {} THEN 0 ELSE CHOOSE i \in Redundant : \A h \in Redundant : i <= h,
        exhaustive |-> Uncovered = {},
        runs |-> IF Redundant = {} /\ Uncovered = {}
                 THEN [j \in 1..Len(Universe) |->
                        [i |-> First(Universe[j]),
                         b |-> Bound(cl[First(Universe[j])], Universe[j], TypeOf)]]
                 ELSE <<>>,
        uncovered |-> [j \in 1..Len(Universe) |-> First(Universe[j]) = 0]])>>)
=============================================================================
