----------------------------- MODULE Obs_Schema -----------------------------
(***************************************************************************)
(* C12: blueprint schemas describe exactly what validators accept.          *)
(*                                                                         *)
(* Three independent statements are related, per (type T, data d):          *)
(*   ConformsS  - CIP-57 semantics of the PUBLISHED schema (as found in the  *)
(*                blueprint, $ref-s followed through its definitions);       *)
(*   FromData   - what `expect _: T = d` accepts according to the source     *)
(*                semantics (Aiken.tla);                                     *)
(*   SchemaFor  - the published schema has the shape the type prescribes.    *)
(* and two observations of the real code: Parameter::validate and the        *)
(* compiled `expect`.  Each ndjson event carries all of it; the event is     *)
(* accepted iff   validate = ConformsS = FromData = expect   and SchemaFor.   *)
(***************************************************************************)
EXTENDS Aiken, Json, IOUtils

Rec == ndJsonDeserialize(IOEnv.TRACE)
Fuel == 8

Resolve(defs, s) == IF s.s = "ref" THEN defs[s.n] ELSE s

(* CIP-57 conformance of data d to schema s *)
RECURSIVE ConformsS(_, _, _, _), ConformsAll(_, _, _, _), ConformsEach(_, _, _, _), ConformsAlt(_, _, _, _)
ConformsEach(defs, s, ds, fuel) == \A i \in 1..Len(ds) : ConformsS(defs, s, ds[i], fuel)
ConformsAll(defs, ss, ds, fuel) == Len(ss) = Len(ds) /\ \A i \in 1..Len(ds) : ConformsS(defs, ss[i], ds[i], fuel)
ConformsAlt(defs, alt, d, fuel) == d.d = "C" /\ d.tag = alt.index /\ ConformsAll(defs, alt.fields, d.fs, fuel)
ConformsS(defs, s0, d, fuel) ==
    IF fuel = 0 THEN TRUE
    ELSE LET s == Resolve(defs, s0) IN
    CASE s.s = "any"   -> TRUE
      [] s.s = "int"   -> d.d = "I"
      [] s.s = "bytes" -> d.d = "B"
      [] s.s = "string" -> d.d = "B" /\ IsAscii(d.v)        \* text travels as its UTF-8 bytes (ASCII only in the universes used)
      [] s.s = "list"  -> d.d = "L" /\ ConformsEach(defs, s.item, d.v, fuel - 1)
      [] s.s = "tuple" -> d.d = "L" /\ ConformsAll(defs, s.items, d.v, fuel - 1)
      [] s.s = "map"   -> d.d = "M" /\ \A i \in 1..Len(d.v) :
                              ConformsS(defs, s.k, d.v[i][1], fuel - 1) /\ ConformsS(defs, s.v, d.v[i][2], fuel - 1)
      [] s.s = "anyof" -> \E i \in 1..Len(s.alts) : ConformsAlt(defs, s.alts[i], d, fuel - 1)
      [] OTHER -> FALSE

(* the published schema has the shape the type prescribes (names and titles ignored) *)
RECURSIVE SchemaFor(_, _, _, _, _), SchemaForAll(_, _, _, _, _)
SchemaForAll(defs, ss, types, tys, fuel) ==
    Len(ss) = Len(tys) /\ \A i \in 1..Len(tys) : SchemaFor(defs, ss[i], types, tys[i], fuel)
SchemaFor(defs, s0, types, ty, fuel) ==
    IF fuel = 0 THEN TRUE
    ELSE LET s == Resolve(defs, s0) IN
    CASE ty.t = "Int"       -> s.s = "int"
      [] ty.t = "ByteArray" -> s.s = "bytes"
      [] ty.t = "String"    -> s.s = "bytes"           \* text is published as its UTF-8 bytes
      [] ty.t = "Data"      -> s.s = "any"
      [] ty.t = "Bool"      -> s.s = "anyof" /\ Len(s.alts) = 2 /\ s.alts[1].index = 0 /\ s.alts[2].index = 1
                               /\ s.alts[1].fields = <<>> /\ s.alts[2].fields = <<>>
      [] ty.t = "Void"      -> s.s = "anyof" /\ Len(s.alts) = 1 /\ s.alts[1].index = 0 /\ s.alts[1].fields = <<>>
      [] ty.t = "List"      ->
            IF ty.e.t = "Pair"
            THEN s.s = "map" /\ SchemaFor(defs, s.k, types, ty.e.a, fuel - 1) /\ SchemaFor(defs, s.v, types, ty.e.b, fuel - 1)
            ELSE s.s = "list" /\ SchemaFor(defs, s.item, types, ty.e, fuel - 1)
      [] ty.t = "Tuple"     -> s.s = "tuple" /\ SchemaForAll(defs, s.items, types, ty.es, fuel - 1)
      [] ty.t = "Pair"      -> s.s = "tuple" /\ SchemaForAll(defs, s.items, types, <<ty.a, ty.b>>, fuel - 1)
      [] ty.t = "adt"       ->
            LET def == types[ty.n] IN
            IF ListEnc(def) THEN s.s = "tuple" /\ SchemaForAll(defs, s.items, types, FieldTypes(types, ty, 1), fuel - 1)
            ELSE
            /\ s.s = "anyof" /\ Len(s.alts) = Len(def.cs)
            /\ \A ci \in 1..Len(def.cs) :
                  /\ s.alts[ci].index = TagOf(def, ci)
                  /\ SchemaForAll(defs, s.alts[ci].fields, types, FieldTypes(types, ty, ci), fuel - 1)

VARIABLES l, bad, okc
vars == <<l, bad, okc>>

Why(e) ==
    LET conf == ConformsS(e.defs, e.root, e.d, Fuel)
        fd   == FromData(e.types, e.ty, e.d).ok
    IN
    IF ~SchemaFor(e.defs, e.root, e.types, e.ty, Fuel) THEN "the published schema does not have the shape of the type"
    ELSE IF conf /\ ~fd THEN "the schema accepts this data but the type's conversion rejects it (specification level)"
    ELSE IF ~conf /\ fd THEN "the type's conversion accepts this data but the schema forbids it (specification level)"
    ELSE IF (e.validate = "ok") # conf THEN
        (IF conf THEN "Parameter::validate rejects data that conforms to the published schema"
         ELSE "Parameter::validate accepts data that does not conform to the published schema")
    ELSE IF (e.expect = "ok") # fd THEN
        (IF fd THEN "the compiled expect rejects data of the type" ELSE "the compiled expect accepts data that is not of the type")
    ELSE "ok"

Init == l = 1 /\ bad = <<>> /\ okc = 0
Judge ==
    /\ l <= Len(Rec)
    /\ LET w == Why(Rec[l]) IN
        /\ bad' = IF w # "ok" THEN Append(bad, <<l, w>>) ELSE bad
        /\ okc' = IF w = "ok" THEN okc + 1 ELSE okc
    /\ l' = l + 1
Finish ==
    /\ l = Len(Rec) + 1
    /\ PrintT(<<"OBSRESULT", ToJson([n |-> Len(Rec), ok |-> okc, bad |-> bad, skipped |-> <<>>])>>)
    /\ l' = l + 1
    /\ UNCHANGED <<bad, okc>>
Next == Judge \/ Finish
Spec == Init /\ [][Next]_vars
=============================================================================
