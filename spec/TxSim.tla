-------------------------------- MODULE TxSim -------------------------------
(***************************************************************************)
(* C19: phase-two evaluation of a transaction, shaped like                  *)
(* eval_phase_two_with_override_and_optional_protocol (crates/uplc/src/tx.rs)*)
(*   - the redeemers are visited in the transaction's own order;            *)
(*   - for each, the script (and for a spent output its datum) is looked up *)
(*     by hash in what the witnesses and the resolved inputs provide;       *)
(*   - the script runs against the budget LEFT by the previous redeemers;   *)
(*   - the first failure ends the simulation, otherwise every redeemer is   *)
(*     reported with the units its script consumed.                         *)
(* A redeemer is  [purpose, kind, lang, script, datum]  with                 *)
(*   kind   : "cheap" | "costly" | "picky" | "fail"   (what the script does) *)
(*   script : "witness" | "reference" | "inputref" | "missing"               *)
(*            (where its code is: in the witness set, on the output of a      *)
(*             reference input, on the output of an input that is SPENT)      *)
(*   datum  : "inline" | "witness" | "missing" | "none"                      *)
(* Costs are abstract; only their order relations matter (the harness maps   *)
(* budget kinds to measured costs).                                          *)
(***************************************************************************)
EXTENDS Integers, Sequences, FiniteSets, TLC

Cost(kind) ==
    CASE kind = "cheap"  -> [cpu |-> 2, mem |-> 1]
      [] kind = "costly" -> [cpu |-> 7, mem |-> 5]
      [] kind = "picky"  -> [cpu |-> 3, mem |-> 2]
      [] OTHER           -> [cpu |-> 0, mem |-> 0]

\* does a spent output need a datum?  (V1 / V2: always; V3: optional)
NeedsDatum(r) == r.purpose = "spend" /\ r.lang \in {1, 2}
Missing(r) == r.script = "missing" \/ (r.purpose = "spend" /\ r.datum = "missing") \/ (NeedsDatum(r) /\ r.datum = "none")

\* what a redeemer can consume: nothing when its script never runs
Eff(r) == IF Missing(r) THEN [cpu |-> 0, mem |-> 0] ELSE Cost(r.kind)

RECURSIVE SumCost(_, _)
SumCost(rs, n) == IF n = 0 THEN [cpu |-> 0, mem |-> 0]
                  ELSE LET s == SumCost(rs, n - 1) c == Eff(rs[n]) IN [cpu |-> s.cpu + c.cpu, mem |-> s.mem + c.mem]

\* the initial budget, by kind
Budget(rs, b) ==
    LET t == SumCost(rs, Len(rs)) IN
    CASE b = "ample"     -> [cpu |-> t.cpu + 100, mem |-> t.mem + 100]
      [] b = "exact"     -> t
      [] b = "short_cpu" -> [cpu |-> t.cpu - 1, mem |-> t.mem]
      [] b = "short_mem" -> [cpu |-> t.cpu, mem |-> t.mem - 1]
      [] b = "first"     -> SumCost(rs, 1)          \* exactly what the first redeemer needs

VARIABLES rs, bk, i, rem, out
vars == <<rs, bk, i, rem, out>>

Step ==
    /\ out.st = "running"
    /\ i <= Len(rs)
    /\ LET r == rs[i] c == Cost(r.kind) IN
       IF Missing(r) THEN
            /\ out' = [st |-> "fail", at |-> i, why |-> "missing", units |-> out.units]
            /\ UNCHANGED <<i, rem>>
       ELSE IF r.kind = "fail" THEN
            /\ out' = [st |-> "fail", at |-> i, why |-> "script", units |-> out.units]
            /\ UNCHANGED <<i, rem>>
       ELSE IF c.cpu > rem.cpu \/ c.mem > rem.mem THEN
            /\ out' = [st |-> "fail", at |-> i, why |-> "budget", units |-> out.units]
            /\ UNCHANGED <<i, rem>>
       ELSE
            /\ rem' = [cpu |-> rem.cpu - c.cpu, mem |-> rem.mem - c.mem]
            /\ i' = i + 1
            /\ out' = [out EXCEPT !.units = Append(@, c), !.st = IF i = Len(rs) THEN "ok" ELSE "running"]
    /\ UNCHANGED <<rs, bk>>

(***************************************************************************)
(* What a user relies on, as invariants of the loop.                        *)
(***************************************************************************)
\* reported units are the scripts' costs, and the budget left is what was not spent
Accounting ==
    /\ Len(out.units) = i - 1
    /\ \A j \in 1..Len(out.units) : out.units[j] = Eff(rs[j])
    /\ LET s == SumCost(rs, i - 1) b == Budget(rs, bk) IN rem = [cpu |-> b.cpu - s.cpu, mem |-> b.mem - s.mem]
    /\ rem.cpu >= 0 /\ rem.mem >= 0

\* the simulation fails iff something is missing, a script fails, or the scripts up to some point need more than the budget
Bad(j) == LET s == SumCost(rs, j) b == Budget(rs, bk) IN
          Missing(rs[j]) \/ rs[j].kind = "fail" \/ s.cpu > b.cpu \/ s.mem > b.mem
FailsIff ==
    /\ out.st = "fail" => Bad(out.at) /\ \A j \in 1..(out.at - 1) : ~Bad(j)
    /\ out.st = "ok" => \A j \in 1..Len(rs) : ~Bad(j)
=============================================================================
