------------------------------- MODULE Aiken --------------------------------
(***************************************************************************)
(* Source-level meaning of (a core of) the Aiken language: values, types,   *)
(* the Data encoding of every serialisable type, pattern matching, and a    *)
(* definitional, strict, first-match interpreter Eval.  Eval has NO tracing *)
(* parameter and NO notion of lowering / hoisting / monomorphisation, so    *)
(* "observed outcome = Eval" is simultaneously C01 (compiled code computes  *)
(* what the source means), C06 (a checked program only fails the way the    *)
(* source asks for) and C14 (trace settings decide nothing).                 *)
(*                                                                         *)
(* Everything is JSON-shaped (records with a discriminating field) so that  *)
(* the same terms travel between TLC, python (source renderer) and the Rust *)
(* harness.  Modules are  [types, fns]  :                                   *)
(*   types : name |-> [ps |-> <<type params>>, cs |-> <<[n, fs]>>]           *)
(*   fns   : name |-> [ps |-> <<param names>>, body |-> expr]                *)
(***************************************************************************)
EXTENDS Integers, Sequences, FiniteSets, TLC

(***************************************************************************)
(* Values                                                                   *)
(***************************************************************************)
VInt(n)    == [v |-> "int", n |-> n]
VBool(b)   == [v |-> "bool", b |-> b]
VBytes(bs) == [v |-> "bytes", bs |-> bs]
\* strings are kept to ASCII here: the sequence of code points is the sequence of UTF-8 bytes
VStr(cs)   == [v |-> "str", cs |-> cs]
\* a point of the BLS12-381 group G1 / G2, given as the multiple k of the group's generator. The groups have prime order r ~ 2^255, so
\* for the small k the programs reach, "the same multiple" is "the same point" and the group law is integer arithmetic on k.
VPoint(g, k) == [v |-> "point", g |-> g, k |-> k]
IsAscii(bs) == \A i \in 1..Len(bs) : bs[i] < 128
\* well-formed UTF-8 (shortest forms only, no surrogates, nothing beyond U+10FFFF): what `decodeUtf8` accepts. A String is kept as its bytes.
IsCont8(b) == b >= 128 /\ b < 192
RECURSIVE ValidUtf8(_)
ValidUtf8(bs) ==
    IF bs = <<>> THEN TRUE
    ELSE LET b == bs[1] n == Len(bs) IN
    IF b < 128 THEN ValidUtf8(Tail(bs))
    ELSE IF b >= 194 /\ b < 224 THEN n >= 2 /\ IsCont8(bs[2]) /\ ValidUtf8(SubSeq(bs, 3, n))
    ELSE IF b >= 224 /\ b < 240 THEN
         /\ n >= 3 /\ IsCont8(bs[2]) /\ IsCont8(bs[3])
         /\ (b = 224 => bs[2] >= 160)          \* not an overlong form
         /\ (b = 237 => bs[2] < 160)           \* not a surrogate
         /\ ValidUtf8(SubSeq(bs, 4, n))
    ELSE IF b >= 240 /\ b < 245 THEN
         /\ n >= 4 /\ IsCont8(bs[2]) /\ IsCont8(bs[3]) /\ IsCont8(bs[4])
         /\ (b = 240 => bs[2] >= 144)          \* not an overlong form
         /\ (b = 244 => bs[2] < 144)           \* not beyond U+10FFFF
         /\ ValidUtf8(SubSeq(bs, 5, n))
    ELSE FALSE
VVoid      == [v |-> "void"]
VList(xs)  == [v |-> "list", xs |-> xs]
VTuple(xs) == [v |-> "tuple", xs |-> xs]
VPair(a, b) == [v |-> "pair", a |-> a, b |-> b]
VCon(ty, i, fs) == [v |-> "con", ty |-> ty, i |-> i, fs |-> fs]   \* i: 0-based constructor index
VData(d)   == [v |-> "data", d |-> d]
VFn(ps, body, env) == [v |-> "fn", ps |-> ps, body |-> body, env |-> env]

\* Data (same shape as in UplcBuiltins.tla)
DI(n)       == [d |-> "I", v |-> n]
DB(b)       == [d |-> "B", v |-> b]
DL(xs)      == [d |-> "L", v |-> xs]
DM(kvs)     == [d |-> "M", v |-> kvs]
DC(tag, fs) == [d |-> "C", tag |-> tag, fs |-> fs]

(***************************************************************************)
(* Results: a value, an abort (fail / todo / failed expect / partial        *)
(* builtin), or "unknown" (fuel exhausted, outside the modelled fragment).   *)
(***************************************************************************)
Ok(v)   == [r |-> "ok", v |-> v]
Abort   == [r |-> "abort"]
Unknown == [r |-> "unknown"]

FloorDiv(a, b) == IF b > 0 THEN a \div b ELSE (0 - a) \div (0 - b)
FloorMod(a, b) == a - b * FloorDiv(a, b)

(***************************************************************************)
(* Types and the Data encoding                                              *)
(***************************************************************************)
RECURSIVE SubstTy(_, _)
SubstTy(ty, m) ==     \* m: function from type-variable names to types
    CASE ty.t = "var"   -> IF ty.x \in DOMAIN m THEN m[ty.x] ELSE ty
      [] ty.t = "List"  -> [t |-> "List", e |-> SubstTy(ty.e, m)]
      [] ty.t = "Tuple" -> [t |-> "Tuple", es |-> [i \in 1..Len(ty.es) |-> SubstTy(ty.es[i], m)]]
      [] ty.t = "Pair"  -> [t |-> "Pair", a |-> SubstTy(ty.a, m), b |-> SubstTy(ty.b, m)]
      [] ty.t = "adt"   -> [t |-> "adt", n |-> ty.n, as |-> [i \in 1..Len(ty.as) |-> SubstTy(ty.as[i], m)]]
      [] OTHER -> ty

\* field types of constructor ci (1-based) of the ADT type ty, with its parameters instantiated
FieldTypes(types, ty, ci) ==
    LET def == types[ty.n]
        m   == [x \in {def.ps[i] : i \in 1..Len(def.ps)} |->
                    ty.as[CHOOSE i \in 1..Len(def.ps) : def.ps[i] = x]]
        fs  == def.cs[ci].fs
    IN  [i \in 1..Len(fs) |-> SubstTy(fs[i], m)]

\* a record declared `@list` is encoded as the plain list of its fields (no constructor)
ListEnc(def) == "enc" \in DOMAIN def /\ def.enc = "list"

\* the tag a constructor is published under (declaration order unless decorated)
TagOf(def, ci) == IF "tag" \in DOMAIN def.cs[ci] THEN def.cs[ci].tag ELSE ci - 1

RECURSIVE ToData(_, _, _), ToDataSeq(_, _, _)
ToDataSeq(types, tys, vs) == [i \in 1..Len(vs) |-> ToData(types, tys[i], vs[i])]
ToData(types, ty, val) ==
    CASE ty.t = "Int"       -> DI(val.n)
      [] ty.t = "ByteArray" -> DB(val.bs)
      [] ty.t = "String"    -> DB(val.cs)
      [] ty.t = "Bool"      -> DC(IF val.b THEN 1 ELSE 0, <<>>)
      [] ty.t = "Void"      -> DC(0, <<>>)
      [] ty.t = "Data"      -> val.d
      [] ty.t = "List"      ->
            IF ty.e.t = "Pair"
            THEN DM([i \in 1..Len(val.xs) |->
                        <<ToData(types, ty.e.a, val.xs[i].a), ToData(types, ty.e.b, val.xs[i].b)>>])
            ELSE DL([i \in 1..Len(val.xs) |-> ToData(types, ty.e, val.xs[i])])
      [] ty.t = "Tuple"     -> DL(ToDataSeq(types, ty.es, val.xs))
      [] ty.t = "Pair"      -> DL(<<ToData(types, ty.a, val.a), ToData(types, ty.b, val.b)>>)
      [] ty.t = "adt"       ->
            IF ListEnc(types[ty.n]) THEN DL(ToDataSeq(types, FieldTypes(types, ty, 1), val.fs))
            ELSE DC(TagOf(types[ty.n], val.i + 1), ToDataSeq(types, FieldTypes(types, ty, val.i + 1), val.fs))

\* FromData: [ok |-> TRUE, v |-> value] or [ok |-> FALSE]   (what `expect _: T = d` accepts)
NoV == [ok |-> FALSE]
YesV(v) == [ok |-> TRUE, v |-> v]

RECURSIVE FromData(_, _, _), FromDataSeq(_, _, _, _)
FromDataSeq(types, tys, ds, acc) ==       \* positional; Len(tys) = Len(ds) is checked by the caller
    IF ds = <<>> THEN YesV(acc)
    ELSE LET r == FromData(types, tys[1], ds[1]) IN
         IF ~r.ok THEN NoV ELSE FromDataSeq(types, Tail(tys), Tail(ds), Append(acc, r.v))
FromData(types, ty, d) ==
    CASE ty.t = "Int"       -> IF d.d = "I" THEN YesV(VInt(d.v)) ELSE NoV
      [] ty.t = "ByteArray" -> IF d.d = "B" THEN YesV(VBytes(d.v)) ELSE NoV
      [] ty.t = "String"    -> IF d.d = "B" /\ ValidUtf8(d.v) THEN YesV(VStr(d.v)) ELSE NoV     \* text travels as its UTF-8 bytes
      [] ty.t = "Bool"      -> IF d.d = "C" /\ d.fs = <<>> /\ d.tag \in {0, 1} THEN YesV(VBool(d.tag = 1)) ELSE NoV
      [] ty.t = "Void"      -> IF d.d = "C" /\ d.fs = <<>> /\ d.tag = 0 THEN YesV(VVoid) ELSE NoV
      [] ty.t = "Data"      -> YesV(VData(d))
      [] ty.t = "List"      ->
            IF ty.e.t = "Pair" THEN
                IF d.d # "M" THEN NoV
                ELSE LET ks == FromDataSeq(types, [i \in 1..Len(d.v) |-> ty.e.a], [i \in 1..Len(d.v) |-> d.v[i][1]], <<>>)
                         vs == FromDataSeq(types, [i \in 1..Len(d.v) |-> ty.e.b], [i \in 1..Len(d.v) |-> d.v[i][2]], <<>>)
                     IN  IF ks.ok /\ vs.ok THEN YesV(VList([i \in 1..Len(d.v) |-> VPair(ks.v[i], vs.v[i])])) ELSE NoV
            ELSE IF d.d # "L" THEN NoV
            ELSE LET r == FromDataSeq(types, [i \in 1..Len(d.v) |-> ty.e], d.v, <<>>) IN
                 IF r.ok THEN YesV(VList(r.v)) ELSE NoV
      [] ty.t = "Tuple"     ->
            IF d.d # "L" \/ Len(d.v) # Len(ty.es) THEN NoV
            ELSE LET r == FromDataSeq(types, ty.es, d.v, <<>>) IN IF r.ok THEN YesV(VTuple(r.v)) ELSE NoV
      [] ty.t = "Pair"      ->
            IF d.d # "L" \/ Len(d.v) # 2 THEN NoV
            ELSE LET r == FromDataSeq(types, <<ty.a, ty.b>>, d.v, <<>>) IN
                 IF r.ok THEN YesV(VPair(r.v[1], r.v[2])) ELSE NoV
      [] ty.t = "adt"       ->
            IF ListEnc(types[ty.n]) THEN
                (LET fts == FieldTypes(types, ty, 1) IN
                 IF d.d # "L" \/ Len(d.v) # Len(fts) THEN NoV
                 ELSE LET r == FromDataSeq(types, fts, d.v, <<>>) IN IF r.ok THEN YesV(VCon(ty.n, 0, r.v)) ELSE NoV)
            ELSE IF d.d # "C" THEN NoV
            ELSE LET def == types[ty.n]
                     hit == {ci \in 1..Len(def.cs) : TagOf(def, ci) = d.tag}
                 IN  IF hit = {} THEN NoV
                     ELSE LET ci  == CHOOSE c \in hit : TRUE
                              fts == FieldTypes(types, ty, ci)
                          IN  IF Len(fts) # Len(d.fs) THEN NoV
                              ELSE LET r == FromDataSeq(types, fts, d.fs, <<>>) IN
                                   IF r.ok THEN YesV(VCon(ty.n, ci - 1, r.v)) ELSE NoV

(***************************************************************************)
(* Structural equality (==).  Data values compare as Data.                  *)
(***************************************************************************)
RECURSIVE VEq(_, _), VSeqEq(_, _)
VSeqEq(a, b) == Len(a) = Len(b) /\ \A i \in 1..Len(a) : VEq(a[i], b[i])
VEq(a, b) ==
    a.v = b.v /\
    CASE a.v = "int"   -> a.n = b.n
      [] a.v = "bool"  -> a.b = b.b
      [] a.v = "bytes" -> a.bs = b.bs
      [] a.v = "str"   -> a.cs = b.cs
      [] a.v = "void"  -> TRUE
      [] a.v \in {"list", "tuple"} -> VSeqEq(a.xs, b.xs)
      [] a.v = "pair"  -> VEq(a.a, b.a) /\ VEq(a.b, b.b)
      [] a.v = "con"   -> a.i = b.i /\ VSeqEq(a.fs, b.fs)
      [] a.v = "data"  -> a.d = b.d
      [] OTHER -> FALSE

(***************************************************************************)
(* Patterns.  Match returns [m |-> TRUE, b |-> bindings] or [m |-> FALSE];   *)
(* bindings are a function from variable names to values.                    *)
(***************************************************************************)
NoM == [m |-> FALSE]
YesM(b) == [m |-> TRUE, b |-> b]
Empty == [x \in {} |-> 0]
Bind(b, x, v) == [y \in DOMAIN b \cup {x} |-> IF y = x THEN v ELSE b[y]]
Merge(b1, b2) == [y \in DOMAIN b1 \cup DOMAIN b2 |-> IF y \in DOMAIN b2 THEN b2[y] ELSE b1[y]]

RECURSIVE Match(_, _), MatchSeq(_, _, _), MatchAlt(_, _)
MatchSeq(ps, vs, acc) ==
    IF ps = <<>> THEN YesM(acc)
    ELSE LET r == Match(ps[1], vs[1]) IN
         IF ~r.m THEN NoM ELSE MatchSeq(Tail(ps), Tail(vs), Merge(acc, r.b))
MatchAlt(ps, val) ==
    IF ps = <<>> THEN NoM
    ELSE LET r == Match(ps[1], val) IN IF r.m THEN r ELSE MatchAlt(Tail(ps), val)
Match(p, val) ==
    CASE p.p = "discard" -> YesM(Empty)
      [] p.p = "var"     -> YesM(Bind(Empty, p.x, val))
      [] p.p = "as"      -> LET r == Match(p.q, val) IN IF r.m THEN YesM(Bind(r.b, p.x, val)) ELSE NoM
      [] p.p = "int"     -> IF val.n = p.n THEN YesM(Empty) ELSE NoM
      [] p.p = "bytes"   -> IF val.bs = p.bs THEN YesM(Empty) ELSE NoM
      [] p.p = "bool"    -> IF val.b = p.b THEN YesM(Empty) ELSE NoM
      [] p.p = "con"     ->     \* args: one pattern per field (the renderer expands `..`)
            IF val.i # p.i THEN NoM ELSE MatchSeq(p.args, val.fs, Empty)
      [] p.p = "tuple"   -> MatchSeq(p.ps, val.xs, Empty)
      [] p.p = "pair"    -> MatchSeq(<<p.a, p.b>>, <<val.a, val.b>>, Empty)
      [] p.p = "list"    ->     \* tail: "none" | "discard" | "var"
            IF p.tail = "none"
            THEN IF Len(val.xs) # Len(p.ps) THEN NoM ELSE MatchSeq(p.ps, val.xs, Empty)
            ELSE IF Len(val.xs) < Len(p.ps) THEN NoM
                 ELSE LET r == MatchSeq(p.ps, SubSeq(val.xs, 1, Len(p.ps)), Empty) IN
                      IF ~r.m THEN NoM
                      ELSE IF p.tail = "var"
                           THEN YesM(Bind(r.b, p.x, VList(SubSeq(val.xs, Len(p.ps) + 1, Len(val.xs)))))
                           ELSE r
      [] p.p = "alt"     -> MatchAlt(p.ps, val)

\* index (1-based) of the first clause whose pattern matches, 0 if none
RECURSIVE FirstMatch(_, _, _)
FirstMatch(cs, val, i) ==
    IF i > Len(cs) THEN 0
    ELSE IF Match(cs[i].p, val).m THEN i ELSE FirstMatch(cs, val, i + 1)

(***************************************************************************)
(* Expressions                                                              *)
(***************************************************************************)
AllOk(rs) == \A i \in 1..Len(rs) : rs[i].r = "ok"
AnyUnknown(rs) == \E i \in 1..Len(rs) : rs[i].r = "unknown"
Vals(rs) == [i \in 1..Len(rs) |-> rs[i].v]
\* strict combination of sub-results
Lift(rs) == IF AnyUnknown(rs) THEN Unknown ELSE IF AllOk(rs) THEN Ok(Vals(rs)) ELSE Abort

IntOp(op, a, b) ==
    CASE op = "+" -> Ok(VInt(a + b))
      [] op = "-" -> Ok(VInt(a - b))
      [] op = "*" -> Ok(VInt(a * b))
      [] op = "/" -> IF b = 0 THEN Abort ELSE Ok(VInt(FloorDiv(a, b)))
      [] op = "%" -> IF b = 0 THEN Abort ELSE Ok(VInt(FloorMod(a, b)))
      [] op = "<" -> Ok(VBool(a < b))
      [] op = "<=" -> Ok(VBool(a <= b))
      [] op = ">" -> Ok(VBool(a > b))
      [] op = ">=" -> Ok(VBool(a >= b))

(* calls of `aiken/builtin` functions on byte arrays (non-commutative, partial) *)
RECURSIVE BytesLess(_, _)
BytesLess(a, b) ==          \* lexicographic, a proper prefix is smaller
    IF b = <<>> THEN FALSE
    ELSE IF a = <<>> THEN TRUE
    ELSE IF a[1] # b[1] THEN a[1] < b[1]
    ELSE BytesLess(Tail(a), Tail(b))
\* bitwise and / or / xor of two bytes, and of two byte strings: with padding the result has the length of the longer argument (the missing
\* bytes of the shorter count as 0xFF for `and`, 0x00 for `or` / `xor`), without it the length of the shorter
RECURSIVE BitOp(_, _, _, _)
BitOp(f, a, b, w) ==
    IF w = 0 THEN 0
    ELSE LET x == a % 2 y == b % 2
             z == CASE f = "and_bytearray" -> IF x = 1 /\ y = 1 THEN 1 ELSE 0
                    [] f = "or_bytearray"  -> IF x = 1 \/ y = 1 THEN 1 ELSE 0
                    [] OTHER               -> IF x # y THEN 1 ELSE 0
         IN  z + 2 * BitOp(f, a \div 2, b \div 2, w - 1)
BitwiseBytes(f, pad, a, b) ==
    LET fill == IF f = "and_bytearray" THEN 255 ELSE 0
        n == IF pad THEN (IF Len(a) > Len(b) THEN Len(a) ELSE Len(b)) ELSE (IF Len(a) < Len(b) THEN Len(a) ELSE Len(b))
        at(x, i) == IF i <= Len(x) THEN x[i] ELSE fill
    IN  [i \in 1..n |-> BitOp(f, at(a, i), at(b, i), 8)]
Clamp(x, lo, hi) == IF x < lo THEN lo ELSE IF x > hi THEN hi ELSE x
BuiltinCall(f, vs) ==
    CASE f = "append_bytearray"           -> Ok(VBytes(vs[1].bs \o vs[2].bs))
      [] f = "less_than_bytearray"        -> Ok(VBool(BytesLess(vs[1].bs, vs[2].bs)))
      [] f = "less_than_equals_bytearray" -> Ok(VBool(vs[1].bs = vs[2].bs \/ BytesLess(vs[1].bs, vs[2].bs)))
      [] f = "length_of_bytearray"        -> Ok(VInt(Len(vs[1].bs)))
      [] f = "index_bytearray"            -> IF vs[2].n >= 0 /\ vs[2].n < Len(vs[1].bs) THEN Ok(VInt(vs[1].bs[vs[2].n + 1])) ELSE Abort
      [] f = "cons_bytearray"             -> IF vs[1].n >= 0 /\ vs[1].n <= 255 THEN Ok(VBytes(<<vs[1].n>> \o vs[2].bs)) ELSE Abort
      [] f = "slice_bytearray"            ->      \* slice(start, length, bytes): clamped, never fails
            LET n == Len(vs[3].bs) st == Clamp(vs[1].n, 0, n) ln == Clamp(vs[2].n, 0, n - Clamp(vs[1].n, 0, n))
            IN  Ok(VBytes(SubSeq(vs[3].bs, st + 1, st + ln)))
      [] f \in {"and_bytearray", "or_bytearray", "xor_bytearray"} -> Ok(VBytes(BitwiseBytes(f, vs[1].b, vs[2].bs, vs[3].bs)))
      [] f = "append_string"              -> Ok(VStr(vs[1].cs \o vs[2].cs))
      [] f = "encode_utf8"                -> Ok(VBytes(vs[1].cs))
      [] f = "decode_utf8"                -> IF IsAscii(vs[1].bs) THEN Ok(VStr(vs[1].bs)) ELSE Unknown
      [] f \in {"bls12_381_g1_neg", "bls12_381_g2_neg"}               -> Ok(VPoint(vs[1].g, 0 - vs[1].k))
      [] f \in {"bls12_381_g1_add", "bls12_381_g2_add"}               -> Ok(VPoint(vs[1].g, vs[1].k + vs[2].k))
      [] f \in {"bls12_381_g1_equal", "bls12_381_g2_equal"}           -> Ok(VBool(vs[1].k = vs[2].k))
      [] f \in {"bls12_381_g1_scalar_mul", "bls12_381_g2_scalar_mul"} -> Ok(VPoint(vs[2].g, vs[1].n * vs[2].k))
      [] OTHER -> Unknown

RECURSIVE Eval(_, _, _, _), EvalSeq(_, _, _, _), EvalWhen(_, _, _, _, _), Apply(_, _, _, _)

EvalSeq(m, env, es, fuel) == [i \in 1..Len(es) |-> Eval(m, env, es[i], fuel)]

Apply(m, f, args, fuel) ==
    IF fuel = 0 THEN Unknown
    ELSE IF Len(f.ps) # Len(args) THEN Unknown
    ELSE Eval(m, [x \in DOMAIN f.env \cup {f.ps[i] : i \in 1..Len(args)} |->
                     IF \E i \in 1..Len(args) : f.ps[i] = x
                     THEN args[CHOOSE i \in 1..Len(args) : f.ps[i] = x /\ \A j \in (i + 1)..Len(args) : f.ps[j] # x]
                     ELSE f.env[x]],
              f.body, fuel - 1)

EvalWhen(m, env, cs, val, fuel) ==
    LET i == FirstMatch(cs, val, 1) IN
    IF i = 0 THEN Unknown      \* cannot happen in a checked program (C07)
    ELSE Eval(m, Merge(env, Match(cs[i].p, val).b), cs[i].b, fuel)

Eval(m, env, e, fuel) ==
    CASE e.k = "int"   -> Ok(VInt(e.n))
      [] e.k = "bool"  -> Ok(VBool(e.b))
      [] e.k = "bytes" -> Ok(VBytes(e.bs))
      [] e.k = "str"   -> Ok(VStr(e.cs))
      [] e.k = "point" -> Ok(VPoint(e.g, e.n))
      [] e.k = "void"  -> Ok(VVoid)
      [] e.k = "var"   -> IF e.x \in DOMAIN env THEN Ok(env[e.x]) ELSE Unknown
      [] e.k = "neg"   -> LET r == Eval(m, env, e.e, fuel) IN IF r.r = "ok" THEN Ok(VInt(0 - r.v.n)) ELSE r
      [] e.k = "not"   -> LET r == Eval(m, env, e.e, fuel) IN IF r.r = "ok" THEN Ok(VBool(~r.v.b)) ELSE r
      [] e.k = "binop" ->
            IF e.op = "&&" THEN
                LET l == Eval(m, env, e.l, fuel) IN
                IF l.r # "ok" THEN l ELSE IF ~l.v.b THEN Ok(VBool(FALSE)) ELSE Eval(m, env, e.r, fuel)
            ELSE IF e.op = "||" THEN
                LET l == Eval(m, env, e.l, fuel) IN
                IF l.r # "ok" THEN l ELSE IF l.v.b THEN Ok(VBool(TRUE)) ELSE Eval(m, env, e.r, fuel)
            ELSE LET rs == Lift(<<Eval(m, env, e.l, fuel), Eval(m, env, e.r, fuel)>>) IN
                 IF rs.r # "ok" THEN rs
                 ELSE IF e.op = "==" THEN Ok(VBool(VEq(rs.v[1], rs.v[2])))
                 ELSE IF e.op = "!=" THEN Ok(VBool(~VEq(rs.v[1], rs.v[2])))
                 ELSE IntOp(e.op, rs.v[1].n, rs.v[2].n)
      [] e.k = "bcall" -> LET rs == Lift(EvalSeq(m, env, e.args, fuel)) IN IF rs.r # "ok" THEN rs ELSE BuiltinCall(e.f, rs.v)
      [] e.k = "and"   ->     \* and { a, b, c }: left to right, short-circuit
            IF e.es = <<>> THEN Ok(VBool(TRUE))
            ELSE LET l == Eval(m, env, e.es[1], fuel) IN
                 IF l.r # "ok" THEN l ELSE IF ~l.v.b THEN Ok(VBool(FALSE))
                 ELSE Eval(m, env, [k |-> "and", es |-> Tail(e.es)], fuel)
      [] e.k = "or"    ->
            IF e.es = <<>> THEN Ok(VBool(FALSE))
            ELSE LET l == Eval(m, env, e.es[1], fuel) IN
                 IF l.r # "ok" THEN l ELSE IF l.v.b THEN Ok(VBool(TRUE))
                 ELSE Eval(m, env, [k |-> "or", es |-> Tail(e.es)], fuel)
      [] e.k = "if"    ->
            LET c == Eval(m, env, e.c, fuel) IN
            IF c.r # "ok" THEN c ELSE IF c.v.b THEN Eval(m, env, e.t, fuel) ELSE Eval(m, env, e.e, fuel)
      [] e.k = "let"   ->     \* let x = e1  body      (x is used by body: generators guarantee it)
            LET r == Eval(m, env, e.e, fuel) IN
            IF r.r # "ok" THEN r ELSE Eval(m, Bind(env, e.x, r.v), e.body, fuel)
      [] e.k = "letu"  ->     \* a let whose binding is NOT used: the language erases it (no effect)
            Eval(m, env, e.body, fuel)
      [] e.k = "letp"  ->     \* let <irrefutable pattern> = e1  body
            LET r == Eval(m, env, e.e, fuel) IN
            IF r.r # "ok" THEN r
            ELSE LET mm == Match(e.p, r.v) IN
                 IF mm.m THEN Eval(m, Merge(env, mm.b), e.body, fuel) ELSE Unknown
      [] e.k = "expect" ->    \* expect <pattern> = e1  body : abort when the pattern does not match
            LET r == Eval(m, env, e.e, fuel) IN
            IF r.r # "ok" THEN r
            ELSE LET mm == Match(e.p, r.v) IN
                 IF mm.m THEN Eval(m, Merge(env, mm.b), e.body, fuel) ELSE Abort
      [] e.k = "cast"  ->     \* expect x: T = (e1 : Data)  body : abort unless the data has the shape of T
            LET r == Eval(m, env, e.e, fuel) IN
            IF r.r # "ok" THEN r
            ELSE LET c == FromData(m.types, e.ty, r.v.d) IN
                 IF c.ok THEN Eval(m, Bind(env, e.x, c.v), e.body, fuel) ELSE Abort
      [] e.k = "todata" ->    \* upcast
            LET r == Eval(m, env, e.e, fuel) IN
            IF r.r # "ok" THEN r ELSE Ok(VData(ToData(m.types, e.ty, r.v)))
      [] e.k = "when"  ->
            LET s == Eval(m, env, e.s, fuel) IN
            IF s.r # "ok" THEN s ELSE EvalWhen(m, env, e.cs, s.v, fuel)
      [] e.k = "call"  ->     \* top-level function
            LET rs == Lift(EvalSeq(m, env, e.args, fuel)) IN
            IF rs.r # "ok" THEN rs
            ELSE IF e.f \notin DOMAIN m.fns THEN Unknown
            ELSE Apply(m, VFn(m.fns[e.f].ps, m.fns[e.f].body, Empty), rs.v, fuel)
      [] e.k = "apply" ->     \* a function value
            LET f  == Eval(m, env, e.f, fuel)
                rs == Lift(EvalSeq(m, env, e.args, fuel)) IN
            IF f.r # "ok" THEN (IF rs.r = "unknown" THEN Unknown ELSE f)
            ELSE IF rs.r # "ok" THEN rs
            ELSE Apply(m, f.v, rs.v, fuel)
      [] e.k = "fn"    -> Ok(VFn(e.ps, e.body, env))
      [] e.k = "fnref" -> Ok(VFn(m.fns[e.f].ps, m.fns[e.f].body, Empty))
      [] e.k = "list"  ->     \* [e1, e2, ..tail]
            LET rs == Lift(EvalSeq(m, env, e.es, fuel)) IN
            IF rs.r # "ok" THEN rs
            ELSE IF "tail" \in DOMAIN e THEN
                LET t == Eval(m, env, e.tail, fuel) IN
                IF t.r # "ok" THEN t ELSE Ok(VList(rs.v \o t.v.xs))
            ELSE Ok(VList(rs.v))
      [] e.k = "tuple" -> LET rs == Lift(EvalSeq(m, env, e.es, fuel)) IN IF rs.r # "ok" THEN rs ELSE Ok(VTuple(rs.v))
      [] e.k = "pair"  ->
            LET rs == Lift(<<Eval(m, env, e.a, fuel), Eval(m, env, e.b, fuel)>>) IN
            IF rs.r # "ok" THEN rs ELSE Ok(VPair(rs.v[1], rs.v[2]))
      [] e.k = "con"   ->     \* constructor application, args in declaration order
            LET rs == Lift(EvalSeq(m, env, e.args, fuel)) IN
            IF rs.r # "ok" THEN rs ELSE Ok(VCon(e.ty, e.i, rs.v))
      [] e.k = "field" ->     \* record.field (single-constructor types), 1-based position
            LET r == Eval(m, env, e.e, fuel) IN IF r.r # "ok" THEN r ELSE Ok(r.v.fs[e.i])
      [] e.k = "tupidx" ->    \* tuple.1st (1-based) ; for pairs 1 / 2
            LET r == Eval(m, env, e.e, fuel) IN
            IF r.r # "ok" THEN r
            ELSE IF r.v.v = "pair" THEN Ok(IF e.i = 1 THEN r.v.a ELSE r.v.b) ELSE Ok(r.v.xs[e.i])
      [] e.k = "update" ->    \* Rec { ..base, field_i: e_i }
            LET b  == Eval(m, env, e.e, fuel)
                rs == Lift(EvalSeq(m, env, e.vals, fuel)) IN
            IF b.r # "ok" THEN (IF rs.r = "unknown" THEN Unknown ELSE b)
            ELSE IF rs.r # "ok" THEN rs
            ELSE Ok([b.v EXCEPT !.fs = [i \in 1..Len(b.v.fs) |->
                        IF \E j \in 1..Len(e.ixs) : e.ixs[j] = i
                        THEN rs.v[CHOOSE j \in 1..Len(e.ixs) : e.ixs[j] = i] ELSE b.v.fs[i]]])
      [] e.k \in {"fail", "todo"} -> Abort
      [] e.k = "trace" -> Eval(m, env, e.body, fuel)        \* tracing decides nothing
      [] e.k = "traceif" -> Eval(m, env, e.e, fuel)         \* e?
      [] OTHER -> Unknown

\* entry point: function `f` applied to Data arguments (the declared parameter types are in sig)
RunFn(m, f, sig, dargs, fuel) ==
    LET cs == [i \in 1..Len(dargs) |-> FromData(m.types, sig[i], dargs[i])] IN
    IF \E i \in 1..Len(cs) : ~cs[i].ok THEN Unknown      \* arguments must be conforming
    ELSE Apply(m, VFn(m.fns[f].ps, m.fns[f].body, Empty), [i \in 1..Len(cs) |-> cs[i].v], fuel)
=============================================================================
