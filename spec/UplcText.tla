------------------------------ MODULE UplcText ------------------------------
(***************************************************************************)
(* The canonical concrete syntax of Untyped Plutus Core (C15), written from *)
(* the Plutus Core specification's textual notation:                        *)
(*   terms      x | (lam x M) | [M N] | (delay M) | (force M) | (error)      *)
(*              (builtin b) | (con T c) | (constr i M..) | (case M N..)      *)
(*   types      integer bytestring string bool unit data (list T) (pair A B)*)
(*   constants  decimal integers, #hex, "strings" with escapes, () True     *)
(*              False, [c, ..], (c, c), data: I n | B #hex | List [..] |     *)
(*              Map [(k, v), ..] | Constr i [..]                            *)
(* PrintTerm(t) is a sequence of PIECES: TLA+ strings (keywords, names,         *)
(* punctuation), [n |-> int] for decimal numbers, [hex |-> bytes] for hex    *)
(* digits and [cps |-> code points] for the inside of a string literal       *)
(* (already escaped).  The harness only concatenates the pieces.             *)
(* The table of built-in function names is the specification's.              *)
(***************************************************************************)
EXTENDS Integers, Sequences, FiniteSets, TLC

BuiltinNames == <<
    "addInteger", "subtractInteger", "multiplyInteger", "divideInteger", "quotientInteger", "remainderInteger",
    "modInteger", "equalsInteger", "lessThanInteger", "lessThanEqualsInteger",
    "appendByteString", "consByteString", "sliceByteString", "lengthOfByteString", "indexByteString",
    "equalsByteString", "lessThanByteString", "lessThanEqualsByteString",
    "sha2_256", "sha3_256", "blake2b_256", "verifyEd25519Signature",
    "appendString", "equalsString", "encodeUtf8", "decodeUtf8",
    "ifThenElse", "chooseUnit", "trace", "fstPair", "sndPair", "chooseList", "mkCons", "headList", "tailList", "nullList",
    "chooseData", "constrData", "mapData", "listData", "iData", "bData", "unConstrData", "unMapData", "unListData",
    "unIData", "unBData", "equalsData", "mkPairData", "mkNilData", "mkNilPairData", "serialiseData",
    "verifyEcdsaSecp256k1Signature", "verifySchnorrSecp256k1Signature",
    "bls12_381_G1_add", "bls12_381_G1_neg", "bls12_381_G1_scalarMul", "bls12_381_G1_equal", "bls12_381_G1_compress",
    "bls12_381_G1_uncompress", "bls12_381_G1_hashToGroup",
    "bls12_381_G2_add", "bls12_381_G2_neg", "bls12_381_G2_scalarMul", "bls12_381_G2_equal", "bls12_381_G2_compress",
    "bls12_381_G2_uncompress", "bls12_381_G2_hashToGroup",
    "bls12_381_millerLoop", "bls12_381_mulMlResult", "bls12_381_finalVerify",
    "keccak_256", "blake2b_224", "integerToByteString", "byteStringToInteger",
    "andByteString", "orByteString", "xorByteString", "complementByteString", "readBit", "writeBits", "replicateByte",
    "shiftByteString", "rotateByteString", "countSetBits", "findFirstSetBit", "ripemd_160", "expModInteger",
    "dropList", "bls12_381_G1_multiScalarMul", "bls12_381_G2_multiScalarMul" >>

(***************************************************************************)
(* String escapes: inside a literal, `"` and `\` are escaped with a         *)
(* backslash, the usual control characters have mnemonic escapes, every     *)
(* other character stands for itself.  (What the printer must emit is only  *)
(* constrained by: the parser reads back the same code points.)             *)
(***************************************************************************)
Esc(cp) ==
    CASE cp = 34 -> <<92, 34>>          \* \"
      [] cp = 92 -> <<92, 92>>          \* \\
      [] cp = 10 -> <<92, 110>>         \* \n
      [] cp = 13 -> <<92, 114>>         \* \r
      [] cp = 9  -> <<92, 116>>         \* \t
      [] OTHER   -> <<cp>>
RECURSIVE EscAll(_)
EscAll(s) == IF s = <<>> THEN <<>> ELSE Esc(s[1]) \o EscAll(Tail(s))

RECURSIVE PrintType(_)
PrintType(ty) ==
    CASE ty.t = "int"  -> <<"integer">>
      [] ty.t = "bs"   -> <<"bytestring">>
      [] ty.t = "str"  -> <<"string">>
      [] ty.t = "bool" -> <<"bool">>
      [] ty.t = "unit" -> <<"unit">>
      [] ty.t = "data" -> <<"data">>
      [] ty.t = "list" -> <<"(", "list", " ">> \o PrintType(ty.e) \o <<")">>
      [] ty.t = "pair" -> <<"(", "pair", " ">> \o PrintType(ty.a) \o <<" ">> \o PrintType(ty.b) \o <<")">>

RECURSIVE PrintData(_), PrintDataSeq(_), PrintDataPairs(_)
PrintDataSeq(ds) ==
    IF ds = <<>> THEN <<>>
    ELSE PrintData(ds[1]) \o (IF Len(ds) > 1 THEN <<", ">> ELSE <<>>) \o PrintDataSeq(Tail(ds))
PrintDataPairs(kvs) ==
    IF kvs = <<>> THEN <<>>
    ELSE <<"(">> \o PrintData(kvs[1][1]) \o <<", ">> \o PrintData(kvs[1][2]) \o <<")">>
         \o (IF Len(kvs) > 1 THEN <<", ">> ELSE <<>>) \o PrintDataPairs(Tail(kvs))
PrintData(d) ==
    CASE d.d = "I" -> <<"I", " ", [n |-> d.v]>>
      [] d.d = "B" -> <<"B", " ", "#", [hex |-> d.v]>>
      [] d.d = "L" -> <<"List", " ", "[">> \o PrintDataSeq(d.v) \o <<"]">>
      [] d.d = "M" -> <<"Map", " ", "[">> \o PrintDataPairs(d.v) \o <<"]">>
      [] d.d = "C" -> <<"Constr", " ", [n |-> d.tag], " ", "[">> \o PrintDataSeq(d.fs) \o <<"]">>

RECURSIVE PrintValue(_), PrintValues(_)
PrintValues(cs) ==
    IF cs = <<>> THEN <<>>
    ELSE PrintValue(cs[1]) \o (IF Len(cs) > 1 THEN <<", ">> ELSE <<>>) \o PrintValues(Tail(cs))
PrintValue(c) ==
    CASE c.t = "int"  -> <<[n |-> c.v]>>
      [] c.t = "bs"   -> <<"#", [hex |-> c.v]>>
      [] c.t = "str"  -> <<"\"", [cps |-> EscAll(c.v)], "\"">>
      [] c.t = "bool" -> <<IF c.v THEN "True" ELSE "False">>
      [] c.t = "unit" -> <<"()">>
      [] c.t = "data" -> PrintData(c.v)
      [] c.t = "list" -> <<"[">> \o PrintValues(c.v) \o <<"]">>
      [] c.t = "pair" -> <<"(">> \o PrintValue(c.f) \o <<", ">> \o PrintValue(c.s) \o <<")">>

TypeOfC(c) ==
    CASE c.t = "list" -> [t |-> "list", e |-> c.et]
      [] c.t = "pair" -> [t |-> "pair", a |-> c.ft, b |-> c.st]
      [] OTHER -> [t |-> c.t]

\* a data constant is written  (con data (I 5))  at the top of a constant
PrintConst(c) ==
    PrintType(TypeOfC(c)) \o <<" ">> \o
    (IF c.t = "data" THEN <<"(">> \o PrintData(c.v) \o <<")">> ELSE PrintValue(c))

RECURSIVE PrintTerm(_, _), PrintSeq(_, _)
PrintSeq(ts, d) == IF ts = <<>> THEN <<>> ELSE <<" ">> \o PrintTerm(ts[1], d) \o PrintSeq(Tail(ts), d)
PrintTerm(t, d) ==     \* d: number of enclosing binders; the binder at level l is named x<l>
    CASE t.k = "var"    -> <<"x" \o ToString(d - t.i)>>
      [] t.k = "lam"    -> <<"(", "lam", " ", "x" \o ToString(d), " ">> \o PrintTerm(t.b, d + 1) \o <<")">>
      [] t.k = "app"    -> <<"[">> \o PrintTerm(t.f, d) \o <<" ">> \o PrintTerm(t.a, d) \o <<"]">>
      [] t.k = "delay"  -> <<"(", "delay", " ">> \o PrintTerm(t.b, d) \o <<")">>
      [] t.k = "force"  -> <<"(", "force", " ">> \o PrintTerm(t.b, d) \o <<")">>
      [] t.k = "err"    -> <<"(", "error", ")">>
      [] t.k = "bi"     -> <<"(", "builtin", " ", t.f, ")">>
      [] t.k = "con"    -> <<"(", "con", " ">> \o PrintConst(t.c) \o <<")">>
      [] t.k = "constr" -> <<"(", "constr", " ", [n |-> t.tag]>> \o PrintSeq(t.fs, d) \o <<")">>
      [] t.k = "case"   -> <<"(", "case", " ">> \o PrintTerm(t.s, d) \o PrintSeq(t.bs, d) \o <<")">>

PrintProgram(major, minor, patch, t) ==
    <<"(", "program", " ", [n |-> major], ".", [n |-> minor], ".", [n |-> patch], " ">> \o PrintTerm(t, 0) \o <<")">>
=============================================================================
