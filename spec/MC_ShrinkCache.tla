-------------------------- MODULE MC_ShrinkCache ---------------------------
(***************************************************************************)
(* The shrinker's result cache (C16): a map from choice sequences to        *)
(* statuses with a longest-known-prefix rule and pruning, written the way   *)
(* the implementation works:                                                *)
(*   Get(c): if some stored key is a prefix of c, take the longest one; its *)
(*           status answers the query unless it is Invalid and the key is   *)
(*           a proper prefix.  Otherwise run the test, and when the result  *)
(*           is not Invalid drop every stored key that extends c; store.    *)
(* TLC explores every history of H queries over all sequences up to MaxLen  *)
(* over 0..Alpha and checks that every answer is the true status.  Each     *)
(* complete history is replayed on the real Cache.                          *)
(***************************************************************************)
EXTENDS Shrink, Json

CONSTANTS F, P, Mode, MaxLen, Alpha, H

RECURSIVE SeqsUpTo(_)
SeqsUpTo(n) == IF n = 0 THEN {<<>>} ELSE SeqsUpTo(n - 1) \cup {Append(s, a) : s \in {t \in SeqsUpTo(n - 1) : Len(t) = n - 1}, a \in 0..Alpha}
Universe == SeqsUpTo(MaxLen)

IsPrefix(p, c) == Len(p) <= Len(c) /\ SubSeq(c, 1, Len(p)) = p

VARIABLES db, hist
vars == <<db, hist>>

None == [s |-> "none"]
Init == db = [c \in Universe |-> None] /\ hist = <<>>

Stored == {c \in Universe : db[c].s # "none"}

Get(c) ==
    LET pre  == {k \in Stored : IsPrefix(k, c)}
        best == IF pre = {} THEN <<>> ELSE CHOOSE k \in pre : \A j \in pre : Len(j) <= Len(k)
        hit  == pre # {} /\ (db[best].s # "invalid" \/ best = c)
        st   == Status(F, P, Mode, c)
    IN  IF hit
        THEN /\ hist' = Append(hist, [c |-> c, a |-> db[best], ran |-> FALSE])
             /\ UNCHANGED db
        ELSE /\ hist' = Append(hist, [c |-> c, a |-> st, ran |-> TRUE])
             /\ db' = [k \in Universe |->
                         IF k = c THEN st
                         ELSE IF st.s # "invalid" /\ IsPrefix(c, k) THEN None
                         ELSE db[k]]

Next == Len(hist) < H /\ \E c \in Universe : Get(c)
Spec == Init /\ [][Next]_vars

\* every answer the cache ever gave is the true status of the queried sequence
AnswersAreTrue == \A i \in 1..Len(hist) : hist[i].a = Status(F, P, Mode, hist[i].c)
\* what is stored is true as well
StoredAreTrue == \A c \in Stored : db[c] = Status(F, P, Mode, c)

Emit == Len(hist) = H => PrintT(<<"REPLAY", ToJson([f |-> F, p |-> P, mode |-> Mode, hist |-> hist])>>)
=============================================================================
