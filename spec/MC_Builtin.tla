----------------------------- MODULE MC_Builtin -----------------------------
(***************************************************************************)
(* Every modelled builtin applied to every argument tuple drawn from        *)
(* boundary pools (per argument kind: zero, negative, at / one past each    *)
(* boundary, symbolic huge integers beyond 64 / 128 bits, empty and         *)
(* word-boundary byte strings, each Data constructor, ...) plus wrong-typed *)
(* and non-constant values, with the right number of forces, one too few    *)
(* and one too many, under every semantics variant in Sems.                 *)
(* The expected result is computed by the specification's machine           *)
(* (Uplc.tla / UplcBuiltins.tla); every case is replayed on the real        *)
(* machine (DESIGN.md section 4.1 MC_Builtin, C04/C05/C10).                 *)
(***************************************************************************)
EXTENDS Uplc, Json

CONSTANTS Group,     \* which group of builtins this run enumerates
          Sems,
          ForceSlack \* TRUE: also enumerate forces-1 and forces+1

I(n) == MkInt(n)
HP == MkHuge(1, 3)
HN == MkHuge(0 - 1, 5)
H0 == MkHuge(1, 0)

PoolInt == <<I(0), I(1), I(0 - 1), I(2), I(7), I(8), I(9), I(64), I(65), I(255), I(256), I(0 - 256),
            I(8192), I(8193), HP, HN, H0>>
PoolIntSmall == <<I(0), I(1), I(0 - 1), I(3), I(8), I(9), I(255), I(256), HP, HN>>
Bytes9 == <<1, 2, 3, 4, 5, 6, 7, 8, 9>>
PoolBs == <<MkBs(<<>>), MkBs(<<0>>), MkBs(<<255>>), MkBs(<<128, 1>>), MkBs(<<1, 2, 3, 4, 5, 6, 7, 8>>),
           MkBs(Bytes9), MkBs(<<255, 255>>)>>
PoolStr == <<MkStr(<<>>), MkStr(<<97>>), MkStr(<<233, 97>>), MkStr(<<128512>>), MkStr(<<97, 98, 99, 100, 101>>)>>
PoolBool == <<MkBool(TRUE), MkBool(FALSE)>>
PoolUnit == <<MkUnit>>
PoolData == <<MkData(DI(0)), MkData(DI(0 - 1)), MkData(DIHuge(1, 3)), MkData(DB(<<>>)), MkData(DB(Bytes9)),
             MkData(DL(<<>>)), MkData(DL(<<DI(1)>>)), MkData(DM(<<>>)), MkData(DM(<<<<DI(1), DI(2)>>>>)),
             MkData(DC(0, <<>>)), MkData(DC(1, <<DI(2)>>)), MkData(DC(130, <<DB(<<1>>), DL(<<>>)>>))>>
PoolListInt == <<MkList(TInt, <<>>), MkList(TInt, <<I(0)>>), MkList(TInt, <<I(1), I(9)>>),
                MkList(TInt, <<I(0 - 1)>>), MkList(TInt, <<I(15), HP>>), MkList(TInt, <<I(16)>>)>>
PoolListData == <<MkList(TData, <<>>), MkList(TData, <<MkData(DI(1))>>),
                 MkList(TData, <<MkData(DB(<<>>)), MkData(DL(<<>>))>>)>>
PoolListPair == <<MkList(TPair(TData, TData), <<>>),
                 MkList(TPair(TData, TData), <<MkPair(TData, TData, MkData(DI(1)), MkData(DB(<<2>>)))>>)>>
PoolPair == <<MkPair(TInt, TBool, I(4), MkBool(FALSE)), MkPair(TData, TData, MkData(DI(1)), MkData(DI(2)))>>
PoolListAny == PoolListInt \o <<MkList(TData, <<MkData(DI(1))>>), MkList(TBool, <<>>),
                               MkList(TList(TBs), <<>>), MkList(TList(TInt), <<MkList(TInt, <<I(3)>>)>>),
                               MkList(TPair(TData, TData), <<>>), MkList(TPair(TInt, TBs), <<>>)>>
\* heads for mkCons: the element type must agree with the list's DEEPLY (not only its outer constructor)
PoolConsHead == <<MkData(DI(0)), MkData(DL(<<>>)), I(5), MkBool(TRUE),
                  MkList(TInt, <<I(1), I(2)>>), MkList(TBs, <<MkBs(<<1>>)>>), MkList(TData, <<>>),
                  MkPair(TInt, TBs, I(1), MkBs(<<0>>)), MkPair(TData, TData, MkData(DI(1)), MkData(DI(2))),
                  MkPair(TInt, TInt, I(1), I(2))>>

ConstPool(kind) ==
    CASE kind = "int" -> PoolInt
      [] kind = "ints" -> PoolIntSmall
      [] kind = "bs" -> PoolBs
      [] kind = "str" -> PoolStr
      [] kind = "bool" -> PoolBool
      [] kind = "unit" -> PoolUnit
      [] kind = "data" -> PoolData
      [] kind = "lint" -> PoolListInt
      [] kind = "ldata" -> PoolListData
      [] kind = "lpair" -> PoolListPair
      [] kind = "pair" -> PoolPair
      [] kind = "list" -> PoolListAny
      [] kind = "conshead" -> PoolConsHead
      [] kind = "any" -> <<I(1), MkUnit>>
      [] kind = "any1" -> <<I(1)>>

\* wrong-typed constants and non-constant values offered at every position (sequences, not sets:
\* TLC cannot normalise a set whose elements carry differently typed payloads)
ConTerms(cs) == [i \in 1..Len(cs) |-> Con(cs[i])]
WrongFor(kind) ==
    ConTerms(IF kind \in {"int", "ints"} THEN <<MkUnit, MkBs(<<1>>)>>
             ELSE IF kind \in {"any", "any1"} THEN <<>>
             ELSE IF kind = "lint" THEN <<I(1), MkUnit, MkList(TData, <<>>), MkList(TData, <<MkData(DI(0))>>)>>
             ELSE IF kind = "ldata" THEN <<I(1), MkUnit, MkList(TInt, <<I(0)>>), MkList(TInt, <<>>)>>
             ELSE IF kind \in {"lpair", "list", "conshead"} THEN <<I(1), MkUnit>>
             ELSE <<I(1), MkUnit, MkList(TInt, <<I(1)>>)>>)
    \o (IF kind = "any1" THEN <<Lam(Var(1))>> ELSE <<Lam(Var(1)), Delay(Con(I(0))), Bi("addInteger")>>)

ArgTerms(kind) == ConTerms(ConstPool(kind)) \o WrongFor(kind)

Sig(f) ==
    CASE f \in {"addInteger", "subtractInteger", "multiplyInteger", "divideInteger", "quotientInteger",
                "remainderInteger", "modInteger", "equalsInteger", "lessThanInteger",
                "lessThanEqualsInteger"} -> <<"int", "int">>
      [] f \in {"appendByteString", "equalsByteString", "lessThanByteString",
                "lessThanEqualsByteString"} -> <<"bs", "bs">>
      [] f = "consByteString" -> <<"int", "bs">>
      [] f = "sliceByteString" -> <<"ints", "ints", "bs">>
      [] f \in {"lengthOfByteString", "sha2_256", "sha3_256", "blake2b_256", "blake2b_224", "keccak_256",
                "ripemd_160", "decodeUtf8", "complementByteString", "countSetBits", "findFirstSetBit",
                "bls12_381_G1_uncompress", "bls12_381_G2_uncompress"} -> <<"bs">>
      [] f = "indexByteString" -> <<"bs", "int">>
      [] f \in {"verifyEd25519Signature", "verifyEcdsaSecp256k1Signature",
                "verifySchnorrSecp256k1Signature"} -> <<"bs", "bs", "bs">>
      [] f \in {"appendString", "equalsString"} -> <<"str", "str">>
      [] f = "encodeUtf8" -> <<"str">>
      [] f = "ifThenElse" -> <<"bool", "any", "any">>
      [] f = "chooseUnit" -> <<"unit", "any">>
      [] f = "trace" -> <<"str", "any">>
      [] f \in {"fstPair", "sndPair"} -> <<"pair">>
      [] f = "chooseList" -> <<"list", "any", "any">>
      [] f = "mkCons" -> <<"conshead", "list">>
      [] f \in {"headList", "tailList", "nullList"} -> <<"list">>
      [] f = "dropList" -> <<"ints", "list">>
      [] f = "chooseData" -> <<"data", "any1", "any1", "any1", "any1", "any1">>
      [] f = "constrData" -> <<"ints", "ldata">>
      [] f = "mapData" -> <<"lpair">>
      [] f = "listData" -> <<"ldata">>
      [] f = "iData" -> <<"int">>
      [] f = "bData" -> <<"bs">>
      [] f \in {"unConstrData", "unMapData", "unListData", "unIData", "unBData", "serialiseData"} -> <<"data">>
      [] f \in {"equalsData", "mkPairData"} -> <<"data", "data">>
      [] f \in {"mkNilData", "mkNilPairData"} -> <<"unit">>
      [] f = "integerToByteString" -> <<"bool", "int", "int">>
      [] f = "byteStringToInteger" -> <<"bool", "bs">>
      [] f \in {"andByteString", "orByteString", "xorByteString"} -> <<"bool", "bs", "bs">>
      [] f = "readBit" -> <<"bs", "int">>
      [] f = "writeBits" -> <<"bs", "lint", "bool">>
      [] f = "replicateByte" -> <<"int", "int">>
      [] f \in {"shiftByteString", "rotateByteString"} -> <<"bs", "int">>
      [] f = "expModInteger" -> <<"ints", "ints", "ints">>
      [] f \in {"bls12_381_G1_add", "bls12_381_G1_equal", "bls12_381_G2_add", "bls12_381_G2_equal",
                "bls12_381_millerLoop", "bls12_381_mulMlResult", "bls12_381_finalVerify",
                "bls12_381_G1_hashToGroup", "bls12_381_G2_hashToGroup"} -> <<"bs", "bs">>
      [] f \in {"bls12_381_G1_scalarMul", "bls12_381_G2_scalarMul"} -> <<"ints", "bs">>
      [] f \in {"bls12_381_G1_neg", "bls12_381_G1_compress", "bls12_381_G2_neg",
                "bls12_381_G2_compress"} -> <<"bs">>

Groups ==
    [int |-> {"addInteger", "subtractInteger", "multiplyInteger", "divideInteger", "quotientInteger",
              "remainderInteger", "modInteger", "equalsInteger", "lessThanInteger", "lessThanEqualsInteger"},
     bytes |-> {"appendByteString", "equalsByteString", "lessThanByteString", "lessThanEqualsByteString",
                "consByteString", "sliceByteString", "lengthOfByteString", "indexByteString"},
     string |-> {"appendString", "equalsString", "encodeUtf8", "decodeUtf8"},
     poly |-> {"ifThenElse", "chooseUnit", "trace", "fstPair", "sndPair", "chooseList", "mkCons", "headList",
               "tailList", "nullList", "dropList"},
     data |-> {"chooseData", "constrData", "mapData", "listData", "iData", "bData", "unConstrData",
               "unMapData", "unListData", "unIData", "unBData", "equalsData", "mkPairData", "mkNilData",
               "mkNilPairData", "serialiseData"},
     bits |-> {"integerToByteString", "byteStringToInteger", "andByteString", "orByteString", "xorByteString",
               "complementByteString", "readBit", "writeBits", "replicateByte", "shiftByteString",
               "rotateByteString", "countSetBits", "findFirstSetBit", "expModInteger"},
     crypto |-> {"sha2_256", "sha3_256", "blake2b_256", "blake2b_224", "keccak_256", "ripemd_160",
                 "verifyEd25519Signature", "verifyEcdsaSecp256k1Signature", "verifySchnorrSecp256k1Signature",
                 "bls12_381_G1_add", "bls12_381_G1_neg", "bls12_381_G1_scalarMul", "bls12_381_G1_equal",
                 "bls12_381_G1_compress", "bls12_381_G1_uncompress", "bls12_381_G1_hashToGroup",
                 "bls12_381_G2_add", "bls12_381_G2_neg", "bls12_381_G2_scalarMul", "bls12_381_G2_equal",
                 "bls12_381_G2_compress", "bls12_381_G2_uncompress", "bls12_381_G2_hashToGroup",
                 "bls12_381_millerLoop", "bls12_381_mulMlResult", "bls12_381_finalVerify"}]

RECURSIVE IxTuples(_, _)
IxTuples(sig, i) ==     \* all index tuples for positions i..Len(sig) (integers only)
    IF i > Len(sig) THEN {<<>>}
    ELSE {<<a>> \o rest : a \in 1..Len(ArgTerms(sig[i])), rest \in IxTuples(sig, i + 1)}
ArgsAt(sig, ix) == [i \in 1..Len(sig) |-> ArgTerms(sig[i])[ix[i]]]

RECURSIVE ApplyTerms(_, _)
ApplyTerms(t, args) == IF args = <<>> THEN t ELSE ApplyTerms(App(t, args[1]), Tail(args))

ForceChoices(f) ==
    IF ForceSlack
    THEN {n \in {BuiltinForces(f) - 1, BuiltinForces(f), BuiltinForces(f) + 1} : n >= 0}
    ELSE {BuiltinForces(f)}

\* results of one builtin fed to another: an ill-typed list must never be built, so the consumers below never meet one
Consumers == <<Bi("mapData"), Bi("listData"), Force(Bi("headList")), Force(Bi("tailList")), Force(Bi("nullList")),
               App(Force(Bi("dropList")), Con(I(1)))>>
ChainTerm(c, h, l) == App(Consumers[c], App(App(Force(Bi("mkCons")), Con(PoolConsHead[h])), Con(PoolListAny[l])))

VARIABLES st, t0
vars == <<st, t0>>

Init == IF Group = "chains"
        THEN \E c \in 1..Len(Consumers), h \in 1..Len(PoolConsHead), l \in 1..Len(PoolListAny), s \in Sems :
                t0 = ChainTerm(c, h, l) /\ st = InitState(ChainTerm(c, h, l), s)
        ELSE
        \E f \in Groups[Group] : \E ix \in IxTuples(Sig(f), 1) : \E n \in ForceChoices(f) : \E s \in Sems :
            /\ Len(Sig(f)) = BuiltinArity(f)      \* the signature table agrees with the arity table
            /\ t0 = ApplyTerms(ForceN(Bi(f), n), ArgsAt(Sig(f), ix))
            /\ st = InitState(t0, s)

Next == /\ ~Terminal(st)
        /\ st' = Step(st)
        /\ UNCHANGED t0

Spec == Init /\ [][Next]_vars

TypeOK == st.mode \in {"compute", "return", "done", "fail", "unknown"}
CostSane == st.bcpu >= 0 /\ st.bmem >= 0
\* a builtin applied to constants yields a constant or one of its own arguments: results are closed
ResultClosed == st.mode = "done" => Closed(Discharge(st.ctrl), 0)

Emit ==
    Terminal(st) =>
        PrintT(<<"REPLAY", ToJson([term |-> t0, sem |-> st.sem, out |-> Outcome(st),
                                   cost |-> CostOf(st, MachineCostsOf(st.sem)),
                                   steps |-> st.steps, n |-> st.n, logs |-> st.logs])>>)
=============================================================================
