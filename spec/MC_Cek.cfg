SPECIFICATION Spec
CONSTANTS
  N = 1
  Profile = "closure"
  Sems = {"E"}
  OpenVars = 0
  MaxSteps = 300
INVARIANTS TypeOK ScopeSafety StepCount CostSane Emit
CHECK_DEADLOCK FALSE
