SPECIFICATION Spec
CONSTANTS
  N = 6
  Profile = "core"
  Sems = {"E"}
  OpenVars = 0
  MaxSteps = 300
INVARIANTS TypeOK ScopeSafety StepCount CostSane Emit
CHECK_DEADLOCK FALSE
