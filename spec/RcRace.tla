------------------------------- MODULE RcRace -------------------------------
(***************************************************************************)
(* C17: non-atomic reference counts under a parallel test runner.           *)
(*                                                                         *)
(* Workers run tests at the same time.  Each allocation has a strong count  *)
(* that is updated WITHOUT atomicity: cloning or dropping a reference is a  *)
(* read followed by a write.  `Reach` says which worker can touch which     *)
(* allocation; it is not invented: the check derives it from the ownership  *)
(* graph observed through the audit hook right before the tests are handed  *)
(* to the parallel runner (one representative private allocation per test,  *)
(* plus every allocation that is shared between tests or also held outside  *)
(* of them).  TLC explores every interleaving: with pairwise disjoint reach *)
(* sets the counts stay exact on every schedule; a single shared allocation *)
(* admits a schedule that corrupts its count (lost update), which is the    *)
(* replay of the violation.                                                 *)
(***************************************************************************)
EXTENDS Integers, Sequences, FiniteSets, TLC

CONSTANTS Workers,    \* set of workers (tests running at the same time)
          Shared,     \* allocations reachable from EVERY worker (observed sharing); may be empty
          Ops         \* how many clone / drop operations each worker performs

\* every worker also has one private allocation, named after the worker
Allocs == Workers \cup Shared
Reach == {p \in Workers \X Allocs : p[2] = p[1] \/ p[2] \in Shared}

VARIABLES count,      \* allocation -> strong count as stored
          held,       \* <<worker, allocation>> -> references the worker holds
          pc,         \* worker -> "idle" | "read"
          tmp,        \* worker -> [a, v, op] of the operation in progress
          done,       \* worker -> operations completed
          freed       \* allocations whose count reached zero
vars == <<count, held, pc, tmp, done, freed>>

Initial(a) == Cardinality({w \in Workers : <<w, a>> \in Reach})

Init == /\ count = [a \in Allocs |-> Initial(a)]
        /\ held = [p \in Workers \X Allocs |-> IF p \in Reach THEN 1 ELSE 0]
        /\ pc = [w \in Workers |-> "idle"]
        /\ tmp = [w \in Workers |-> [a |-> CHOOSE a \in Allocs : TRUE, v |-> 0, op |-> "none"]]
        /\ done = [w \in Workers |-> 0]
        /\ freed = {}

\* first half of clone / drop: read the count
Begin(w, a, op) ==
    /\ pc[w] = "idle" /\ done[w] < Ops /\ <<w, a>> \in Reach /\ held[<<w, a>>] > 0
    /\ pc' = [pc EXCEPT ![w] = "read"]
    /\ tmp' = [tmp EXCEPT ![w] = [a |-> a, v |-> count[a], op |-> op]]
    /\ UNCHANGED <<count, held, done, freed>>

\* second half: write it back, incremented or decremented
Finish(w) ==
    /\ pc[w] = "read"
    /\ LET a == tmp[w].a
           v == IF tmp[w].op = "clone" THEN tmp[w].v + 1 ELSE tmp[w].v - 1
       IN  /\ count' = [count EXCEPT ![a] = v]
           /\ held' = [held EXCEPT ![<<w, a>>] = IF tmp[w].op = "clone" THEN @ + 1 ELSE @ - 1]
           /\ freed' = IF v = 0 THEN freed \cup {a} ELSE freed
    /\ pc' = [pc EXCEPT ![w] = "idle"]
    /\ done' = [done EXCEPT ![w] = @ + 1]
    /\ UNCHANGED tmp

Next == \/ \E w \in Workers, a \in Allocs, op \in {"clone", "drop"} : Begin(w, a, op)
        \/ \E w \in Workers : Finish(w)

Spec == Init /\ [][Next]_vars

Quiet == \A w \in Workers : pc[w] = "idle"
RECURSIVE SumHeld(_, _)
SumHeld(ws, a) == IF ws = {} THEN 0 ELSE LET w == CHOOSE x \in ws : TRUE IN held[<<w, a>>] + SumHeld(ws \ {w}, a)
Live(a) == SumHeld({w \in Workers : <<w, a>> \in Reach}, a)

\* whenever no update is in flight, the stored count is the number of live references
CountsExact == Quiet => \A a \in Allocs : count[a] = Live(a)
\* nothing is freed while somebody still holds a reference to it
NoUseAfterFree == \A a \in freed : Live(a) = 0
=============================================================================
