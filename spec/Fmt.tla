-------------------------------- MODULE Fmt ---------------------------------
(***************************************************************************)
(* C13: the part of Aiken's surface syntax where formatting decisions are   *)
(* semantic: operator expressions.                                          *)
(*   binary operators, by increasing precedence:                            *)
(*       ||  (2, right)   &&  (3, right)                                    *)
(*       == != < <= > >=  (4, left)                                         *)
(*       + -  (6, left)   * / %  (7, left)                                  *)
(*   prefix operators ! and - bind tighter than every binary operator;       *)
(*   a |> b |> c  is an n-ary pipeline binding looser than everything.       *)
(* Trees:  [k:"v",x] | [k:"un",op,e] | [k:"bin",op,l,r] | [k:"pipe",es]      *)
(* Min(e) writes the tokens with the FEWEST parentheses that preserve the  *)
(* tree; Full(e) parenthesises every composite operand; Parse is precedence  *)
(* climbing over the token sequence.  TLC checks Parse(Min(e)) = e and     *)
(* Parse(Full(e)) = e on every tree of the bound, so the two renderings it   *)
(* hands to the real parser are known to denote the tree.                    *)
(***************************************************************************)
EXTENDS Integers, Sequences, FiniteSets, TLC

(***************************************************************************)
(* Calls, constructors and captures (added after the first defects were     *)
(* found there):                                                            *)
(*   [k:"call", f, args]   args: sequence of [l: label or "", v: tree]       *)
(*   Hole                  the capture hole `_` (at most one per call)       *)
(* A name starting with an upper-case letter is a constructor.  A            *)
(* constructor whose arguments are ALL labelled is written with curly braces *)
(* and only parses that way; `l: l` is written `l` there (punning).          *)
(* Everything else takes parentheses; a constructor without arguments takes  *)
(* nothing.  Labels are never dropped: a label decides which parameter an    *)
(* argument (or the hole) stands for.                                       *)
(***************************************************************************)
V(x) == [k |-> "v", x |-> x]
Hole == [k |-> "hole"]
Call(f, args) == [k |-> "call", f |-> f, args |-> args]
Arg(l, v) == [l |-> l, v |-> v]
IsCons(f) == f \in {"Foo", "Bar"}
AllLabelled(args) == Len(args) > 0 /\ \A i \in 1..Len(args) : args[i].l # ""
Curly(t) == IsCons(t.f) /\ AllLabelled(t.args)
Un(op, e) == [k |-> "un", op |-> op, e |-> e]
Bin(op, l, r) == [k |-> "bin", op |-> op, l |-> l, r |-> r]
Pipe(es) == [k |-> "pipe", es |-> es]

Prec(op) ==
    CASE op = "||" -> 2
      [] op = "&&" -> 3
      [] op \in {"==", "!=", "<", "<=", ">", ">="} -> 4
      [] op \in {"+", "-"} -> 6
      [] op \in {"*", "/", "%"} -> 7
RightAssoc(op) == op \in {"||", "&&"}
BinOps == {"||", "&&", "==", "!=", "<", "<=", ">", ">=", "+", "-", "*", "/", "%"}

\* precedence of a tree when it stands as an operand
PrecOf(e) == CASE e.k = "un" -> 8 [] e.k = "bin" -> Prec(e.op) [] e.k = "pipe" -> 0 [] OTHER -> 9

RECURSIVE Min(_), Full(_), MinSeq(_, _), MinArgs(_, _, _), FullArgs(_, _, _)
Paren(ts) == <<"(">> \o ts \o <<")">>
\* operand of a binary operator: side is "l" or "r"
Operand(e, op, side) ==
    LET p == PrecOf(e)
        need == \/ p < Prec(op)
                \/ p = Prec(op) /\ ((side = "l" /\ RightAssoc(op)) \/ (side = "r" /\ ~RightAssoc(op)))
    IN  IF need THEN Paren(Min(e)) ELSE Min(e)
MinSeq(es, i) ==
    IF i > Len(es) THEN <<>>
    ELSE (IF i > 1 THEN <<"|>">> ELSE <<>>)
         \o (IF es[i].k = "pipe" THEN Paren(Min(es[i])) ELSE Min(es[i])) \o MinSeq(es, i + 1)
\* arguments, comma separated; in curly form `l: l` is punned
MinArgs(args, i, curly) ==
    IF i > Len(args) THEN <<>>
    ELSE (IF i > 1 THEN <<",">> ELSE <<>>)
         \o (IF args[i].l = "" THEN Min(args[i].v)
             ELSE IF curly /\ args[i].v = V(args[i].l) THEN <<args[i].l>>
             ELSE <<args[i].l, ":">> \o Min(args[i].v))
         \o MinArgs(args, i + 1, curly)
FullArgs(args, i, curly) ==
    IF i > Len(args) THEN <<>>
    ELSE (IF i > 1 THEN <<",">> ELSE <<>>)
         \o (IF args[i].l = "" THEN <<>> ELSE <<args[i].l, ":">>)
         \o (IF args[i].v.k \in {"v", "hole", "call"} THEN Full(args[i].v) ELSE Paren(Full(args[i].v)))
         \o FullArgs(args, i + 1, curly)
Min(e) ==
    CASE e.k = "v"    -> <<e.x>>
      [] e.k = "hole" -> <<"_">>
      [] e.k = "call" -> IF Curly(e) THEN <<e.f, "{">> \o MinArgs(e.args, 1, TRUE) \o <<"}">>
                         ELSE IF IsCons(e.f) /\ Len(e.args) = 0 THEN <<e.f>>
                         ELSE <<e.f, "(">> \o MinArgs(e.args, 1, FALSE) \o <<")">>
      [] e.k = "un"   -> <<e.op>> \o (IF PrecOf(e.e) < 8 THEN Paren(Min(e.e)) ELSE Min(e.e))
      [] e.k = "bin"  -> Operand(e.l, e.op, "l") \o <<e.op>> \o Operand(e.r, e.op, "r")
      [] e.k = "pipe" -> MinSeq(e.es, 1)

RECURSIVE FullSeq(_, _)
FullOperand(e) == IF e.k \in {"v", "call"} THEN Full(e) ELSE Paren(Full(e))
FullSeq(es, i) == IF i > Len(es) THEN <<>> ELSE (IF i > 1 THEN <<"|>">> ELSE <<>>) \o FullOperand(es[i]) \o FullSeq(es, i + 1)
Full(e) ==
    CASE e.k = "v"    -> <<e.x>>
      [] e.k = "hole" -> <<"_">>
      [] e.k = "call" -> IF Curly(e) THEN <<e.f, "{">> \o FullArgs(e.args, 1, TRUE) \o <<"}">>
                         ELSE IF IsCons(e.f) /\ Len(e.args) = 0 THEN <<e.f>>
                         ELSE <<e.f, "(">> \o FullArgs(e.args, 1, FALSE) \o <<")">>
      [] e.k = "un"   -> <<e.op>> \o FullOperand(e.e)
      [] e.k = "bin"  -> FullOperand(e.l) \o <<e.op>> \o FullOperand(e.r)
      [] e.k = "pipe" -> FullSeq(e.es, 1)

(***************************************************************************)
(* Parse: precedence climbing.  A parser state is [ts, i]; results [e, i].  *)
(* Prefix minus is written "neg" by the printers so that tokens are          *)
(* unambiguous for this little parser (the harness prints "-").              *)
(***************************************************************************)
IsBin(t) == t \in BinOps
RECURSIVE ParsePipe(_, _), ParseBin(_, _, _), ParseUnary(_, _), ParseLoop(_, _, _, _), ParsePipeRest(_, _, _), ParseArgs(_, _, _, _)
\* arguments up to the closing token; `x :` starts a labelled argument, a lone name before `,` / `}` in curly form is punned
ParseArgs(ts, i, close, acc) ==
    IF ts[i] = close THEN [args |-> acc, i |-> i + 1]
    ELSE IF ts[i] = "," THEN ParseArgs(ts, i + 1, close, acc)
    ELSE IF i + 1 <= Len(ts) /\ ts[i + 1] = ":" THEN
        LET r == IF ts[i + 2] = "_" THEN [e |-> Hole, i |-> i + 3] ELSE ParsePipe(ts, i + 2)
        IN  ParseArgs(ts, r.i, close, Append(acc, Arg(ts[i], r.e)))
    ELSE IF close = "}" THEN ParseArgs(ts, i + 1, close, Append(acc, Arg(ts[i], V(ts[i]))))
    ELSE LET r == IF ts[i] = "_" THEN [e |-> Hole, i |-> i + 1] ELSE ParsePipe(ts, i)
         IN  ParseArgs(ts, r.i, close, Append(acc, Arg("", r.e)))
ParseAtom(ts, i) ==
    IF ts[i] = "(" THEN LET r == ParsePipe(ts, i + 1) IN [e |-> r.e, i |-> r.i + 1]      \* skip ")"
    ELSE IF i + 1 <= Len(ts) /\ ts[i + 1] = "(" /\ ts[i] \notin BinOps \cup {"!", "neg", "|>", "(", ","}
         THEN LET r == ParseArgs(ts, i + 2, ")", <<>>) IN [e |-> Call(ts[i], r.args), i |-> r.i]
    ELSE IF i + 1 <= Len(ts) /\ ts[i + 1] = "{"
         THEN LET r == ParseArgs(ts, i + 2, "}", <<>>) IN [e |-> Call(ts[i], r.args), i |-> r.i]
    ELSE IF IsCons(ts[i]) THEN [e |-> Call(ts[i], <<>>), i |-> i + 1]
    ELSE [e |-> V(ts[i]), i |-> i + 1]
ParseUnary(ts, i) ==
    IF ts[i] \in {"!", "neg"} THEN LET r == ParseUnary(ts, i + 1) IN [e |-> Un(ts[i], r.e), i |-> r.i]
    ELSE ParseAtom(ts, i)
\* parse operators of precedence >= minp
ParseLoop(ts, left, i, minp) ==
    IF i <= Len(ts) /\ IsBin(ts[i]) /\ Prec(ts[i]) >= minp THEN
        LET op == ts[i]
            r  == ParseBin(ts, i + 1, IF RightAssoc(op) THEN Prec(op) ELSE Prec(op) + 1)
        IN  ParseLoop(ts, Bin(op, left, r.e), r.i, minp)
    ELSE [e |-> left, i |-> i]
ParseBin(ts, i, minp) == LET u == ParseUnary(ts, i) IN ParseLoop(ts, u.e, u.i, minp)
ParsePipeRest(ts, acc, i) ==
    IF i <= Len(ts) /\ ts[i] = "|>" THEN LET r == ParseBin(ts, i + 1, 1) IN ParsePipeRest(ts, Append(acc, r.e), r.i)
    ELSE [e |-> IF Len(acc) = 1 THEN acc[1] ELSE Pipe(acc), i |-> i]
\* a parenthesised pipeline in first position continues as the same pipeline (parentheses leave no node behind)
ParsePipe(ts, i) == LET r == ParseBin(ts, i, 1) IN ParsePipeRest(ts, IF r.e.k = "pipe" THEN r.e.es ELSE <<r.e>>, r.i)
Parse(ts) == ParsePipe(ts, 1).e
=============================================================================
