-------------------------------- MODULE Fmt ---------------------------------
(***************************************************************************)
(* C13: the part of Aiken's surface syntax where formatting decisions are   *)
(* semantic: operator expressions.                                          *)
(*   binary operators, by increasing precedence:                            *)
(*       ||  (2, right)   &&  (3, right)                                    *)
(*       == != < <= > >=  (4, left)                                         *)
(*       + -  (6, left)   * / %  (7, left)                                  *)
(*   prefix operators ! and - bind tighter than every binary operator;       *)
(*   a |> b |> c  is an n-ary pipeline binding looser than everything.       *)
(* Trees:  [k:"v",x] | [k:"un",op,e] | [k:"bin",op,l,r] | [k:"pipe",es]      *)
(* Min(e) writes the tokens with the FEWEST parentheses that preserve the  *)
(* tree; Full(e) parenthesises every composite operand; Parse is precedence  *)
(* climbing over the token sequence.  TLC checks Parse(Min(e)) = e and     *)
(* Parse(Full(e)) = e on every tree of the bound, so the two renderings it   *)
(* hands to the real parser are known to denote the tree.                    *)
(***************************************************************************)
EXTENDS Integers, Sequences, FiniteSets, TLC

V(x) == [k |-> "v", x |-> x]
Un(op, e) == [k |-> "un", op |-> op, e |-> e]
Bin(op, l, r) == [k |-> "bin", op |-> op, l |-> l, r |-> r]
Pipe(es) == [k |-> "pipe", es |-> es]

Prec(op) ==
    CASE op = "||" -> 2
      [] op = "&&" -> 3
      [] op \in {"==", "!=", "<", "<=", ">", ">="} -> 4
      [] op \in {"+", "-"} -> 6
      [] op \in {"*", "/", "%"} -> 7
RightAssoc(op) == op \in {"||", "&&"}
BinOps == {"||", "&&", "==", "!=", "<", "<=", ">", ">=", "+", "-", "*", "/", "%"}

\* precedence of a tree when it stands as an operand
PrecOf(e) == CASE e.k = "v" -> 9 [] e.k = "un" -> 8 [] e.k = "bin" -> Prec(e.op) [] e.k = "pipe" -> 0

RECURSIVE Min(_), Full(_), MinSeq(_, _)
Paren(ts) == <<"(">> \o ts \o <<")">>
\* operand of a binary operator: side is "l" or "r"
Operand(e, op, side) ==
    LET p == PrecOf(e)
        need == \/ p < Prec(op)
                \/ p = Prec(op) /\ ((side = "l" /\ RightAssoc(op)) \/ (side = "r" /\ ~RightAssoc(op)))
    IN  IF need THEN Paren(Min(e)) ELSE Min(e)
MinSeq(es, i) ==
    IF i > Len(es) THEN <<>>
    ELSE (IF i > 1 THEN <<"|>">> ELSE <<>>)
         \o (IF es[i].k = "pipe" THEN Paren(Min(es[i])) ELSE Min(es[i])) \o MinSeq(es, i + 1)
Min(e) ==
    CASE e.k = "v"    -> <<e.x>>
      [] e.k = "un"   -> <<e.op>> \o (IF PrecOf(e.e) < 8 THEN Paren(Min(e.e)) ELSE Min(e.e))
      [] e.k = "bin"  -> Operand(e.l, e.op, "l") \o <<e.op>> \o Operand(e.r, e.op, "r")
      [] e.k = "pipe" -> MinSeq(e.es, 1)

RECURSIVE FullSeq(_, _)
FullOperand(e) == IF e.k = "v" THEN Full(e) ELSE Paren(Full(e))
FullSeq(es, i) == IF i > Len(es) THEN <<>> ELSE (IF i > 1 THEN <<"|>">> ELSE <<>>) \o FullOperand(es[i]) \o FullSeq(es, i + 1)
Full(e) ==
    CASE e.k = "v"    -> <<e.x>>
      [] e.k = "un"   -> <<e.op>> \o FullOperand(e.e)
      [] e.k = "bin"  -> FullOperand(e.l) \o <<e.op>> \o FullOperand(e.r)
      [] e.k = "pipe" -> FullSeq(e.es, 1)

(***************************************************************************)
(* Parse: precedence climbing.  A parser state is [ts, i]; results [e, i].  *)
(* Prefix minus is written "neg" by the printers so that tokens are          *)
(* unambiguous for this little parser (the harness prints "-").              *)
(***************************************************************************)
IsBin(t) == t \in BinOps
RECURSIVE ParsePipe(_, _), ParseBin(_, _, _), ParseUnary(_, _), ParseLoop(_, _, _, _), ParsePipeRest(_, _, _)
ParseAtom(ts, i) ==
    IF ts[i] = "(" THEN LET r == ParsePipe(ts, i + 1) IN [e |-> r.e, i |-> r.i + 1]      \* skip ")"
    ELSE [e |-> V(ts[i]), i |-> i + 1]
ParseUnary(ts, i) ==
    IF ts[i] \in {"!", "neg"} THEN LET r == ParseUnary(ts, i + 1) IN [e |-> Un(ts[i], r.e), i |-> r.i]
    ELSE ParseAtom(ts, i)
\* parse operators of precedence >= minp
ParseLoop(ts, left, i, minp) ==
    IF i <= Len(ts) /\ IsBin(ts[i]) /\ Prec(ts[i]) >= minp THEN
        LET op == ts[i]
            r  == ParseBin(ts, i + 1, IF RightAssoc(op) THEN Prec(op) ELSE Prec(op) + 1)
        IN  ParseLoop(ts, Bin(op, left, r.e), r.i, minp)
    ELSE [e |-> left, i |-> i]
ParseBin(ts, i, minp) == LET u == ParseUnary(ts, i) IN ParseLoop(ts, u.e, u.i, minp)
ParsePipeRest(ts, acc, i) ==
    IF i <= Len(ts) /\ ts[i] = "|>" THEN LET r == ParseBin(ts, i + 1, 1) IN ParsePipeRest(ts, Append(acc, r.e), r.i)
    ELSE [e |-> IF Len(acc) = 1 THEN acc[1] ELSE Pipe(acc), i |-> i]
\* a parenthesised pipeline in first position continues as the same pipeline (parentheses leave no node behind)
ParsePipe(ts, i) == LET r == ParseBin(ts, i, 1) IN ParsePipeRest(ts, IF r.e.k = "pipe" THEN r.e.es ELSE <<r.e>>, r.i)
Parse(ts) == ParsePipe(ts, 1).e
=============================================================================
