---------------------------- MODULE MC_AikenExpr ----------------------------
(***************************************************************************)
(* Exhaustively enumerated operator families of the Aiken expression        *)
(* language: every expression of a small grammar, evaluated by Aiken.tla's  *)
(* Eval on every point of an argument grid (negative / zero / positive      *)
(* operands, so that floor division and modulo sign cases, division by      *)
(* zero and short-circuiting over an aborting operand all occur).  Each     *)
(* expression with its expected results is one REPLAY line; the harness     *)
(* compiles it with the real compiler and runs it on the same grid (C01).   *)
(***************************************************************************)
EXTENDS Aiken, Json

CONSTANTS Family, Depth

X == [k |-> "var", x |-> "x"]
Y == [k |-> "var", x |-> "y"]
P == [k |-> "var", x |-> "p"]
I(n) == [k |-> "int", n |-> n]
N(n) == [k |-> "neg", e |-> I(n)]
Bo(b) == [k |-> "bool", b |-> b]
Bin(op, l, r) == [k |-> "binop", op |-> op, l |-> l, r |-> r]
Not(e) == [k |-> "not", e |-> e]
If(c, t, e) == [k |-> "if", c |-> c, t |-> t, e |-> e]

ArithOps == {"+", "-", "*", "/", "%"}
CmpOps == {"<", "<=", ">", ">=", "==", "!="}

IntLeaves == {X, Y, I(0), I(2), N(3)}
Int1 == IntLeaves \cup {Bin(op, a, b) : op \in ArithOps, a \in IntLeaves, b \in IntLeaves}
Int2 == Int1 \cup {Bin(op, a, b) : op \in ArithOps, a \in Int1 \ IntLeaves, b \in IntLeaves}
             \cup {Bin(op, a, b) : op \in ArithOps, a \in IntLeaves, b \in Int1 \ IntLeaves}

\* an operand that aborts for x = 0 / y = 0: short-circuiting must (not) skip it
Risky == {Bin(">", Bin("/", I(7), X), I(0)), Bin("==", Bin("%", X, Y), I(1))}
BoolLeaves == {P, Bo(TRUE), Bo(FALSE), Bin("<", X, Y)} \cup Risky
Bool1 == BoolLeaves \cup {Bin(op, a, b) : op \in {"&&", "||"}, a \in BoolLeaves, b \in BoolLeaves}
                    \cup {Not(a) : a \in BoolLeaves}
                    \cup {[k |-> "and", es |-> <<a, b, P>>] : a \in Risky, b \in {Bo(FALSE), P}}
                    \cup {[k |-> "or", es |-> <<a, b, P>>] : a \in {Bo(TRUE), P}, b \in Risky}
Bool2 == Bool1 \cup {Bin(op, a, b) : op \in {"&&", "||"}, a \in Bool1 \ BoolLeaves, b \in BoolLeaves}
               \cup {Bin(op, a, b) : op \in {"&&", "||"}, a \in BoolLeaves, b \in Bool1 \ BoolLeaves}
               \cup {Not(a) : a \in Bool1 \ BoolLeaves}

Cmp == {Bin(op, a, b) : op \in CmpOps, a \in Int1, b \in IntLeaves}
       \cup {Bin(op, a, b) : op \in {"==", "!="}, a \in {P, Bo(TRUE)}, b \in BoolLeaves}

Mixed == {If(c, a, b) : c \in BoolLeaves, a \in Int1 \ IntLeaves, b \in IntLeaves}
         \cup {Bin(op, If(c, a, b), d) : op \in {"+", "/"}, c \in {P} \cup Risky, a \in IntLeaves, b \in IntLeaves, d \in {X, I(2)}}
         \cup {[k |-> "let", x |-> "z", e |-> a, body |-> If(c, [k |-> "var", x |-> "z"], b)] :
                    a \in Int1 \ IntLeaves, c \in {P, Bo(FALSE), Bin("<", X, Y)}, b \in {I(2), Y}}
         \cup {[k |-> "letu", x |-> "z", e |-> a, body |-> b] : a \in Int1 \ IntLeaves, b \in {I(2), X}}

Universe ==
    CASE Family = "arith" -> [ty |-> "Int", es |-> IF Depth >= 2 THEN Int2 ELSE Int1]
      [] Family = "bool"  -> [ty |-> "Bool", es |-> IF Depth >= 2 THEN Bool2 ELSE Bool1]
      [] Family = "cmp"   -> [ty |-> "Bool", es |-> Cmp]
      [] Family = "mixed" -> [ty |-> "Int", es |-> Mixed]

GridVals == <<0 - 7, 0 - 2, 0, 3>>
Grid == [i \in 1..32 |-> <<GridVals[((i - 1) \div 8) + 1], GridVals[(((i - 1) \div 2) % 4) + 1], (i % 2) = 0>>]

M0 == [types |-> [x \in {} |-> 0], fns |-> [x \in {} |-> 0]]
EnvOf(g) == [v \in {"x", "y", "p"} |-> IF v = "x" THEN VInt(g[1]) ELSE IF v = "y" THEN VInt(g[2]) ELSE VBool(g[3])]

Res(e, g) == Eval(M0, EnvOf(g), e, 10)
\* what the harness compares with: "abort", an integer or a boolean
Shown(r) == IF r.r # "ok" THEN r.r ELSE IF r.v.v = "int" THEN r.v.n ELSE r.v.b

VARIABLES e0
Init == e0 \in Universe.es
Next == UNCHANGED e0
Spec == Init /\ [][Next]_e0

\* the definitional interpreter never gets stuck inside these (well-typed) families
Sane == \A i \in 1..32 : Res(e0, Grid[i]).r # "unknown"

Emit == PrintT(<<"REPLAY", ToJson([e |-> e0, ty |-> Universe.ty, grid |-> Grid,
                                   exp |-> [i \in 1..32 |-> Shown(Res(e0, Grid[i]))]])>>)
=============================================================================
