---------------------------- MODULE MC_DeBruijn -----------------------------
(***************************************************************************)
(* All named terms with at most N nodes over Uniques x Texts (closed and    *)
(* open, with shadowing, duplicate uniques under different texts, binders   *)
(* under delay / constr / case) and all de Bruijn terms with indices        *)
(* 0..depth+1.  TLC checks the transcribed converter against the reference  *)
(* and prints one REPLAY line per term with the expected conversion.        *)
(***************************************************************************)
EXTENDS DeBruijn, Json

CONSTANTS N, Uniques, Texts, Side   \* Side: "named" | "db"

Names == {[t |-> x, u |-> u] : x \in Texts, u \in Uniques}
MaxDepth == 3

PairsL(n, prev) == UNION {{<<a, b>> : a \in prev[i], b \in prev[n - i]} : i \in 1..(n - 1)}
BuildN(n, prev) ==
    IF n > N THEN {}
    ELSE {NLam(m, b) : m \in Names, b \in prev[n - 1]}
         \cup {Delay(b) : b \in prev[n - 1]}
         \cup {App(p[1], p[2]) : p \in PairsL(n - 1, prev)}
         \cup {Constr(0, <<b>>) : b \in prev[n - 1]}
         \cup {Case(p[1], <<p[2]>>) : p \in PairsL(n - 1, prev)}
NL1 == {NVar(m) : m \in Names} \cup {Unit}
NL2 == BuildN(2, <<NL1>>)
NL3 == BuildN(3, <<NL1, NL2>>)
NL4 == BuildN(4, <<NL1, NL2, NL3>>)
NL5 == BuildN(5, <<NL1, NL2, NL3, NL4>>)
NL6 == BuildN(6, <<NL1, NL2, NL3, NL4, NL5>>)
NTerms(n) == CASE n = 1 -> NL1 [] n = 2 -> NL2 [] n = 3 -> NL3 [] n = 4 -> NL4 [] n = 5 -> NL5 [] n = 6 -> NL6

BuildD(n, prev) ==
    IF n > N THEN {}
    ELSE {DLam(b) : b \in prev[n - 1]}
         \cup {Delay(b) : b \in prev[n - 1]}
         \cup {App(p[1], p[2]) : p \in PairsL(n - 1, prev)}
         \cup {Constr(0, <<b>>) : b \in prev[n - 1]}
         \cup {Case(p[1], <<p[2]>>) : p \in PairsL(n - 1, prev)}
DL1 == {DVar(i) : i \in 0..(MaxDepth + 1)} \cup {Unit}
DL2 == BuildD(2, <<DL1>>)
DL3 == BuildD(3, <<DL1, DL2>>)
DL4 == BuildD(4, <<DL1, DL2, DL3>>)
DL5 == BuildD(5, <<DL1, DL2, DL3, DL4>>)
DL6 == BuildD(6, <<DL1, DL2, DL3, DL4, DL5>>)
DTerms(n) == CASE n = 1 -> DL1 [] n = 2 -> DL2 [] n = 3 -> DL3 [] n = 4 -> DL4 [] n = 5 -> DL5 [] n = 6 -> DL6

VARIABLES t0
Init == \E n \in 1..N : t0 \in (IF Side = "named" THEN NTerms(n) ELSE DTerms(n))
Next == UNCHANGED t0
Spec == Init /\ [][Next]_t0

\* the code-shaped scope stack computes the reference resolution, rejects exactly the open terms,
\* and leaves the stack balanced
ConverterRefinesReference ==
    (Side = "named") =>
        LET r == Conv(t0, Conv0) IN
        /\ r.ok = ~IsOpen(t0, <<>>)
        /\ r.ok => (r.t = ToDB(t0, <<>>) /\ r.s = Conv0)

\* de Bruijn -> canonical names -> de Bruijn is the identity on closed terms
ThereAndBack ==
    (Side = "db" /\ ~DBOpen(t0, 0)) => ToDB(Canon(t0, 0), <<>>) = t0

\* conversion of a closed term gives a closed term
ClosedStaysClosed ==
    (Side = "named" /\ ~IsOpen(t0, <<>>)) => ~DBOpen(ToDB(t0, <<>>), 0)

Emit ==
    PrintT(<<"REPLAY",
             ToJson(IF Side = "named"
                    THEN [side |-> "named", term |-> t0, open |-> IsOpen(t0, <<>>),
                          db |-> IF IsOpen(t0, <<>>) THEN Unit ELSE ToDB(t0, <<>>)]
                    ELSE [side |-> "db", term |-> t0, open |-> DBOpen(t0, 0), db |-> t0])>>)
=============================================================================
