----------------------------- MODULE Obs_Aiken ------------------------------
(***************************************************************************)
(* Observation validation for compiled Aiken code (C01 / C06 / C14).        *)
(* Each line of IOEnv.TRACE is one run of a compiled function recorded from *)
(* the real tool-chain:                                                     *)
(*   {"id", "m": module AST, "f": function, "sig": [types], "ret": type,    *)
(*    "args": [Data], "out": {"o":"val","d":Data} | {"o":"fail","c":class}} *)
(* The event is accepted iff the recorded outcome is Eval's.                *)
(***************************************************************************)
EXTENDS Aiken, Json, IOUtils

Rec == ndJsonDeserialize(IOEnv.TRACE)
Fuel == 60

RECURSIVE DataEq(_, _), DataSeqEq(_, _), DataMapEq(_, _)
DataSeqEq(a, b) == Len(a) = Len(b) /\ \A i \in 1..Len(a) : DataEq(a[i], b[i])
DataMapEq(a, b) == Len(a) = Len(b) /\
                   \A i \in 1..Len(a) : DataEq(a[i][1], b[i][1]) /\ DataEq(a[i][2], b[i][2])
DataEq(a, b) ==
    a.d = b.d /\
    CASE a.d = "I" -> a.v = b.v
      [] a.d = "B" -> a.v = b.v
      [] a.d = "L" -> DataSeqEq(a.v, b.v)
      [] a.d = "M" -> DataMapEq(a.v, b.v)
      [] a.d = "C" -> a.tag = b.tag /\ DataSeqEq(a.fs, b.fs)

VARIABLES l, bad, skipped, okc
vars == <<l, bad, skipped, okc>>

V(c, why) == [c |-> c, why |-> why]

Verdict(e) ==
    LET r == RunFn(e.m, e.f, e.sig, e.args, Fuel) IN
    IF r.r = "unknown" THEN V("skip", "unknown")
    ELSE IF r.r = "abort" THEN
        (IF e.out.o = "fail" THEN V("ok", "") ELSE V("bad", "source semantics aborts, compiled code returned a value"))
    ELSE IF e.out.o # "val" THEN V("bad", "source semantics returns a value, compiled code failed")
    ELSE IF "d" \notin DOMAIN e.out THEN V("bad", "compiled code did not return Data")
    ELSE IF DataEq(ToData(e.m.types, e.ret, r.v), e.out.d) THEN V("ok", "")
    ELSE V("bad", "value differs")

Init == l = 1 /\ bad = <<>> /\ skipped = <<>> /\ okc = 0

Judge ==
    /\ l <= Len(Rec)
    /\ LET v == Verdict(Rec[l]) IN
        /\ bad' = IF v.c = "bad" THEN Append(bad, <<l, v.why>>) ELSE bad
        /\ skipped' = IF v.c = "skip" THEN Append(skipped, <<l, v.why>>) ELSE skipped
        /\ okc' = IF v.c = "ok" THEN okc + 1 ELSE okc
    /\ l' = l + 1

Finish ==
    /\ l = Len(Rec) + 1
    /\ PrintT(<<"OBSRESULT", ToJson([n |-> Len(Rec), ok |-> okc, bad |-> bad, skipped |-> skipped])>>)
    /\ l' = l + 1
    /\ UNCHANGED <<bad, skipped, okc>>

Next == Judge \/ Finish
Spec == Init /\ [][Next]_vars
=============================================================================
