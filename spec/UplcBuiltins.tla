---------------------------- MODULE UplcBuiltins ----------------------------
(***************************************************************************)
(* Built-in types, constants and functions of Untyped Plutus Core:          *)
(* arity / force discipline, denotations, size measures and costing.        *)
(*                                                                         *)
(* Denotations are written from the Plutus Core specification (built-in     *)
(* functions batches 1-6, CIP-121/122/123 for conversions, logical and      *)
(* bitwise operations), NOT from runtime.rs. What TLC cannot compute        *)
(* (hashes, signatures, BLS, numbers beyond 2^30) answers "unknown": the    *)
(* checks skip and count such cases, they never judge them.                 *)
(*                                                                         *)
(* Integers: [t |-> "int", v |-> n] with |n| < 2^30, or a SYMBOLIC HUGE      *)
(* integer [t |-> "int", v |-> 0, hs |-> s, hr |-> r] standing for           *)
(* s * (V + r), V = 2^70 * 720720, 0 <= r < 2^20, s \in {1,-1}: beyond       *)
(* u64 / i64 / i128-as-index ranges, needs 2 machine words, and V is         *)
(* divisible by 8*len for every len <= 16 and by 256.                        *)
(***************************************************************************)
EXTENDS Integers, Sequences, FiniteSets, TLC, UplcCostTable

Lim == 1073741824   \* 2^30

Abs(n) == IF n < 0 THEN 0 - n ELSE n
Min2(a, b) == IF a < b THEN a ELSE b
Max2(a, b) == IF a > b THEN a ELSE b
FloorDiv(a, b) == IF b > 0 THEN a \div b ELSE (0 - a) \div (0 - b)
FloorMod(a, b) == a - b * FloorDiv(a, b)
Quot(a, b) == LET q == Abs(a) \div Abs(b) IN IF (a < 0) # (b < 0) THEN 0 - q ELSE q
Rem(a, b) == a - b * Quot(a, b)

RECURSIVE Pow2(_)
Pow2(n) == IF n = 0 THEN 1 ELSE 2 * Pow2(n - 1)

(***************************************************************************)
(* Types and constants                                                      *)
(***************************************************************************)
TInt  == [t |-> "int"]
TBs   == [t |-> "bs"]
TStr  == [t |-> "str"]
TUnit == [t |-> "unit"]
TBool == [t |-> "bool"]
TData == [t |-> "data"]
TList(e)    == [t |-> "list", e |-> e]
TPair(a, b) == [t |-> "pair", a |-> a, b |-> b]

MkInt(n)      == [t |-> "int", v |-> n]
MkHuge(s, r)  == [t |-> "int", v |-> 0, hs |-> s, hr |-> r]
MkBs(b)       == [t |-> "bs", v |-> b]
MkStr(s)      == [t |-> "str", v |-> s]
MkUnit        == [t |-> "unit"]
MkBool(b)     == [t |-> "bool", v |-> b]
MkList(et, xs) == [t |-> "list", et |-> et, v |-> xs]
MkPair(ft, st, f, s) == [t |-> "pair", ft |-> ft, st |-> st, f |-> f, s |-> s]
MkData(d)     == [t |-> "data", v |-> d]

IsHuge(c) == "hs" \in DOMAIN c

TypeOf(c) ==
    CASE c.t = "list" -> TList(c.et)
      [] c.t = "pair" -> TPair(c.ft, c.st)
      [] OTHER -> [t |-> c.t]

\* Data
DI(n)        == [d |-> "I", v |-> n]
DIHuge(s, r) == [d |-> "I", v |-> 0, hs |-> s, hr |-> r]
DB(b)        == [d |-> "B", v |-> b]
DL(xs)       == [d |-> "L", v |-> xs]
DM(kvs)      == [d |-> "M", v |-> kvs]
DC(tag, fs)  == [d |-> "C", tag |-> tag, fs |-> fs]

\* integer constant <-> Data integer (carrying the huge marker across)
IntToData(c) == IF IsHuge(c) THEN DIHuge(c.hs, c.hr) ELSE DI(c.v)
DataToInt(d) == IF IsHuge(d) THEN MkHuge(d.hs, d.hr) ELSE MkInt(d.v)

\* Semantic equality of Data (encoding forms are not part of the value).
RECURSIVE DataEq(_, _), DataSeqEq(_, _), DataMapEq(_, _)
DataSeqEq(a, b) == Len(a) = Len(b) /\ \A i \in 1..Len(a) : DataEq(a[i], b[i])
DataMapEq(a, b) == Len(a) = Len(b) /\
                   \A i \in 1..Len(a) : DataEq(a[i][1], b[i][1]) /\ DataEq(a[i][2], b[i][2])
DataEq(a, b) ==
    a.d = b.d /\
    CASE a.d = "I" -> IF IsHuge(a) \/ IsHuge(b)
                      THEN IsHuge(a) /\ IsHuge(b) /\ a.hs = b.hs /\ a.hr = b.hr
                      ELSE a.v = b.v
      [] a.d = "B" -> a.v = b.v
      [] a.d = "L" -> DataSeqEq(a.v, b.v)
      [] a.d = "M" -> DataMapEq(a.v, b.v)
      [] a.d = "C" -> a.tag = b.tag /\ DataSeqEq(a.fs, b.fs)

(***************************************************************************)
(* Results of a builtin call                                                *)
(***************************************************************************)
OkV(v)     == [r |-> "ok", v |-> v, logs |-> <<>>]            \* any value
OkC(c)     == OkV([k |-> "vcon", c |-> c])                    \* a constant
FailR      == [r |-> "fail"]
UnknownR   == [r |-> "unknown"]
OkInt(n)   == IF Abs(n) < Lim THEN OkC(MkInt(n)) ELSE UnknownR

IsC(a, t)  == a.k = "vcon" /\ a.c.t = t
IsListOf(a, et) == a.k = "vcon" /\ a.c.t = "list" /\ a.c.et = et

(***************************************************************************)
(* Arity and force discipline (number of type abstractions to instantiate). *)
(***************************************************************************)
BuiltinArity(f) ==
    CASE f \in {"lengthOfByteString", "sha2_256", "sha3_256", "blake2b_256", "blake2b_224",
                "keccak_256", "ripemd_160", "encodeUtf8", "decodeUtf8", "fstPair", "sndPair",
                "headList", "tailList", "nullList", "mapData", "listData", "iData", "bData",
                "unConstrData", "unMapData", "unListData", "unIData", "unBData",
                "serialiseData", "mkNilData", "mkNilPairData",
                "bls12_381_G1_neg", "bls12_381_G1_compress", "bls12_381_G1_uncompress",
                "bls12_381_G2_neg", "bls12_381_G2_compress", "bls12_381_G2_uncompress",
                "complementByteString", "countSetBits", "findFirstSetBit"} -> 1
      [] f \in {"sliceByteString", "verifyEd25519Signature", "verifyEcdsaSecp256k1Signature",
                "verifySchnorrSecp256k1Signature", "ifThenElse", "chooseList",
                "integerToByteString", "andByteString", "orByteString", "xorByteString",
                "writeBits", "expModInteger"} -> 3
      [] f = "chooseData" -> 6
      [] OTHER -> 2

BuiltinForces(f) ==
    CASE f \in {"ifThenElse", "chooseUnit", "trace", "mkCons", "headList", "tailList",
                "nullList", "chooseData", "dropList"} -> 1
      [] f \in {"fstPair", "sndPair", "chooseList"} -> 2
      [] OTHER -> 0

(***************************************************************************)
(* Sequences of bytes and bits                                              *)
(***************************************************************************)
RECURSIVE SeqLess(_, _)
SeqLess(a, b) ==      \* strict lexicographic order
    IF b = <<>> THEN FALSE
    ELSE IF a = <<>> THEN TRUE
    ELSE IF a[1] # b[1] THEN a[1] < b[1]
    ELSE SeqLess(Tail(a), Tail(b))

Take(s, n) == SubSeq(s, 1, Min2(Max2(n, 0), Len(s)))
Drop(s, n) == SubSeq(s, Min2(Max2(n, 0), Len(s)) + 1, Len(s))

BitOf(b, i) == (b \div Pow2(i)) % 2          \* bit i (0 = least significant) of byte b
\* byte sequence -> bit sequence, most significant bit of the first byte first
ToBits(bs) == [j \in 1..(8 * Len(bs)) |-> BitOf(bs[((j - 1) \div 8) + 1], 7 - ((j - 1) % 8))]
ByteAt(bits, k) ==   \* k-th byte (1-based) of a bit sequence
    LET o == 8 * (k - 1) IN
    128 * bits[o + 1] + 64 * bits[o + 2] + 32 * bits[o + 3] + 16 * bits[o + 4]
      + 8 * bits[o + 5] + 4 * bits[o + 6] + 2 * bits[o + 7] + bits[o + 8]
FromBits(bits) == [k \in 1..(Len(bits) \div 8) |-> ByteAt(bits, k)]

ByteOp(op, x, y) ==
    LET b(i) == LET p == BitOf(x, i) q == BitOf(y, i) IN
                CASE op = "and" -> p * q
                  [] op = "or"  -> IF p + q > 0 THEN 1 ELSE 0
                  [] op = "xor" -> (p + q) % 2
    IN  b(0) + 2 * b(1) + 4 * b(2) + 8 * b(3) + 16 * b(4) + 32 * b(5) + 64 * b(6) + 128 * b(7)

\* CIP-122: truncation semantics (pad = FALSE) or padding semantics (pad = TRUE, the shorter
\* argument is extended at the END with the operation's identity element).
LogicalOp(op, pad, a, b) ==
    LET n  == IF pad THEN Max2(Len(a), Len(b)) ELSE Min2(Len(a), Len(b))
        id == IF op = "and" THEN 255 ELSE 0
        at(s, i) == IF i <= Len(s) THEN s[i] ELSE id
    IN  [i \in 1..n |-> ByteOp(op, at(a, i), at(b, i))]

RECURSIVE SumSeq(_)
SumSeq(s) == IF s = <<>> THEN 0 ELSE s[1] + SumSeq(Tail(s))

\* big-endian value of a byte string; -1 when it does not fit the small-integer range
RECURSIVE BEValue(_, _)
BEValue(bs, acc) ==
    IF bs = <<>> THEN acc
    ELSE IF acc >= Lim \div 256 THEN 0 - 1
    ELSE BEValue(Tail(bs), acc * 256 + bs[1])
Reverse(s) == [i \in 1..Len(s) |-> s[Len(s) + 1 - i]]

\* minimal big-endian bytes of n >= 0 (<<>> for 0)
RECURSIVE BEBytes(_)
BEBytes(n) == IF n = 0 THEN <<>> ELSE Append(BEBytes(n \div 256), n % 256)

(***************************************************************************)
(* UTF-8                                                                    *)
(***************************************************************************)
Utf8Of(cp) ==
    IF cp < 128 THEN <<cp>>
    ELSE IF cp < 2048 THEN <<192 + (cp \div 64), 128 + (cp % 64)>>
    ELSE IF cp < 65536 THEN <<224 + (cp \div 4096), 128 + ((cp \div 64) % 64), 128 + (cp % 64)>>
    ELSE <<240 + (cp \div 262144), 128 + ((cp \div 4096) % 64), 128 + ((cp \div 64) % 64),
           128 + (cp % 64)>>

RECURSIVE EncodeUtf8(_)
EncodeUtf8(s) == IF s = <<>> THEN <<>> ELSE Utf8Of(s[1]) \o EncodeUtf8(Tail(s))

IsCont(b) == b >= 128 /\ b < 192
\* returns [ok, s]
RECURSIVE DecodeUtf8(_, _)
DecodeUtf8(bs, acc) ==
    IF bs = <<>> THEN [ok |-> TRUE, s |-> acc]
    ELSE LET b == bs[1] n == Len(bs) IN
    IF b < 128 THEN DecodeUtf8(Tail(bs), Append(acc, b))
    ELSE IF b >= 194 /\ b < 224 /\ n >= 2 /\ IsCont(bs[2])
         THEN DecodeUtf8(SubSeq(bs, 3, n), Append(acc, (b - 192) * 64 + (bs[2] - 128)))
    ELSE IF b >= 224 /\ b < 240 /\ n >= 3 /\ IsCont(bs[2]) /\ IsCont(bs[3]) THEN
         LET cp == (b - 224) * 4096 + (bs[2] - 128) * 64 + (bs[3] - 128) IN
         IF cp >= 2048 /\ ~(cp >= 55296 /\ cp <= 57343)
         THEN DecodeUtf8(SubSeq(bs, 4, n), Append(acc, cp))
         ELSE [ok |-> FALSE]
    ELSE IF b >= 240 /\ b < 245 /\ n >= 4 /\ IsCont(bs[2]) /\ IsCont(bs[3]) /\ IsCont(bs[4]) THEN
         LET cp == (b - 240) * 262144 + (bs[2] - 128) * 4096 + (bs[3] - 128) * 64 + (bs[4] - 128) IN
         IF cp >= 65536 /\ cp <= 1114111
         THEN DecodeUtf8(SubSeq(bs, 5, n), Append(acc, cp))
         ELSE [ok |-> FALSE]
    ELSE [ok |-> FALSE]

(***************************************************************************)
(* Integer builtins                                                         *)
(***************************************************************************)
\* order of two integer constants, huge ones included: -1, 0, 1
IntCmp(a, b) ==
    IF IsHuge(a) /\ IsHuge(b) THEN
        IF a.hs # b.hs THEN (IF a.hs < b.hs THEN 0 - 1 ELSE 1)
        ELSE IF a.hr = b.hr THEN 0
        ELSE IF (a.hr < b.hr) = (a.hs = 1) THEN 0 - 1 ELSE 1
    ELSE IF IsHuge(a) THEN a.hs
    ELSE IF IsHuge(b) THEN 0 - b.hs
    ELSE IF a.v < b.v THEN 0 - 1 ELSE IF a.v = b.v THEN 0 ELSE 1

IntBinop(f, x, y) ==
    IF ~(IsC(x, "int") /\ IsC(y, "int")) THEN FailR
    ELSE LET a == x.c b == y.c IN
    IF f \in {"equalsInteger", "lessThanInteger", "lessThanEqualsInteger"} THEN
        LET c == IntCmp(a, b) IN
        OkC(MkBool(CASE f = "equalsInteger" -> c = 0
                     [] f = "lessThanInteger" -> c < 0
                     [] f = "lessThanEqualsInteger" -> c <= 0))
    ELSE IF f \in {"divideInteger", "quotientInteger", "remainderInteger", "modInteger"}
            /\ ~IsHuge(b) /\ b.v = 0 THEN FailR
    ELSE IF IsHuge(a) \/ IsHuge(b) THEN UnknownR
    ELSE CASE f = "addInteger"       -> OkInt(a.v + b.v)
           [] f = "subtractInteger"  -> OkInt(a.v - b.v)
           [] f = "multiplyInteger"  -> IF Abs(a.v) < 32768 /\ Abs(b.v) < 32768
                                        THEN OkInt(a.v * b.v) ELSE UnknownR
           [] f = "divideInteger"    -> OkInt(FloorDiv(a.v, b.v))
           [] f = "modInteger"       -> OkInt(FloorMod(a.v, b.v))
           [] f = "quotientInteger"  -> OkInt(Quot(a.v, b.v))
           [] f = "remainderInteger" -> OkInt(Rem(a.v, b.v))

(***************************************************************************)
(* The denotation of a saturated builtin application.                       *)
(* sem is the ledger semantics variant "A".."E".                            *)
(***************************************************************************)
ConsRangeChecked(sem) == sem \in {"C", "E"}

\* bit index i (0 = least significant bit of the LAST byte) -> position in ToBits
BitPos(len, i) == 8 * len - i

RECURSIVE WriteAll(_, _, _, _)
WriteAll(bits, len, ixs, bit) ==
    IF ixs = <<>> THEN [ok |-> TRUE, bits |-> bits]
    ELSE LET i == ixs[1] IN
         IF i.t # "int" \/ IsHuge(i) \/ i.v < 0 \/ i.v >= 8 * len THEN [ok |-> FALSE]
         ELSE WriteAll([bits EXCEPT ![BitPos(len, i.v)] = bit], len, Tail(ixs), bit)

RECURSIVE FirstSet(_, _, _)
FirstSet(bits, len, i) ==     \* lowest set bit index, or -1
    IF i >= 8 * len THEN 0 - 1
    ELSE IF bits[BitPos(len, i)] = 1 THEN i
    ELSE FirstSet(bits, len, i + 1)

AllData(xs) == \A i \in 1..Len(xs) : xs[i].t = "data"

BuiltinCall(f, a, sem) ==
    CASE f \in {"addInteger", "subtractInteger", "multiplyInteger", "divideInteger",
                "quotientInteger", "remainderInteger", "modInteger", "equalsInteger",
                "lessThanInteger", "lessThanEqualsInteger"} -> IntBinop(f, a[1], a[2])

      (* ---- byte strings ---- *)
      [] f = "appendByteString" ->
            IF IsC(a[1], "bs") /\ IsC(a[2], "bs") THEN OkC(MkBs(a[1].c.v \o a[2].c.v)) ELSE FailR
      [] f = "consByteString" ->
            IF ~(IsC(a[1], "int") /\ IsC(a[2], "bs")) THEN FailR
            ELSE LET n == a[1].c IN
                 IF ConsRangeChecked(sem)
                 THEN IF ~IsHuge(n) /\ n.v >= 0 /\ n.v <= 255
                      THEN OkC(MkBs(<<n.v>> \o a[2].c.v)) ELSE FailR
                 ELSE LET m == IF IsHuge(n)
                               THEN FloorMod(n.hs * (n.hr % 256), 256)
                               ELSE FloorMod(n.v, 256)
                      IN  OkC(MkBs(<<m>> \o a[2].c.v))
      [] f = "sliceByteString" ->
            IF ~(IsC(a[1], "int") /\ IsC(a[2], "int") /\ IsC(a[3], "bs")) THEN FailR
            ELSE LET bs == a[3].c.v
                     big == Len(bs) + 1
                     s == IF IsHuge(a[1].c) THEN (IF a[1].c.hs > 0 THEN big ELSE 0) ELSE a[1].c.v
                     k == IF IsHuge(a[2].c) THEN (IF a[2].c.hs > 0 THEN big ELSE 0) ELSE a[2].c.v
                 IN  OkC(MkBs(Take(Drop(bs, s), k)))
      [] f = "lengthOfByteString" ->
            IF IsC(a[1], "bs") THEN OkC(MkInt(Len(a[1].c.v))) ELSE FailR
      [] f = "indexByteString" ->
            IF ~(IsC(a[1], "bs") /\ IsC(a[2], "int")) THEN FailR
            ELSE LET i == a[2].c IN
                 IF ~IsHuge(i) /\ i.v >= 0 /\ i.v < Len(a[1].c.v)
                 THEN OkC(MkInt(a[1].c.v[i.v + 1])) ELSE FailR
      [] f = "equalsByteString" ->
            IF IsC(a[1], "bs") /\ IsC(a[2], "bs") THEN OkC(MkBool(a[1].c.v = a[2].c.v)) ELSE FailR
      [] f = "lessThanByteString" ->
            IF IsC(a[1], "bs") /\ IsC(a[2], "bs")
            THEN OkC(MkBool(SeqLess(a[1].c.v, a[2].c.v))) ELSE FailR
      [] f = "lessThanEqualsByteString" ->
            IF IsC(a[1], "bs") /\ IsC(a[2], "bs")
            THEN OkC(MkBool(~SeqLess(a[2].c.v, a[1].c.v))) ELSE FailR

      (* ---- hashing and signatures: typed, otherwise not computed here ---- *)
      [] f \in {"sha2_256", "sha3_256", "blake2b_256", "blake2b_224", "keccak_256", "ripemd_160"} ->
            IF IsC(a[1], "bs") THEN UnknownR ELSE FailR
      [] f = "verifyEd25519Signature" ->
            IF ~(IsC(a[1], "bs") /\ IsC(a[2], "bs") /\ IsC(a[3], "bs")) THEN FailR
            ELSE IF Len(a[1].c.v) # 32 \/ Len(a[3].c.v) # 64 THEN FailR ELSE UnknownR
      [] f = "verifyEcdsaSecp256k1Signature" ->
            IF ~(IsC(a[1], "bs") /\ IsC(a[2], "bs") /\ IsC(a[3], "bs")) THEN FailR
            ELSE IF Len(a[1].c.v) # 33 \/ Len(a[2].c.v) # 32 \/ Len(a[3].c.v) # 64 THEN FailR
            ELSE UnknownR
      [] f = "verifySchnorrSecp256k1Signature" ->
            IF ~(IsC(a[1], "bs") /\ IsC(a[2], "bs") /\ IsC(a[3], "bs")) THEN FailR
            ELSE IF Len(a[1].c.v) # 32 \/ Len(a[3].c.v) # 64 THEN FailR ELSE UnknownR

      (* ---- strings ---- *)
      [] f = "appendString" ->
            IF IsC(a[1], "str") /\ IsC(a[2], "str") THEN OkC(MkStr(a[1].c.v \o a[2].c.v)) ELSE FailR
      [] f = "equalsString" ->
            IF IsC(a[1], "str") /\ IsC(a[2], "str") THEN OkC(MkBool(a[1].c.v = a[2].c.v)) ELSE FailR
      [] f = "encodeUtf8" ->
            IF IsC(a[1], "str") THEN OkC(MkBs(EncodeUtf8(a[1].c.v))) ELSE FailR
      [] f = "decodeUtf8" ->
            IF ~IsC(a[1], "bs") THEN FailR
            ELSE LET r == DecodeUtf8(a[1].c.v, <<>>) IN IF r.ok THEN OkC(MkStr(r.s)) ELSE FailR

      (* ---- bool, unit, trace ---- *)
      [] f = "ifThenElse" ->
            IF IsC(a[1], "bool") THEN OkV(IF a[1].c.v THEN a[2] ELSE a[3]) ELSE FailR
      [] f = "chooseUnit" -> IF IsC(a[1], "unit") THEN OkV(a[2]) ELSE FailR
      [] f = "trace" ->
            IF IsC(a[1], "str") THEN [r |-> "ok", v |-> a[2], logs |-> <<a[1].c.v>>] ELSE FailR

      (* ---- pairs and lists ---- *)
      [] f = "fstPair" -> IF IsC(a[1], "pair") THEN OkC(a[1].c.f) ELSE FailR
      [] f = "sndPair" -> IF IsC(a[1], "pair") THEN OkC(a[1].c.s) ELSE FailR
      [] f = "chooseList" ->
            IF IsC(a[1], "list") THEN OkV(IF a[1].c.v = <<>> THEN a[2] ELSE a[3]) ELSE FailR
      [] f = "mkCons" ->
            IF a[1].k = "vcon" /\ IsC(a[2], "list") /\ TypeOf(a[1].c) = a[2].c.et
            THEN OkC(MkList(a[2].c.et, <<a[1].c>> \o a[2].c.v)) ELSE FailR
      [] f = "headList" ->
            IF IsC(a[1], "list") /\ a[1].c.v # <<>> THEN OkC(a[1].c.v[1]) ELSE FailR
      [] f = "tailList" ->
            IF IsC(a[1], "list") /\ a[1].c.v # <<>>
            THEN OkC(MkList(a[1].c.et, Tail(a[1].c.v))) ELSE FailR
      [] f = "nullList" ->
            IF IsC(a[1], "list") THEN OkC(MkBool(a[1].c.v = <<>>)) ELSE FailR
      [] f = "dropList" ->
            IF ~(IsC(a[1], "int") /\ IsC(a[2], "list")) THEN FailR
            ELSE LET n == a[1].c xs == a[2].c.v
                     k == IF IsHuge(n) THEN (IF n.hs > 0 THEN Len(xs) ELSE 0) ELSE n.v
                 IN  OkC(MkList(a[2].c.et, Drop(xs, k)))

      (* ---- data ---- *)
      [] f = "chooseData" ->
            IF ~IsC(a[1], "data") THEN FailR
            ELSE LET d == a[1].c.v.d IN
                 OkV(CASE d = "C" -> a[2] [] d = "M" -> a[3] [] d = "L" -> a[4]
                       [] d = "I" -> a[5] [] d = "B" -> a[6])
      [] f = "constrData" ->
            IF ~(IsC(a[1], "int") /\ IsListOf(a[2], TData)) THEN FailR
            ELSE IF IsHuge(a[1].c) THEN UnknownR   \* Data's constructor index is an unbounded integer
            ELSE OkC(MkData(DC(a[1].c.v, [i \in 1..Len(a[2].c.v) |-> a[2].c.v[i].v])))
      [] f = "mapData" ->
            IF IsListOf(a[1], TPair(TData, TData))
            THEN OkC(MkData(DM([i \in 1..Len(a[1].c.v) |-> <<a[1].c.v[i].f.v, a[1].c.v[i].s.v>>])))
            ELSE FailR
      [] f = "listData" ->
            IF IsListOf(a[1], TData)
            THEN OkC(MkData(DL([i \in 1..Len(a[1].c.v) |-> a[1].c.v[i].v]))) ELSE FailR
      [] f = "iData" -> IF IsC(a[1], "int") THEN OkC(MkData(IntToData(a[1].c))) ELSE FailR
      [] f = "bData" -> IF IsC(a[1], "bs") THEN OkC(MkData(DB(a[1].c.v))) ELSE FailR
      [] f = "unConstrData" ->
            IF IsC(a[1], "data") /\ a[1].c.v.d = "C"
            THEN LET d == a[1].c.v IN
                 OkC(MkPair(TInt, TList(TData), MkInt(d.tag),
                            MkList(TData, [i \in 1..Len(d.fs) |-> MkData(d.fs[i])])))
            ELSE FailR
      [] f = "unMapData" ->
            IF IsC(a[1], "data") /\ a[1].c.v.d = "M"
            THEN LET kvs == a[1].c.v.v IN
                 OkC(MkList(TPair(TData, TData),
                            [i \in 1..Len(kvs) |->
                                MkPair(TData, TData, MkData(kvs[i][1]), MkData(kvs[i][2]))]))
            ELSE FailR
      [] f = "unListData" ->
            IF IsC(a[1], "data") /\ a[1].c.v.d = "L"
            THEN LET xs == a[1].c.v.v IN OkC(MkList(TData, [i \in 1..Len(xs) |-> MkData(xs[i])]))
            ELSE FailR
      [] f = "unIData" ->
            IF IsC(a[1], "data") /\ a[1].c.v.d = "I" THEN OkC(DataToInt(a[1].c.v)) ELSE FailR
      [] f = "unBData" ->
            IF IsC(a[1], "data") /\ a[1].c.v.d = "B" THEN OkC(MkBs(a[1].c.v.v)) ELSE FailR
      [] f = "equalsData" ->
            IF IsC(a[1], "data") /\ IsC(a[2], "data")
            THEN OkC(MkBool(DataEq(a[1].c.v, a[2].c.v))) ELSE FailR
      [] f = "serialiseData" -> IF IsC(a[1], "data") THEN UnknownR ELSE FailR
      [] f = "mkPairData" ->
            IF IsC(a[1], "data") /\ IsC(a[2], "data")
            THEN OkC(MkPair(TData, TData, a[1].c, a[2].c)) ELSE FailR
      [] f = "mkNilData" -> IF IsC(a[1], "unit") THEN OkC(MkList(TData, <<>>)) ELSE FailR
      [] f = "mkNilPairData" ->
            IF IsC(a[1], "unit") THEN OkC(MkList(TPair(TData, TData), <<>>)) ELSE FailR

      (* ---- conversions (CIP-121) ---- *)
      [] f = "integerToByteString" ->
            IF ~(IsC(a[1], "bool") /\ IsC(a[2], "int") /\ IsC(a[3], "int")) THEN FailR
            ELSE LET w == a[2].c n == a[3].c IN
                 IF IsHuge(w) THEN FailR                        \* negative or beyond 8192
                 ELSE IF w.v < 0 \/ w.v > 8192 THEN FailR
                 ELSE IF IsHuge(n) THEN (IF n.hs < 0 THEN FailR ELSE
                                         IF w.v > 0 /\ w.v < 12 THEN FailR ELSE UnknownR)
                 ELSE IF n.v < 0 THEN FailR
                 ELSE LET be == BEBytes(n.v) IN
                      IF w.v = 0 THEN OkC(MkBs(IF a[1].c.v THEN be ELSE Reverse(be)))
                      ELSE IF Len(be) > w.v THEN FailR
                      ELSE IF w.v > 64 THEN UnknownR            \* keep the model's sequences small
                      ELSE LET padded == [i \in 1..(w.v - Len(be)) |-> 0] \o be
                           IN  OkC(MkBs(IF a[1].c.v THEN padded ELSE Reverse(padded)))
      [] f = "byteStringToInteger" ->
            IF ~(IsC(a[1], "bool") /\ IsC(a[2], "bs")) THEN FailR
            ELSE LET v == BEValue(IF a[1].c.v THEN a[2].c.v ELSE Reverse(a[2].c.v), 0)
                 IN  IF v < 0 THEN UnknownR ELSE OkC(MkInt(v))

      (* ---- logical (CIP-122) ---- *)
      [] f \in {"andByteString", "orByteString", "xorByteString"} ->
            IF ~(IsC(a[1], "bool") /\ IsC(a[2], "bs") /\ IsC(a[3], "bs")) THEN FailR
            ELSE OkC(MkBs(LogicalOp(CASE f = "andByteString" -> "and" [] f = "orByteString" -> "or"
                                      [] f = "xorByteString" -> "xor",
                                    a[1].c.v, a[2].c.v, a[3].c.v)))
      [] f = "complementByteString" ->
            IF IsC(a[1], "bs") THEN OkC(MkBs([i \in 1..Len(a[1].c.v) |-> 255 - a[1].c.v[i]]))
            ELSE FailR
      [] f = "readBit" ->
            IF ~(IsC(a[1], "bs") /\ IsC(a[2], "int")) THEN FailR
            ELSE LET bs == a[1].c.v i == a[2].c IN
                 IF IsHuge(i) \/ i.v < 0 \/ i.v >= 8 * Len(bs) THEN FailR
                 ELSE OkC(MkBool(ToBits(bs)[BitPos(Len(bs), i.v)] = 1))
      [] f = "writeBits" ->
            IF ~(IsC(a[1], "bs") /\ IsListOf(a[2], TInt) /\ IsC(a[3], "bool")) THEN FailR
            ELSE LET bs == a[1].c.v
                     r == WriteAll(ToBits(bs), Len(bs), a[2].c.v, IF a[3].c.v THEN 1 ELSE 0)
                 IN  IF r.ok THEN OkC(MkBs(FromBits(r.bits))) ELSE FailR
      [] f = "replicateByte" ->
            IF ~(IsC(a[1], "int") /\ IsC(a[2], "int")) THEN FailR
            ELSE LET n == a[1].c b == a[2].c IN
                 IF IsHuge(n) \/ n.v < 0 \/ n.v > 8192 THEN FailR
                 ELSE IF IsHuge(b) \/ b.v < 0 \/ b.v > 255 THEN FailR
                 ELSE IF n.v > 64 THEN UnknownR
                 ELSE OkC(MkBs([i \in 1..n.v |-> b.v]))

      (* ---- bitwise (CIP-123) ---- *)
      [] f = "shiftByteString" ->
            IF ~(IsC(a[1], "bs") /\ IsC(a[2], "int")) THEN FailR
            ELSE LET bs == a[1].c.v k == a[2].c n == 8 * Len(bs) bits == ToBits(bs) IN
                 IF IsHuge(k) THEN (IF sem = "E" THEN FailR ELSE OkC(MkBs([i \in 1..Len(bs) |-> 0])))
                 ELSE OkC(MkBs(FromBits([j \in 1..n |->
                        LET src == j + k.v IN IF src >= 1 /\ src <= n THEN bits[src] ELSE 0])))
      [] f = "rotateByteString" ->
            IF ~(IsC(a[1], "bs") /\ IsC(a[2], "int")) THEN FailR
            ELSE LET bs == a[1].c.v k == a[2].c n == 8 * Len(bs) bits == ToBits(bs) IN
                 IF IsHuge(k) /\ sem = "E" THEN FailR
                 ELSE IF n = 0 THEN OkC(MkBs(<<>>))
                 ELSE IF IsHuge(k) /\ Len(bs) > 16 THEN UnknownR
                 ELSE LET m == IF IsHuge(k) THEN FloorMod(k.hs * (k.hr % n), n) ELSE FloorMod(k.v, n)
                      IN  OkC(MkBs(FromBits([j \in 1..n |-> bits[((j - 1 + m) % n) + 1]])))
      [] f = "countSetBits" ->
            IF IsC(a[1], "bs") THEN OkC(MkInt(SumSeq(ToBits(a[1].c.v)))) ELSE FailR
      [] f = "findFirstSetBit" ->
            IF IsC(a[1], "bs")
            THEN OkC(MkInt(FirstSet(ToBits(a[1].c.v), Len(a[1].c.v), 0))) ELSE FailR

      (* ---- modular exponentiation ---- *)
      [] f = "expModInteger" ->
            IF ~(IsC(a[1], "int") /\ IsC(a[2], "int") /\ IsC(a[3], "int")) THEN FailR
            ELSE LET m == a[3].c IN
                 IF IsHuge(m) THEN (IF m.hs < 0 THEN FailR ELSE UnknownR)
                 ELSE IF m.v <= 0 THEN FailR
                 ELSE IF m.v = 1 THEN OkC(MkInt(0))
                 ELSE UnknownR

      (* ---- BLS12-381: no constant of these types exists in the modelled universe, so an
              argument position of type G1 / G2 / MlResult can only receive an ill-typed value ---- *)
      [] f \in {"bls12_381_G1_add", "bls12_381_G1_neg", "bls12_381_G1_equal", "bls12_381_G1_compress",
                "bls12_381_G2_add", "bls12_381_G2_neg", "bls12_381_G2_equal", "bls12_381_G2_compress",
                "bls12_381_millerLoop", "bls12_381_mulMlResult", "bls12_381_finalVerify",
                "bls12_381_G1_scalarMul", "bls12_381_G2_scalarMul"} -> FailR
      [] f = "bls12_381_G1_uncompress" ->
            IF IsC(a[1], "bs") /\ Len(a[1].c.v) = 48 THEN UnknownR ELSE FailR
      [] f = "bls12_381_G2_uncompress" ->
            IF IsC(a[1], "bs") /\ Len(a[1].c.v) = 96 THEN UnknownR ELSE FailR
      [] f \in {"bls12_381_G1_hashToGroup", "bls12_381_G2_hashToGroup"} ->
            IF IsC(a[1], "bs") /\ IsC(a[2], "bs")
            THEN (IF Len(a[2].c.v) > 255 THEN FailR ELSE UnknownR) ELSE FailR
      [] f \in {"bls12_381_G1_multiScalarMul", "bls12_381_G2_multiScalarMul"} ->
            IF IsListOf(a[1], TInt) /\ IsC(a[2], "list") THEN UnknownR ELSE FailR
      [] OTHER -> UnknownR

(***************************************************************************)
(* Size measures (ExMemoryUsage) and costing.                               *)
(***************************************************************************)
IntSize(c) == IF IsHuge(c) THEN 2 ELSE 1           \* words of 64 bits; |n| < 2^30 fits one
BsSize(b)  == IF Len(b) = 0 THEN 1 ELSE ((Len(b) - 1) \div 8) + 1

RECURSIVE DataSize(_), DataSeqSize(_), DataMapSize(_)
DataSeqSize(xs) == IF xs = <<>> THEN 0 ELSE DataSize(xs[1]) + DataSeqSize(Tail(xs))
DataMapSize(kvs) == IF kvs = <<>> THEN 0
                    ELSE DataSize(kvs[1][1]) + DataSize(kvs[1][2]) + DataMapSize(Tail(kvs))
DataSize(d) ==
    4 + CASE d.d = "I" -> IntSize(d)
          [] d.d = "B" -> BsSize(d.v)
          [] d.d = "L" -> DataSeqSize(d.v)
          [] d.d = "M" -> DataMapSize(d.v)
          [] d.d = "C" -> DataSeqSize(d.fs)

StringsByUtf8(sem) == sem \in {"D", "E"}

RECURSIVE ConstSize(_, _), ConstSeqSize(_, _)
ConstSeqSize(xs, sem) == IF xs = <<>> THEN 0 ELSE ConstSize(xs[1], sem) + ConstSeqSize(Tail(xs), sem)
ConstSize(c, sem) ==
    CASE c.t = "int"  -> IntSize(c)
      [] c.t = "bs"   -> BsSize(c.v)
      [] c.t = "str"  -> IF StringsByUtf8(sem) THEN Len(EncodeUtf8(c.v)) \div 4 ELSE Len(c.v)
      [] c.t = "unit" -> 1
      [] c.t = "bool" -> 1
      [] c.t = "list" -> ConstSeqSize(c.v, sem)
      [] c.t = "pair" -> ConstSize(c.f, sem) + ConstSize(c.s, sem)
      [] c.t = "data" -> DataSize(c.v)

\* the generic measure; strings are measured by the variant only where the ledger says so
SizeOf(v, sem) == IF v.k = "vcon" THEN ConstSize(v.c, sem) ELSE 1
SizeC(v) == SizeOf(v, "C")

Quad2(q, x, y) ==
    Max2(q.minimum, q.coeff_00 + q.coeff_10 * x + q.coeff_01 * y + q.coeff_20 * x * x
                    + q.coeff_11 * x * y + q.coeff_02 * y * y)

RECURSIVE CostFn(_, _, _, _)
CostFn(fn, x, y, z) ==
    CASE fn.s = "ConstantCost" -> fn.c0
      [] fn.s = "LinearCost"   -> fn.slope * x + fn.intercept
      [] fn.s = "LinearInX"    -> fn.slope * x + fn.intercept
      [] fn.s = "LinearInY"    -> fn.slope * y + fn.intercept
      [] fn.s = "LinearInY2"   -> fn.slope * y + fn.intercept
      [] fn.s = "LinearInZ"    -> fn.slope * z + fn.intercept
      [] fn.s = "AddedSizes"   -> fn.slope * (x + y + z) + fn.intercept    \* z = 0 for two arguments
      [] fn.s = "SubtractedSizes" -> fn.slope * Max2(fn.minimum, x - y) + fn.intercept
      [] fn.s = "MultipliedSizes" -> fn.slope * (x * y) + fn.intercept
      [] fn.s = "MinSize"      -> fn.slope * Min2(x, y) + fn.intercept
      [] fn.s = "MaxSize"      -> fn.slope * Max2(x, y) + fn.intercept
      [] fn.s = "LinearOnDiagonal" -> IF x = y THEN fn.slope * x + fn.intercept ELSE fn.constant
      [] fn.s = "ConstAboveDiagonal" -> IF x < y THEN fn.constant ELSE CostFn(fn.model, x, y, z)
      [] fn.s = "ConstBelowDiagonal" -> IF x > y THEN fn.constant ELSE CostFn(fn.model, x, y, z)
      [] fn.s = "AboveAndBelowDiagonal" -> CostFn(fn.model, Max2(x, y), Min2(x, y), z)
      [] fn.s = "QuadraticInY" -> fn.coeff_0 + fn.coeff_1 * y + fn.coeff_2 * y * y
      [] fn.s = "QuadraticInZ" -> fn.coeff_0 + fn.coeff_1 * z + fn.coeff_2 * z * z
      [] fn.s = "QuadraticCost" -> fn.coeff_0 + fn.coeff_1 * x + fn.coeff_2 * x * x
      [] fn.s = "QuadraticInXAndY" -> Quad2(fn, x, y)
      [] fn.s = "LiteralInYorLinearInZ" -> IF y = 0 THEN fn.slope * z + fn.intercept ELSE y
      [] fn.s = "LinearInMaxYZ" -> fn.slope * Max2(y, z) + fn.intercept
      [] fn.s = "LinearInYandZ" -> fn.slope1 * y + fn.slope2 * z + fn.intercept
      [] fn.s = "LinearInXAndY" -> fn.slope1 * x + fn.slope2 * y + fn.intercept
      [] fn.s = "ExpModCost" ->
            LET c == fn.coefficient_00 + fn.coefficient_11 * y * z + fn.coefficient_12 * y * z * z
            IN  IF x <= z THEN c ELSE c + c \div 2

\* number of 8-byte words an integer-to-bytes style literal size argument stands for
LiteralWords(n) == IF n = 0 THEN 0 ELSE ((n - 1) \div 8) + 1

\* the three sizes fed to the costing function of builtin f
ArgSizes(f, a, sem) ==
    LET s(i) == IF i <= Len(a) THEN SizeC(a[i]) ELSE 0
        ss(i) == SizeOf(a[i], sem)
    IN
    CASE f \in {"appendString", "equalsString"} -> <<ss(1), ss(2), 0>>
      [] f = "encodeUtf8"          -> <<ss(1), 0, 0>>
      [] f = "integerToByteString" -> <<s(1), LiteralWords(a[2].c.v), s(3)>>
      [] f = "replicateByte"       -> <<LiteralWords(a[1].c.v), s(2), 0>>
      [] f \in {"shiftByteString", "rotateByteString"} -> <<s(1), Abs(a[2].c.v), 0>>
      [] f = "dropList"            -> <<Abs(a[1].c.v), s(2), 0>>
      [] f = "writeBits"           -> <<s(1), Len(a[2].c.v), s(3)>>
      [] OTHER -> <<s(1), s(2), s(3)>>

\* literal-sized arguments that are huge make the cost unknowable here
LiteralHuge(f, a) ==
    \/ f \in {"shiftByteString", "rotateByteString"} /\ IsHuge(a[2].c)
    \/ f = "dropList" /\ IsHuge(a[1].c)

BuiltinCost(f, a, sem) ==
    IF f \notin DOMAIN CostTableOf(sem) \/ LiteralHuge(f, a) THEN [known |-> FALSE]
    ELSE LET row == CostTableOf(sem)[f]
             sz  == ArgSizes(f, a, sem)
         IN  [known |-> TRUE,
              cpu |-> CostFn(row.cpu, sz[1], sz[2], sz[3]),
              mem |-> CostFn(row.mem, sz[1], sz[2], sz[3])]

BuiltinNames == DOMAIN CostTableE

=============================================================================
