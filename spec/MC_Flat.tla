------------------------------ MODULE MC_Flat -------------------------------
(***************************************************************************)
(* C08 (codec part): for every program of MC_Text's tables (one per         *)
(* built-in, constant type / nesting, Data tag range, term constructor) and *)
(* for byte strings around the 255-byte chunk boundaries, TLC computes the  *)
(* specification's flat bytes and their CBOR wrapping.  The harness         *)
(* requires the real encoder to produce exactly these bytes and the real    *)
(* decoders to read them back to the program.                               *)
(***************************************************************************)
EXTENDS MC_Text, Flat

Bytes(k) == [i \in 1..k |-> (i * 7) % 256]
Extra == << Con(MkBs(Bytes(254))), Con(MkBs(Bytes(255))), Con(MkBs(Bytes(256))), Con(MkBs(Bytes(510))), Con(MkBs(Bytes(511))),
            Con(MkStr([i \in 1..130 |-> 233])), Con(MkData(DB(Bytes(64)))), Con(MkData(DL(<<DI(23), DI(24), DI(255), DI(256), DI(65535), DI(65536), DI(0 - 24), DI(0 - 25), DI(0 - 257)>>))),
            App(Lam(Con(MkBs(<<1>>))), Con(MkBs(<<2, 3>>))), Lam(Lam(Lam(Lam(Lam(Lam(Lam(Lam(Var(8))))))))),
            Constr(127, <<>>), Constr(128, <<>>), Constr(16384, <<Con(MkInt(64))>>), Con(MkInt(63)), Con(MkInt(64)), Con(MkInt(0 - 64)), Con(MkInt(0 - 65)),
            Con(MkInt(8191)), Con(MkInt(8192)), Con(MkInt(1048575)), Con(MkInt(1048576)) >>

\* programs whose WHOLE flat encoding is 23 / 24 / 255 / 256 bytes long: the CBOR header of the wrapping changes form there
Boundary == [i \in 1..10 |-> Con(MkBs(Bytes(<<14, 15, 16, 17, 245, 246, 247, 248, 249, 250>>[i])))]
FlatLen(t) == Len(EncProgram(1, 1, 0, t)) \div 8
ASSUME {23, 24, 255, 256} \subseteq {FlatLen(Boundary[i]) : i \in 1..Len(Boundary)}

AllCases == Cases \o Extra \o Boundary

VARIABLES m
FInit == m \in 1..Len(AllCases) /\ n = 1        \* n is MC_Text's variable, unused here
FNext == UNCHANGED <<m, n>>
FSpec == FInit /\ [][FNext]_<<m, n>>

\* the encoding always ends on a byte boundary and its last byte is the filler's 1
EndsAligned == LET bits == EncProgram(1, 1, 0, AllCases[m]) IN Len(bits) % 8 = 0 /\ bits[Len(bits)] = 1

FEmit == LET bytes == ToBytes(EncProgram(1, 1, 0, AllCases[m])) IN
         PrintT(<<"REPLAY", ToJson([id |-> m, term |-> AllCases[m], flat |-> bytes, cbor |-> CborWrap(bytes)])>>)
=============================================================================
