----------------------------- MODULE MC_Budget ------------------------------
(***************************************************************************)
(* Budget accounting of the CEK machine, shaped like the implementation:    *)
(* a finite initial budget B, start-up cost charged first, one unit of the  *)
(* step's kind recorded per machine step and charged in BATCHES every       *)
(* `slip` steps, builtin calls charged immediately, a final flush when the   *)
(* machine is done.  The pure machine (Uplc.tla: Step) is run side by side;  *)
(* TLC checks that the batched accounting is EXACT and that success is a     *)
(* threshold in B (C05).  The term universe is MC_Cek's.                     *)
(***************************************************************************)
EXTENDS MC_Cek

CONSTANTS Slippages

VARIABLES acc     \* accounting state
bvars == <<st, t0, acc>>

MC(sem) == MachineCostsOf(sem)

\* the pure run, to know the cost C and outcome beforehand
Pure(t, s) == RunK(InitState(t, s), MaxSteps)

Budgets(p, s) ==
    IF p.mode = "done" THEN
        LET c == CostOf(p, MC(s)) IN
        {[cpu |-> c.cpu, mem |-> c.mem], [cpu |-> c.cpu - 1, mem |-> c.mem], [cpu |-> c.cpu, mem |-> c.mem - 1],
         [cpu |-> c.cpu + 5, mem |-> c.mem + 7], [cpu |-> 0, mem |-> 0], [cpu |-> 99, mem |-> 100],
         [cpu |-> c.cpu - 16000, mem |-> c.mem + 100]}
    ELSE {[cpu |-> 100000000, mem |-> 100000000], [cpu |-> 0, mem |-> 0]}

Zero9 == [i \in 1..9 |-> 0]

\* charge (cpu, mem); the run is over ("budget") as soon as either dimension is negative
Charge(a, cpu, mem) ==
    LET a1 == [a EXCEPT !.cpu = @ - cpu, !.mem = @ - mem]
    IN  IF a1.cpu < 0 \/ a1.mem < 0 THEN [a1 EXCEPT !.verdict = "budget"] ELSE a1

RECURSIVE SumUnb(_, _, _, _)
SumUnb(unb, mc, dim, i) == IF i = 0 THEN 0 ELSE unb[i] * mc.step[i][dim] + SumUnb(unb, mc, dim, i - 1)

Flush(a, s) ==
    Charge([a EXCEPT !.unb = Zero9, !.tot = 0],
           SumUnb(a.unb, MC(s), "cpu", 9), SumUnb(a.unb, MC(s), "mem", 9))

BInit == \E n \in 1..N : \E tt \in TS(n, 0) : \E s \in Sems : \E sl \in Slippages :
            LET t == Expand(tt)
                p == Pure(t, s) IN
            /\ p.mode \in {"done", "fail"}
            /\ \E b \in Budgets(p, s) :
                /\ t0 = t
                /\ st = InitState(t, s)
                /\ acc = Charge([cpu |-> b.cpu, mem |-> b.mem, unb |-> Zero9, tot |-> 0, slip |-> sl,
                                 B |-> b, verdict |-> "running", pure |-> p.mode,
                                 C |-> CostOf(p, MC(s))],
                                MC(s).startup.cpu, MC(s).startup.mem)

\* the kind of step the machine is about to take (0: none is charged)
KindOfNext(s) ==
    IF s.mode = "compute" /\ s.ctrl.k # "err" THEN KindIx(s.ctrl.k) ELSE 0

BNext ==
    /\ acc.verdict = "running"
    /\ ~Terminal(st)
    /\ LET k  == KindOfNext(st)
           \* 1. record the step; spend the batch when it is full (before the step is taken)
           a1 == IF k = 0 THEN acc
                 ELSE LET a0 == [acc EXCEPT !.unb[k] = @ + 1, !.tot = @ + 1]
                      IN  IF a0.tot >= a0.slip THEN Flush(a0, st.sem) ELSE a0
       IN
       IF a1.verdict # "running" THEN acc' = a1 /\ UNCHANGED <<st, t0>>
       ELSE
       LET s1 == Step(st)
           \* 2. a builtin call is charged as soon as it is made
           a2 == IF s1.bcpu # st.bcpu \/ s1.bmem # st.bmem
                 THEN Charge(a1, s1.bcpu - st.bcpu, s1.bmem - st.bmem) ELSE a1
           \* 3. when the machine is done, what is still unbudgeted is charged
           a3 == IF a2.verdict = "running" /\ s1.mode = "done" THEN Flush(a2, st.sem) ELSE a2
           a4 == IF a3.verdict # "running" THEN a3
                 ELSE IF s1.mode = "done" THEN [a3 EXCEPT !.verdict = "done"]
                 ELSE IF s1.mode = "fail" THEN [a3 EXCEPT !.verdict = "fail"]
                 ELSE a3
       IN  /\ st' = s1
           /\ acc' = a4
           /\ UNCHANGED t0

BSpec == BInit /\ [][BNext]_bvars

(***************************************************************************)
(* C05 as invariants of the accounting.                                     *)
(***************************************************************************)
\* success: exactly the ledger cost has been charged, nothing is left unbudgeted, nothing negative
Exact ==
    acc.verdict = "done" =>
        /\ acc.B.cpu - acc.cpu = acc.C.cpu /\ acc.B.mem - acc.mem = acc.C.mem
        /\ acc.unb = Zero9 /\ acc.tot = 0
        /\ acc.cpu >= 0 /\ acc.mem >= 0

\* threshold, whatever the batching: B >= C never fails for budget reasons, B < C never succeeds
Threshold ==
    /\ (acc.pure = "done" /\ acc.B.cpu >= acc.C.cpu /\ acc.B.mem >= acc.C.mem) => acc.verdict # "budget"
    /\ (acc.pure = "done" /\ (acc.B.cpu < acc.C.cpu \/ acc.B.mem < acc.C.mem)) => acc.verdict \in {"running", "budget"}

\* a batch never holds more than slip - 1 steps between two actions
BatchBound == acc.tot < acc.slip \/ acc.verdict # "running"

BEmit ==
    acc.verdict # "running" =>
        PrintT(<<"REPLAY", ToJson([term |-> t0, sem |-> st.sem, slippage |-> acc.slip, budget |-> acc.B,
                                   verdict |-> acc.verdict, rem |-> [cpu |-> acc.cpu, mem |-> acc.mem],
                                   cost |-> acc.C, pure |-> acc.pure,
                                   out |-> IF acc.verdict = "done" THEN Outcome(st) ELSE [o |-> "fail"]])>>)
=============================================================================
