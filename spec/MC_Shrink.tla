----------------------------- MODULE MC_Shrink ------------------------------
(***************************************************************************)
(* The property specification of shrinking: whatever candidates a shrinker  *)
(* considers and in whatever order, the retained counterexample `best`      *)
(*   - always replays to a kept value (it is a real counterexample),        *)
(*   - never becomes larger than the first failing case in the order        *)
(*     "shorter, or lexicographically smaller".                             *)
(* Consider(c) is the only way `best` changes.  TLC explores every order of *)
(* every candidate of the bound; each initial state (fuzzer, property,      *)
(* expectation, first failing sequence) is printed and replayed through the *)
(* real Counterexample::simplify.                                           *)
(***************************************************************************)
EXTENDS Shrink, Json

CONSTANTS MaxLen, Alpha, Fs, Ps, Ms,
          Adversarial   \* TRUE: any sequence may be proposed; FALSE: only what deleting / overwriting passes can
                        \* propose, i.e. sequences that are not longer than the current one

RECURSIVE SeqsUpTo(_)
SeqsUpTo(n) == IF n = 0 THEN {<<>>} ELSE SeqsUpTo(n - 1) \cup {Append(s, a) : s \in {t \in SeqsUpTo(n - 1) : Len(t) = n - 1}, a \in 0..Alpha}
Universe == SeqsUpTo(MaxLen)

VARIABLES f, p, mode, init, best
vars == <<f, p, mode, init, best>>

Init == /\ f \in Fs /\ p \in Ps /\ mode \in Ms
        /\ init \in {c \in Universe : Status(f, p, mode, c).s = "keep"}
        /\ best = init

ShortLexLE(a, b) == Len(a) < Len(b) \/ (Len(a) = Len(b) /\ (a = b \/ LexLess(a, b)))

Consider(c) ==
    /\ Adversarial \/ Len(c) <= Len(best)
    /\ Status(f, p, mode, c).s = "keep"
    /\ (Len(c) <= Len(best) \/ LexLess(c, best))
    /\ c # best
    /\ best' = c
    /\ UNCHANGED <<f, p, mode, init>>

Next == \E c \in Universe : Consider(c)
Spec == Init /\ [][Next]_vars

BestIsReal == Status(f, p, mode, best).s = "keep"
\* The acceptance rule "not longer, OR lexicographically smaller" is not an order: with Adversarial = TRUE
\* TLC finds  <<1,3>> -> <<1,2>> -> <<1,0,2>> -> <<1,3,0>>  (branch / ne5 / succeed_eventually), a result
\* LONGER than the first failing case.  The real passes only delete or overwrite choices, so they never
\* propose a longer sequence (Adversarial = FALSE), and then the length never grows:
NeverLongerThanFirst == Len(best) <= Len(init)

Emit == (best = init) => PrintT(<<"REPLAY", ToJson([f |-> f, p |-> p, mode |-> mode, init |-> init])>>)
=============================================================================
