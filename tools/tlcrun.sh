#!/bin/bash
# usage: tlcrun.sh <Module> [cfg] -- env TRACE etc. passed through; single worker, deque
M=$1; CFG=${2:-$1.cfg}
cd /verif/spec && exec java -XX:+UseParallelGC -Xss1g -Xmx${XMX:-4g} -Dtlc2.tool.queue.IStateQueue=StateDeque -cp /opt/veriftools/tla/tla2tools.jar:/opt/veriftools/tla/CommunityModules-deps.jar tlc2.TLC -workers ${WORKERS:-1} -metadir /verif/work/t/meta_$$ -cleanup -noGenerateSpecTE -config $CFG $M.tla
