#!/usr/bin/env python3
"""Regenerates MANIFEST.json from the table below (single source of truth for what is claimed)."""
import json, os, subprocess

ROOT = os.path.dirname(os.path.dirname(os.path.abspath(__file__)))
PROPS = [json.loads(l)["id"] for l in open(os.path.join(ROOT, "properties.jsonl"))]

HOOK_COMMITS = []   # filled as hooks are added to /repo

CHECKS = {
    "C03": dict(
        category="model_checking",
        text="Uplc.tla (the CEK machine written from the Plutus Core specification, anchored against the upstream "
             "conformance goldens) is model-checked by TLC over every closed term up to a node bound per atom "
             "profile and semantics variant; every finished behaviour is replayed on the real Machine and compared "
             "as discharged de Bruijn terms; random larger terms are run on the real machine and the recorded "
             "outcomes are validated by the trace specification Obs_Uplc (spec machine, chunked steps).",
        design_ref="DESIGN.md section 6 C03, section 4.1",
        note="Trusted: my transcription of the CEK machine and builtin denotations (anchored on 454 upstream goldens "
             "incl. budgets), harness JSON conversion, python term generator. Cryptographic builtins and integers "
             "beyond 2^30 are 'unknown' to the spec: skipped and counted, never judged.",
        technique="TLA+ spec of the CEK machine, TLC exhaustive enumeration + replay into the real machine, "
                  "observation validation of recorded runs against the spec"),
}

NOT_BUILT = "not built yet (machinery under construction, see DESIGN.md section 10)"


def main():
    checks = []
    for pid in PROPS:
        if pid not in CHECKS:
            continue
        c = CHECKS[pid]
        checks.append({
            "property_id": pid,
            "quick_cmd": "./check %s --tier quick" % pid,
            "thorough_cmd": "./check %s --tier thorough" % pid,
            "evidence_file": "evidence/%s.json" % pid,
            "replay_cmd_template": "./check %s --replay {path}" % pid,
            "engine": "tlc+harness",
            "level_claimed": {"category": c["category"], "text": c["text"], "design_ref": c["design_ref"]},
            "level_note": c["note"],
            "technique": c["technique"],
        })
    m = {
        "version": 1,
        "setup_cmd": "./check --setup",
        "hooks": {
            "guard": "aiken_verif",
            "enable": "rustflags --cfg aiken_verif in /verif/harness/.cargo/config.toml; the harness crate "
                      "path-depends on /repo/crates/{uplc,aiken-lang,aiken-project} and is rebuilt by every check",
            "baseline_off_cmd": "cd /repo && cargo test --workspace --no-fail-fast --offline",
            "source_commits": HOOK_COMMITS,
            "add_only": True,
        },
        "engines": [
            {"name": "tlc+harness", "path": "check",
             "serves_properties": sorted(CHECKS),
             "kind_free_text": "TLA+ specifications in spec/ checked by TLC; behaviours replayed into / recorded "
                               "from the real crates by the Rust harness in harness/; orchestrated by tools/*.py"},
        ],
        "checks": checks,
        "notes": "See DESIGN.md. Exit codes of every check: 0 held, 1 VIOLATION line printed, 2 tool error.",
        "not_applicable": [{"property_id": p, "reason": NOT_BUILT} for p in PROPS if p not in CHECKS],
    }
    json.dump(m, open(os.path.join(ROOT, "MANIFEST.json"), "w"), indent=1)
    subprocess.run(["python3-vt", "-c",
                    "import json,jsonschema;jsonschema.validate(json.load(open('%s/MANIFEST.json')),"
                    "json.load(open('/root/.vp/MANIFEST.schema.json')));print('manifest ok')" % ROOT], check=True)


if __name__ == "__main__":
    main()
