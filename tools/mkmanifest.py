#!/usr/bin/env python3
"""Regenerates MANIFEST.json from the table below (single source of truth for what is claimed)."""
import json, os, subprocess

ROOT = os.path.dirname(os.path.dirname(os.path.abspath(__file__)))
PROPS = [json.loads(l)["id"] for l in open(os.path.join(ROOT, "properties.jsonl"))]

HOOK_COMMITS = ["d458cd0", "e0f9fe4"]   # filled as hooks are added to /repo

CHECKS = {
    "C03": dict(
        category="model_checking",
        text="Uplc.tla (the CEK machine written from the Plutus Core specification, anchored against the upstream "
             "conformance goldens) is model-checked by TLC over every closed term up to a node bound per atom "
             "profile and semantics variant; every finished behaviour is replayed on the real Machine and compared "
             "as discharged de Bruijn terms; random larger terms are run on the real machine and the recorded "
             "outcomes are validated by the trace specification Obs_Uplc (spec machine, chunked steps).",
        design_ref="DESIGN.md section 6 C03, section 4.1",
        note="Trusted: my transcription of the CEK machine and builtin denotations (anchored on 454 upstream goldens "
             "incl. budgets), harness JSON conversion, python term generator. Cryptographic builtins and integers "
             "beyond 2^30 are 'unknown' to the spec: skipped and counted, never judged.",
        technique="TLA+ spec of the CEK machine, TLC exhaustive enumeration + replay into the real machine, "
                  "observation validation of recorded runs against the spec"),
}

CHECKS["C04"] = dict(
    category="model_checking",
    text="UplcBuiltins.tla gives every modelled builtin's denotation (from the Plutus builtin specification). MC_Builtin "
         "enumerates each of the 89 builtins against the full product of per-position boundary pools (zero, negative, at and "
         "one past each boundary, symbolic huge integers beyond 64/128 bits, empty / word-boundary byte strings, every Data "
         "constructor, wrong-typed constants, non-constant values) x force counts x semantics variants; TLC computes the "
         "expected result with the spec machine; every row is executed on the real machine twice (bare and inside another "
         "program) and compared. " 
         "MC_Serialise states the CBOR bytes of serialiseData on a pool of Data values, with integers around 2^63 / 2^64 / 2^128 given by the bytes of their CBOR argument; replayed on data constants and through iData.",
    design_ref="DESIGN.md section 6 C04, section 4.1 MC_Builtin",
    note="Hashes, signatures, BLS arithmetic, expModInteger numerics and results beyond 2^30 are not computed by the spec "
         "(TLC has 32-bit integers, no crypto): for those rows only typing / arity / failure shape and absence of crashes are "
         "decided. Denotations are anchored on the upstream per-builtin conformance goldens.",
    technique="TLA+ denotations of the builtins, TLC exhaustive enumeration over boundary pools + replay into the real machine")
CHECKS["C05"] = dict(
    category="model_checking",
    text="MC_Budget.tla models the implementation-shaped accounting (finite budget, start-up charge, per-kind unbudgeted step "
         "counters flushed every `slippage` steps, immediate builtin charges, final flush) next to the pure machine; TLC checks "
         "Exact, Threshold and BatchBound for every term x slippage x budget in the bound, and every run is replayed on the real "
         "Machine::new(lang, costs, budget, slippage) comparing verdict and remaining budget. Builtin costing functions are "
         "compared row by row (MC_Builtin); random programs run under random slippage are validated (value and cost) by the "
         "trace spec Obs_Uplc and re-run at budget C, C-1cpu, C-1mem.",
    design_ref="DESIGN.md section 6 C05, section 4.1",
    note="Default ledger cost parameters per variant (UplcCostTable.tla, validated against the upstream budget goldens through "
         "the spec machine). Synthetic / permuted cost-parameter vectors are not covered. Costs above 2^31 are skipped.",
    technique="TLA+ model of batched budget accounting checked by TLC (exactness, threshold), replayed into the real machine; "
              "cost observations validated against the spec")
CHECKS["C10"] = dict(
    category="model_checking",
    text="Evaluation side: the specification's Step is total (TLC finds no stuck state on open, ill-scoped and ill-typed "
         "terms); every such term, every MC_Builtin row (forces-1/0/+1, huge and wrong-typed arguments), absurd indices and "
         "tags, and random ill-typed programs are run on the real machine under several budgets (max, 0, negative, tiny with "
         "slippage 1) and through the public Program::eval_version* + EvalResult accessors in a build with overflow checks: "
         "any panic is a violation. Compilation side is exercised by the C01/C02 machinery.",
    design_ref="DESIGN.md section 6 C10",
    note="A hang is detected only through the harness timeout. Stack depth: the harness runs the machine on a 1 GiB stack, so "
         "stack exhaustion on deep terms is not decided here (see C20).",
    technique="TLC totality check of the spec machine on malformed terms + replay of every enumerated case into the real "
              "machine under catch_unwind with overflow checks")

CHECKS["C11"] = dict(
    category="model_checking",
    text="DeBruijn.tla defines binding by the classical reference semantics (an occurrence refers to the innermost enclosing "
         "binder with the same unique; the de Bruijn form is the resolution) and transcribes the converter's scope stack; TLC "
         "checks the transcription against the reference, there-and-back identity and closedness on every named term (2 uniques x "
         "2 texts, shadowing, duplicate uniques, binders under delay/constr/case, open and closed) and every index term (indices "
         "0..depth+1) up to a node bound. Every enumerated term is replayed through the real conversions (name -> de Bruijn, "
         "name -> named de Bruijn, Program::to_debruijn, CodeGenInterner, de Bruijn -> name -> de Bruijn): same resolution, and an "
         "error iff the spec says the term is open. Random larger terms beyond the bound.",
    design_ref="DESIGN.md section 6 C11, section 4.2",
    note="Alpha-equivalence is equality of de Bruijn forms. Evaluation-equivalence follows from structural equality and is not "
         "re-run. The parser's text interner is not covered.",
    technique="TLA+ reference semantics of binding + transcribed converter checked by TLC; exhaustive replay into the real converters")

CHECKS["C01"] = dict(
    category="model_checking",
    text="Aiken.tla states the source semantics (values, Data encoding of every serialisable type, patterns, a strict first-match "
         "definitional interpreter with no notion of lowering). A seeded typed generator produces whole modules (ADTs incl. generic "
         "and recursive, records, tuples, pairs, lists, Option, lambdas, higher-order and mutually recursive helpers, when/if/let/"
         "expect, casts from and to Data, pipes, and/or blocks); the real parser, checker, code generator, optimiser and machine run "
         "them on Data arguments and every run is one event of a trace that the TLA+ trace specification Obs_Aiken accepts iff the "
         "observed value / abort is Eval's. TLC additionally enumerates operator families exhaustively (MC_AikenExpr: arithmetic "
         "incl. all floor division / modulo sign cases and division by zero, short-circuit && / || / and / or over aborting "
         "operands, comparisons, let strictness) on an argument grid and every (expression, argument) pair is replayed. " 
         "Directed families (tools/aikendirected.py: list-pattern shapes under expect x list lengths, casts from Data x ill-formed data, bindings used only by a trace, one constant three times per operand position for integer and byte-array builtins, Data parameters through function values, recursive functions with static / swapped / shadowed / functional parameters, strictness of zero-argument functions / guards / expect on discards, generic functions at several instances in one program, String-bearing containers, BLS12-381 point constants as multiples of the generator) are judged by Eval under silent and verbose tracing.",
    design_ref="DESIGN.md section 6 C01, section 4.6",
    note="Trusted: my reading of the language semantics; the python renderer (every rendered module is re-checked by the real type "
         "checker under its annotations). Strings are ASCII; BLS points are the three literals fixed by the standard (generator, its negation, infinity) and small multiples of them; integers small; recursion fuel 60; programs the spec cannot judge "
         "are skipped and counted.",
    technique="TLA+ definitional interpreter of Aiken source; trace validation of compiled-code runs by TLC; TLC-enumerated "
              "expression families replayed through the real compiler")
CHECKS["C02"] = dict(
    category="translation_validation",
    text="A cfg-guarded hook records the program handed to aiken_optimize_and_intern. For every generated well-typed module under "
         "silent and verbose tracing, the pre-optimisation program, the program after each of the 8 optimiser stages (replayed "
         "through the public pass functions; the replay must reproduce the real output bit for bit) and the final program are "
         "evaluated on the same arguments and must all agree (same value, or all fail); a panic anywhere is a violation. The "
         "pre-optimisation runs are additionally validated against Aiken.tla by Obs_Aiken, so the chain is anchored at the source "
         "semantics. " 
         "The same directed families (incl. BLS12-381 point constants that the optimiser collects and shares) and a module of constants beyond a machine word go through the same stage chain.",
    design_ref="DESIGN.md section 6 C02",
    note="The `__no_inline__` marker lambdas the code generator leaves for the optimiser are erased before an intermediate program "
         "is evaluated (they are never applied; clean_up_no_inlines erases them). Both sides are evaluated by the real machine. "
         "Optimizer.tla (rule-level model) is not built.",
    technique="translation validation of (pre, every stage, post) program chains recorded through a hook; pre-optimisation runs "
              "validated against the TLA+ source semantics")
CHECKS["C06"] = dict(
    category="model_checking",
    text="Every module the real checker accepts is run on conforming arguments under silent and verbose tracing; Obs_Aiken (Aiken.tla) "
         "decides the expected outcome, so a failure must be one the source asks for, and any structural machine error class "
         "(TypeMismatch, NonFunctionalApplication, NonPolymorphicInstantiation, OpenTermEvaluated, MissingCaseBranch, NotAConstant...) "
         "is a violation. A family of single-rule ill-typed mutants must be rejected by the checker. " 
         "A table of ill-typed modules (26 syntactic positions x type pairs, 12 kinds of misuse) must be rejected and their well-typed controls accepted; the directed families must not fail structurally.",
    design_ref="DESIGN.md section 6 C06",
    note="Type soundness of Aiken.tla itself is evidenced by the spec never getting stuck on accepted programs (stuck = 'unknown', "
         "counted). The reject side covers only the listed typing rules.",
    technique="trace validation of compiled runs against the TLA+ source semantics + error-class monitor + ill-typed mutants")
CHECKS["C14"] = dict(
    category="model_checking",
    text="Aiken.tla's Eval has no tracing parameter. Each generated module is type-checked and compiled under all 9 Tracing values "
         "(3 scopes x 3 levels) and run on the same inputs: every run must be accepted by Obs_Aiken (equal to Eval) and the 9 runs of "
         "each (program, input) must agree with each other. " 
         "The directed families (all 9 settings) and a parameterised validator with typed redeemers / datums on conforming and near-miss script contexts are compared across the 9 settings as well.",
    design_ref="DESIGN.md section 6 C14",
    note="Trace arguments are literals in the generated programs; the compiler's erasure of trace-argument evaluation under "
         "compact/silent (DESIGN.md section 7 #12) is not yet exercised by this check.",
    technique="TLA+ source semantics without a tracing parameter; trace validation of runs under all 9 tracing settings")

CHECKS["C12"] = dict(
    category="model_checking",
    text="Obs_Schema.tla relates, per (type, data) event, three independent statements - CIP-57 conformance to the PUBLISHED schema "
         "(as found in the blueprint, $refs followed), Aiken.tla's FromData (what `expect _: T = d` means) and the shape the type "
         "prescribes for its schema - with two observations of the real code: Parameter::validate and the compiled expect. 54 types "
         "(ADTs, generic instantiations, records, Option, lists, tuples, pairs, maps, Bool, Void, Data, nested, recursive) x all values "
         "of a finite universe and random deeper values, serialised, plus every single-node near miss of them and random data. "
         "The event is accepted iff all five coincide. Pairs of sibling instances of one generic type are also converted in ONE program, in both orders: each conversion must do what it does alone.",
    design_ref="DESIGN.md section 6 C12",
    note="The data universe is produced by python (input generation only; the verdict is TLC's). Definite vs indefinite CBOR forms of "
         "the same data are not distinguished. The catalogue includes `@tag` (on the type, on one of several constructors, on a single explicit constructor), `@list` records and String-bearing containers.",
    technique="TLA+ statement of CIP-57 conformance and of the type's Data conversion; trace validation of validate / expect observations")

CHECKS["C07"] = dict(
    category="model_checking",
    text="MC_Match.tla: for each scrutinee type TLC enumerates EVERY clause list of up to K clauses over a depth-2 pattern grammar "
         "(constructors positional and labelled, tuples, pairs, lists with / without `..rest`, Int and Bool literals, variables, "
         "discards) and decides from the semantic definition (Aiken.tla's Match over a complete value universe) the first unreachable "
         "clause, exhaustiveness, and for every value the first matching clause with its bindings in order. Each clause list is given "
         "to the real checker (verdict class must agree; every pattern it reports missing must denote an unmatched value) and, when "
         "accepted, compiled and run on every value of the universe comparing clause index and bound values. " 
         "Added universes: ListIntSmall (K = 3), TupListSmall (a list column beside a refutable column, K = 4), IntBig (literals beyond a machine word as placeholders). Every single pattern of the enumeration is also replayed under `let`: accepted iff it matches every value, and then its bindings are compared on the whole universe.",
    design_ref="DESIGN.md section 6 C07",
    note="The usefulness algorithm itself is not transcribed (the checker is compared with the semantic definition directly). `as` "
         "patterns, alternatives and ByteArray literals are exercised by the C01 generator only; `expect` single-pattern forms by C01's generator "
         "and directed families.",
    technique="TLC enumeration of pattern matrices with semantic verdicts; exhaustive replay into the real checker and compiled code")

CHECKS["C16"] = dict(
    category="model_checking",
    text="Shrink.tla defines fuzzers as prefix-deterministic readers of choice sequences (constant, fixed and data-dependent lengths, "
         "rejecting ('None on replay'), branching), properties, the three failure expectations, Status, and the short-lex order. "
         "MC_ShrinkCache models the result cache the way the code works (longest stored prefix, Invalid only answers for itself, pruning "
         "of extensions); TLC explores every query history in the bound checking that every answer is the true status, and every "
         "history is replayed on the real Cache. MC_Shrink is the property spec of shrinking (Consider is the only way `best` changes; "
         "best stays real and never longer); every first failing case in its bound plus random longer ones is shrunk by the real "
         "Counterexample::simplify driven by closure fuzzers mirroring the catalogue, and each run (query log, final choices, value) "
         "is validated by the trace spec Obs_Shrink: real counterexample, replays to its value, short-lex no larger than the first "
         "failing case, every query answered truthfully, terminated; repeated runs give the same report. " 
         "End to end: an authored project (corpus/c16_project: the catalogue's byte / pair / constant fuzzers x 6 properties x 3 expectations, and fuzzers whose evaluation fails) is run by the real test runner, twice per seed; each property test is an event for Obs_Shrink (WhyE2E).",
    design_ref="DESIGN.md section 6 C16, section 4.8",
    note="Fuzzers are abstract closures, not compiled Aiken fuzzers: PropertyTest::run's seed / label / iteration bookkeeping and the "
         "`fail` / `fail once` verdict inversion are stated in Shrink.tla (TestPasses) but not bound to the code by this check. The "
         "simplify algorithm is not transcribed (only its observable contract is specified).",
    technique="TLC over all cache query histories + replay; TLA+ property spec of shrinking; trace validation of real simplify() runs")

CHECKS["C18"] = dict(
    category="model_checking",
    text="MC_Blueprint.tla: a parameterised validator group under every history of tool operations (Apply(d) with d from a pool of "
         "conforming and near-miss data, SaveLoad). TLC checks that accepted applications consume parameters in order and that refusals "
         "and save/load change nothing, and prints every history with the expected outcome of each step and the verdict each handler "
         "must give once all parameters are applied (computed by Aiken.tla's Eval from the handler bodies, which the harness renders "
         "into the validator source). Every history is replayed through Blueprint::apply_parameter and serde: accept / refuse / never "
         "panic, remaining parameters, handlers in step, hash recomputed independently, code changes exactly on accepted applications, "
         "and the fully applied code (through the blueprint, and by plain application to the original code) decides as the source says. " 
         "Other validators of the module whose names extend the target's must not change; the same histories run on the blueprint re-declared for Plutus V1 / V2 (hash for the declared version).",
    design_ref="DESIGN.md section 6 C18, section 4.10",
    note="Validators have three handlers with Data-typed arguments and minimal hand-made V3 script contexts. Addresses are not "
         "recomputed. One-by-one vs all-at-once application and apply_params_to_script (tx.rs) are not covered.",
    technique="TLC enumeration of apply / save-load histories with expected outcomes; replay through the real blueprint API")

CHECKS["C09"] = dict(
    category="model_checking",
    text="CodeGenReuse.tla models what the code generator relies on to be history-independent (counters reset by finalize, a constant "
         "cache that survives resets and replays the id increments of a compilation, clones for property tests) and TLC checks over every "
         "history in the bound that the output attached to an item is a function of the item alone. Every history (generate / generate on "
         "a dropped clone / continue on a clone, over functions referring to 0-3 shared module constants in different orders and a "
         "3-handler validator) is replayed on one real CodeGenerator under two tracing modes and each program is compared byte for byte "
         "with a fresh generator's. The project is also built repeatedly (in-process repeats with fresh hash seeds, separate processes, "
         "1/4/16 rayon threads) and the blueprints must be identical. " 
         "The corpus has 12 items (shared module constants, a 3-handler validator, two curried builtins hoisted to one scope, expect messages differing by white space only, mutual recursion, a generic function at two types, traces); a four-module project with equal validator names is built repeatedly and each validator built together must equal the validator built alone.",
    design_ref="DESIGN.md section 6 C09, section 4.7",
    note="Hash-map seed space, file discovery order and scheduling are sampled by repetition, not enumerated; permutations of module "
         "registration order are not covered. The comparison itself is byte equality.",
    technique="TLC enumeration of generator-reuse histories + replay on the real CodeGenerator; repeated builds")

CHECKS["C17"] = dict(
    category="model_checking",
    text="RcRace.tla models non-atomic strong counts (clone / drop = read then write) for workers with given reach sets; TLC explores every "
         "interleaving: with pairwise disjoint reach the counts stay exact, with one shared allocation it produces the corrupting schedule. "
         "The reach sets are observed, not assumed: a cfg-guarded hook hands the Vec<Test> to the harness right before into_par_iter; the "
         "harness walks every Rc reachable from every unit / property / benchmark program, records owners and strong counts, and the "
         "project passes iff no allocation is reachable from two tests, none is also held outside the tests (compiler caches, checked "
         "modules) and no unit test still carries its assertion. The same projects are then checked under 1/2/16 rayon threads and must "
         "give identical result sequences.",
    design_ref="DESIGN.md section 6 C17, section 4.9",
    note="Projects: an authored one (48 tests over the same module constants, hoisted functions and types, property tests with `fail` and "
         "`fail once`) and the dependency-free acceptance projects. The Fuzzer's Rc<tipo::Type> (only read after the parallel section) is "
         "not walked. Interleavings are explored on the model, not by racing real threads.",
    technique="TLC over all interleavings of non-atomic refcount updates, instantiated with the ownership graph observed through a hook")

CHECKS["C13"] = dict(
    category="model_checking",
    text="Fmt.tla states the operator grammar where layout decisions are semantic (13 binary operators on 5 precedence levels with their "
         "associativity, prefix operators, n-ary pipelines, parentheses leave no node) with two printers (fewest parentheses, all "
         "parentheses) and a precedence-climbing parser; TLC checks that the parser inverts both printers on every tree of the bound. "
         "Each tree is replayed: the real parser must read both renderings as the tree, the real formatter's output must be read as the "
         "tree again and formatting twice must change nothing. Beyond the fragment: the 167 shipped .ak files and seeded modules over the "
         "surface grammar go through parse -> format -> parse with syntax trees compared after erasing positions, comments and doc "
         "comments compared in order, and idempotence. " 
         "Fmt.tla also states calls, constructors (curly rule, punning) and captures (labelled holes). `aiken fmt` in place (format_files) is run on the corpus, the fixed inputs and a third of the generated modules.",
    design_ref="DESIGN.md section 6 C13",
    note="Only the operator / pipeline fragment has a TLA+ statement; records, patterns, definitions, literals, comments are covered by "
         "the round trip alone. Tree equality is modulo four layout-only differences listed in the evidence assumptions. Four recorded "
         "known findings are excluded from the generator and re-run as fixed reproducers.",
    technique="TLA+ operator grammar with printers and parser checked by TLC, every tree replayed through the real parser and formatter; round trip on corpus and generated modules")

CHECKS["C19"] = dict(
    category="model_checking",
    text="TxSim.tla is the redeemer loop of eval_phase_two: redeemers in the transaction's order, script and datum looked up in what the "
         "witnesses and resolved inputs provide, each script run against the budget left by the previous ones, first failure ends the "
         "simulation. TLC checks the accounting and fails-iff invariants on every transaction of the bound and prints each outcome. Every "
         "one is built as a real Conway transaction (pallas encoders; ledger indices computed by the harness from the sorting rule) and "
         "given to eval_phase_two in three orders of resolved inputs / witness scripts / datums / body inputs / redeemer container. The "
         "verdict, the reported units (equal to the cost of running the script directly, for scripts that ignore their arguments) and the "
         "hand-over of the budget must be the specification's in every order. Picky scripts succeed only on their own redeemer, their own "
         "datum and the right purpose, which binds the argument convention per language and the sorting of inputs, policies and accounts. " 
         "Scripts may sit in the witness set, on a reference input, on a spent input, or be missing; the thorough tier adds every transaction of 3 redeemers over a smaller catalogue. Each transaction is run once more with every spent / referenced output taken from ONE previous transaction (out-refs differing by index only), and Plutus V1 transactions are enumerated on their own (MC_TxSimV1.cfg).",
    design_ref="DESIGN.md section 6 C19",
    note="No cost models are supplied (the `aiken tx simulate` path). Certificates, votes, proposals and the time range are "
         "not exercised; the script context is not specified field by field. Which failure is reported when several are present is not "
         "compared (the property does not say).",
    technique="TLA+ model of the redeemer loop checked by TLC, every behaviour replayed as a real transaction under permutations")

CHECKS["C15"] = dict(
    category="model_checking",
    text="UplcText.tla states the concrete syntax (the table of built-in names, type and constant syntax, Data syntax, string escapes) "
         "and prints programs as pieces; MC_Text enumerates one program per built-in name, per constant type and nesting, per string "
         "escape class, per Data tag range and per term constructor. For each, (a) the real parser on the SPECIFICATION's text must "
         "return the program (this binds the parser to the spec independently of the printer), (b) the real printer's text must parse "
         "back to the program and (c) printing it again is a fixed point. Random programs beyond the tables go through (b) and (c). " 
         "Every string escape class also NESTED in a list / pair; integers beyond a machine word in constants and Data (placeholders substituted in term and text alike).",
    design_ref="DESIGN.md section 6 C15, section 4.4",
    note="BLS constants are not representable in the interchange format. The bare de Bruijn form (index-derived names) is not meant "
         "to be read back and is not checked. Parse is not specified as a function on arbitrary token sequences (that is C20).",
    technique="TLA+ statement of the concrete syntax, TLC-enumerated table programs, replay through the real parser and printer")

CHECKS["C08"] = dict(
    category="model_checking",
    text="Flat.tla states the bit-level flat encoding (term and type tags, 7-bit naturals, zig-zag integers, cons-bit lists, pre-aligned "
         "255-byte chunked byte strings, final filler), the Plutus CBOR encoding of Data and the CBOR wrapping of scripts. MC_Flat "
         "computes the bytes for every program of the syntax tables (all built-ins, constant types and nestings, string classes, Data tag "
         "ranges, term constructors) plus chunk- and group-boundary cases; the real encoder must produce exactly these bytes (flat, CBOR, "
         "hex) and the three decoders must read the specification's bytes back to the program; named / fake-named forms must agree. Random "
         "programs: to_flat -> from_flat -> to_flat is the identity. The blueprint / hash / save-load histories are C18's (MC_Blueprint). " 
         "Programs whose whole encoding is 23 / 24 / 255 / 256 bytes (CBOR header forms); the published hash must be the ledger hash for the declared Plutus version across load / save (v1, v2, v3).",
    design_ref="DESIGN.md section 6 C08, section 4.3",
    note="Foreign-but-valid Data encodings (definite arrays, chunked bytes, non-compact tags) are not generated; addresses are not "
         "recomputed. Hash = blake2b-224(version tag || code) is recomputed independently in C18.",
    technique="TLA+ specification of the flat / CBOR encodings, TLC-computed expected bytes, replay through the real encoder and decoders")
CHECKS["C20"] = dict(
    category="model_checking",
    text="Near-valid inputs are derived from the SPECIFICATION's own encodings (Flat.tla / UplcText.tla via TLC): every truncation, sampled "
         "bit flips, control-byte substitutions and trailing garbage for the flat / CBOR decoders; token-level mutations, unknown names, "
         "huge numerals and deep nesting for the UPLC text parser; field-level mutations of a real blueprint for JSON loading; token-level "
         "mutations and deep nesting of generated Aiken sources for the lexer / parser / formatter. Every input runs under catch_unwind with "
         "a per-input time limit: a panic, a hang or a killed process is a violation, and whatever decodes must survive its own encode / "
         "decode. Parameter validation / application on near-miss data is C12's and C18's (same call sites). " 
         "Every single-bit flip of small encodings, integer literals rewritten with odd sign runs, hex fields of the blueprint at lengths around the expected one; an input that times out is retried alone with a long limit before it is reported.",
    design_ref="DESIGN.md section 6 C20",
    note="The expected Ok / Err class of a mutated input is not computed (Decode is not modelled): the oracle is 'value or error, no "
         "crash, no hang' plus self-consistency. config.rs (aiken.toml) is not exercised.",
    technique="mutations of spec-generated encodings replayed into the real decoders / parsers under catch_unwind and a watchdog")

NOT_BUILT = "not built yet (machinery under construction, see DESIGN.md section 10)"


def main():
    checks = []
    for pid in PROPS:
        if pid not in CHECKS:
            continue
        c = CHECKS[pid]
        checks.append({
            "property_id": pid,
            "quick_cmd": "./check %s --tier quick" % pid,
            "thorough_cmd": "./check %s --tier thorough" % pid,
            "evidence_file": "evidence/%s.json" % pid,
            "replay_cmd_template": "./check %s --replay {path}" % pid,
            "engine": "tlc+harness",
            "level_claimed": {"category": c["category"], "text": c["text"], "design_ref": c["design_ref"]},
            "level_note": c["note"],
            "technique": c["technique"],
        })
    m = {
        "version": 1,
        "setup_cmd": "./check --setup",
        "hooks": {
            "guard": "aiken_verif",
            "enable": "rustflags --cfg aiken_verif in /verif/harness/.cargo/config.toml; the harness crate "
                      "path-depends on /repo/crates/{uplc,aiken-lang,aiken-project} and is rebuilt by every check",
            "baseline_off_cmd": "cd /repo && cargo test --workspace --no-fail-fast --offline",
            "source_commits": HOOK_COMMITS,
            "add_only": True,
        },
        "engines": [
            {"name": "tlc+harness", "path": "check",
             "serves_properties": sorted(CHECKS),
             "kind_free_text": "TLA+ specifications in spec/ checked by TLC; behaviours replayed into / recorded "
                               "from the real crates by the Rust harness in harness/; orchestrated by tools/*.py"},
        ],
        "checks": checks,
        "notes": "See DESIGN.md. Exit codes of every check: 0 held, 1 VIOLATION line printed, 2 tool error.",
        "not_applicable": [{"property_id": p, "reason": NOT_BUILT} for p in PROPS if p not in CHECKS],
    }
    json.dump(m, open(os.path.join(ROOT, "MANIFEST.json"), "w"), indent=1)
    subprocess.run(["python3-vt", "-c",
                    "import json,jsonschema;jsonschema.validate(json.load(open('%s/MANIFEST.json')),"
                    "json.load(open('/root/.vp/MANIFEST.schema.json')));print('manifest ok')" % ROOT], check=True)


if __name__ == "__main__":
    main()
