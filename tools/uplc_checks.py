"""Checks decided by Uplc.tla (+UplcBuiltins, UplcCostTable): C03, C04, C05, C10."""
import json, os, random, time, copy
import vlib, termgen
from vlib import log

SEMS = ["A", "B", "C", "D", "E"]


def cj(x):
    return json.dumps(x, sort_keys=True, separators=(",", ":"))


# --------------------------------------------------------------------------- spec side

def write_cfg(name, consts, invariants, spec="Spec"):
    d = vlib.workdir("cfg")
    p = os.path.join(d, name + ".cfg")
    with open(p, "w") as f:
        f.write("SPECIFICATION %s\nCONSTANTS\n" % spec)
        for k, v in consts.items():
            f.write("  %s = %s\n" % (k, v))
        f.write("INVARIANTS %s\nCHECK_DEADLOCK FALSE\n" % " ".join(invariants))
    return p


def tla_set(xs):
    return "{" + ", ".join('"%s"' % x for x in xs) + "}"


def mc_cek(profile, n, sems, openvars=0, maxsteps=300, workers=6, timeout=1500):
    cfg = write_cfg("MC_Cek_%s_%d_%d" % (profile, n, openvars),
                    {"N": n, "Profile": '"%s"' % profile, "Sems": tla_set(sems), "OpenVars": openvars,
                     "MaxSteps": maxsteps},
                    ["TypeOK", "ScopeSafety", "StepCount", "CostSane", "Emit"])
    r = vlib.tlc("MC_Cek", cfg=cfg, workers=workers, timeout=timeout, xmx="12g",
                 metaname="MC_Cek_%s_%d_%d" % (profile, n, openvars))
    if not r.ok:
        raise vlib.ToolError("MC_Cek(%s,%d) did not complete cleanly: %s\n%s" %
                             (profile, n, r.error, r.out[-1500:]))
    cases = r.tagged("REPLAY")
    if not cases:
        raise vlib.ToolError("MC_Cek(%s,%d) printed no REPLAY line" % (profile, n))
    return cases, r


def anchor_spec():
    """Validate the SPECIFICATION (not the code) against the upstream conformance goldens
    (corpus/conformance_v3.ndjson was converted once from crates/uplc/test_data/conformance and is
    committed, so this step does not depend on the code under test).  A disagreement is a spec bug:
    tool error."""
    p = os.path.join(vlib.ROOT, "corpus", "conformance_v3.ndjson")
    evs = [json.loads(l) for l in open(p)]
    res = vlib.validate_observations("Obs_Uplc", evs, "anchor", chunk=150, parallel=4)
    if res["bad"]:
        raise vlib.ToolError("specification disagrees with upstream goldens: %s" %
                             [(e["id"], w) for e, w in res["bad"][:5]])
    if res["ok"] < 400:
        raise vlib.ToolError("anchor: only %d goldens were judged" % res["ok"])
    return res


# --------------------------------------------------------------------------- implementation side

def eval_real(cases, timeout=3600):
    """cases: list of dicts for harness uplc_eval; returns observations in order."""
    for i, c in enumerate(cases):
        c["id"] = i
    obs = vlib.run_harness("uplc_eval", stdin_lines=cases, timeout=timeout)
    if len(obs) != len(cases):
        raise vlib.ToolError("harness returned %d observations for %d cases" % (len(obs), len(cases)))
    for o in obs:
        if "harness_error" in o:
            raise vlib.ToolError("harness could not decode a case: %s" % o["harness_error"])
    return obs


def outcome_mismatch(exp, obs_out):
    """exp: spec outcome; obs_out: observed outcome.  Returns None or a reason.  Compares only
    value-or-failure (C03 speaks about nothing finer)."""
    if exp["o"] == "unknown":
        return None
    if obs_out["o"] == "panic":
        return "evaluator panicked: %s" % obs_out.get("msg", "")[:200]
    if exp["o"] == "fail":
        return None if obs_out["o"] == "fail" else "spec: failure; observed a value"
    if obs_out["o"] != "val":
        return "spec: value; observed failure (%s/%s)" % (obs_out.get("c"), obs_out.get("e"))
    if cj(exp["v"]) != cj(obs_out["v"]):
        return "result differs"
    return None


def vkey(term, sem, obs_out):
    """key identifying a violation: the failing input, or - for a recorded finding - the call site"""
    t = cj(term)
    if obs_out.get("o") == "fail" and obs_out.get("e") == "OutsideNaturalBounds" and '"constrData"' in t \
            and '"expModInteger"' not in t:
        return "constrData:tag-outside-u64"
    return t + "|" + sem


def nontrivial(case):
    return case["n"] >= 3


# --------------------------------------------------------------------------- C03

PROFILES_QUICK = [("closure", 1, ["A", "E"]), ("core", 6, ["E"]), ("lambda", 5, ["E"]), ("lambda", 4, ["A", "C"]), ("constr", 4, ["C", "E"]),
                  ("poly", 4, ["E"]), ("arith", 3, ["A", "E"]), ("bytes", 3, ["A", "B", "C", "D", "E"]),
                  ("data", 3, ["E"]), ("bits", 3, ["D", "E"])]
PROFILES_THOROUGH = [("closure", 1, SEMS), ("core", 6, SEMS), ("lambda", 5, SEMS), ("constr", 5, ["C", "E"]), ("poly", 5, ["A", "E"]),
                     ("arith", 4, SEMS), ("bytes", 4, SEMS), ("data", 4, ["A", "E"]), ("bits", 4, ["D", "E"])]


def replay_mc(profiles, rep, prop, check_cost=False, openvars=0, workers=6, timeout=1500):
    """Run MC_Cek per profile, replay every finished behaviour on the real machine, compare."""
    tot = dict(states=0, transitions=0, cases=0, unknown=0, nontrivial=set(), samples=[], mism=0, reduced=[])
    for (profile, n, sems) in profiles:
        t0 = time.time()
        try:
            cases, r = mc_cek(profile, n, sems, openvars=openvars, workers=workers, timeout=timeout)
        except vlib.ToolError as ex:
            # a bound that does not finish in time on a loaded machine is explored one size smaller (and said so in the evidence), not reported
            if "timed out" not in str(ex) or n <= 2:
                raise
            log("[mc] %s N=%d did not finish within %ds: explored at N=%d instead" % (profile, n, timeout, n - 1))
            tot["reduced"].append({"profile": profile, "N_planned": n, "N_explored": n - 1, "reason": "TLC did not finish within %d s" % timeout})
            n -= 1
            cases, r = mc_cek(profile, n, sems, openvars=openvars, workers=workers, timeout=timeout)
        tot["states"] += r.distinct
        tot["transitions"] += r.generated
        obs = eval_real([{"term": c["term"], "var": c["sem"]} for c in cases])
        for c, o in zip(cases, obs):
            tot["cases"] += 1
            if c["out"]["o"] == "unknown":
                tot["unknown"] += 1
                if o["out"]["o"] == "panic":
                    rep.violation("panic:" + cj(c["term"]) + c["sem"], {"term": c["term"], "sem": c["sem"], "observed": o},
                                  "evaluator panicked: %s" % o["out"].get("msg", "")[:200])
                continue
            why = outcome_mismatch(c["out"], o["out"])
            if why is None and check_cost and c["out"]["o"] == "val":
                if o["cost"] != c["cost"]:
                    why = "cost differs: spec %s observed %s" % (c["cost"], o["cost"])
            if why:
                tot["mism"] += 1
                rep.violation(vkey(c["term"], c["sem"], o["out"]),
                              {"term": c["term"], "sem": c["sem"], "expected": c["out"], "expected_cost": c["cost"],
                               "observed": o, "source": "MC_Cek profile=%s N=%d" % (profile, n)}, why)
            if nontrivial(c):
                tot["nontrivial"].add(vlib.canon_hash(c["term"]))
        if cases:
            tot["samples"].append({"profile": profile, "N": n, "term": cases[len(cases) // 2]["term"],
                                   "sem": cases[len(cases) // 2]["sem"], "expected": cases[len(cases) // 2]["out"]})
        log("[mc] %s N=%d sems=%s: %d behaviours, %d states, %.1fs" % (profile, n, sems, len(cases), r.distinct, time.time() - t0))
    return tot


def comparator_canary(prop):
    """flip one expectation: the comparator must notice"""
    exp = {"o": "val", "v": {"k": "con", "c": {"t": "int", "v": 1}}}
    if outcome_mismatch(exp, {"o": "val", "v": {"k": "con", "c": {"t": "int", "v": 2}}}) is None or \
       outcome_mismatch(exp, {"o": "val", "v": {"k": "con", "c": {"t": "bool", "v": True}}}) is None or \
       outcome_mismatch(exp, {"o": "fail", "c": "user"}) is None or \
       outcome_mismatch({"o": "fail"}, exp) is None:
        raise vlib.ToolError("%s: comparator canary did not fire" % prop)


def observe_random(seed, n, sems, fuel, check):
    """random closed terms -> real machine -> observation events for Obs_Uplc"""
    rng = random.Random(seed)
    events = []
    per = max(1, n // len(sems))
    for s in sems:
        terms = termgen.random_terms(rng.randint(0, 1 << 30), per, fuel=fuel, sem=s)
        obs = eval_real([{"term": t, "var": s} for t in terms])
        for t, o in zip(terms, obs):
            events.append({"id": len(events), "term": t, "sem": s, "out": o["out"], "cost": o.get("cost", {}), "chk": check})
    return events


def validate_events(events, name, rep, what, parallel=8, chunk=400, only=None):
    """Obs_Uplc on events recorded from the real machine; includes a corrupted canary event."""
    canaries = []
    for e in events:
        if e["out"]["o"] == "val" and e["out"]["v"].get("k") == "con" and e["out"]["v"]["c"].get("t") == "int" \
                and "hs" not in e["out"]["v"]["c"]:
            c = copy.deepcopy(e)
            c["out"]["v"]["c"]["v"] += 1
            c["canary"] = e["id"]
            canaries.append(c)
            if len(canaries) >= 8:
                break
    evs = list(events) + canaries
    panics = [e for e in evs if e["out"]["o"] == "panic"]
    res = vlib.validate_observations("Obs_Uplc", [e for e in evs if e["out"]["o"] != "panic"], name, chunk=chunk, parallel=parallel)
    skipped_ids = set(e["id"] for e, _ in res["skipped"] if "canary" not in e)
    fired = set()
    bad = []
    for e, why in res["bad"]:
        if "canary" in e:
            fired.add(e["canary"])
        else:
            bad.append((e, why))
    due = [c["canary"] for c in canaries if c["canary"] not in skipped_ids and c["canary"] not in set(b["id"] for b, _ in bad)]
    if events and (not due or any(d not in fired for d in due)):
        raise vlib.ToolError("observation canary: %d corrupted events due, %d rejected by Obs_Uplc" % (len(due), len(fired)))
    res["skipped"] = [(e, w) for e, w in res["skipped"] if "canary" not in e]
    if len(res["skipped"]) > 0.4 * max(1, len(evs)):
        raise vlib.ToolError("too many skipped observations: %d of %d" % (len(res["skipped"]), len(evs)))
    for e in panics:
        rep.violation("panic:" + cj(e["term"]) + e["sem"], {"term": e["term"], "sem": e["sem"], "observed": e["out"]},
                      "evaluator panicked: %s" % e["out"].get("msg", "")[:200])
    if only:
        bad = [(e, w) for e, w in bad if only in w]
    for e, why in bad:
        rep.violation(vkey(e["term"], e["sem"], e["out"]), {"term": e["term"], "sem": e["sem"], "observed": e["out"],
                                                          "observed_cost": e.get("cost"), "source": what}, "Obs_Uplc: " + why)
    res["bad_real"] = bad
    return res


def c03(tier):
    t0 = time.time()
    rep = vlib.Reporter("C03")
    comparator_canary("C03")
    anc = anchor_spec()
    profiles = PROFILES_QUICK if tier == "quick" else PROFILES_THOROUGH
    tot = replay_mc(profiles, rep, "C03", workers=6 if tier == "quick" else 12, timeout=1500 if tier == "quick" else 3000)
    nrand = 3000 if tier == "quick" else 40000
    events = observe_random(vlib.seed(), nrand, ["A", "C", "E"], (6, 60), "outcome")
    res = validate_events(events, "c03rand", rep, "random term (seed %d)" % vlib.seed())
    deep = sum(1 for e in events if vlib.term_size(e["term"]) >= 12)
    cov = {
        "states": tot["states"] + res["states"], "transitions": tot["transitions"] + res["generated"],
        "traces_validated_against_impl": tot["cases"] - tot["unknown"] + res["ok"],
        "samples": tot["samples"][:4] + [{"random_term": events[0]["term"], "observed": events[0]["out"]}],
        "evaluations": tot["cases"] + len(events),
        "distinct_nontrivial": len(tot["nontrivial"]) + deep,
        "rule": "MC_Cek: every term with <= N nodes over a profile's atom pool x semantics variants (exhaustive, "
                "TLC); random type-directed closed terms validated by Obs_Uplc. non-trivial: run of >= 3 machine "
                "steps (enumerated) / term of >= 12 nodes (random); distinct by canonical hash",
        "exhaustive": True, "spec_unknown_skipped": tot["unknown"] + len(res["skipped"]),
        "anchor_goldens_agreeing_with_spec": anc["ok"], "profiles": [list(p) for p in profiles], "bounds_reduced_for_time": tot["reduced"],
        "random_events": len(events), "random_events_accepted": res["ok"],
    }
    rc = rep.finish()
    vlib.write_evidence("C03", tier, "model_checking", cov,
                        ["Uplc.tla is my transcription of the Plutus Core CEK machine; anchored against the upstream "
                         "conformance goldens (value and budget) before use",
                         "python term generator and JSON conversion in harness/src/conv.rs are trusted",
                         "results beyond 2^30 and cryptographic builtins are 'unknown' to the spec: skipped, counted"],
                        time.time() - t0, len(rep.violations))
    return rc


def _replay_generic(path, prop):
    case = json.load(open(path))["case"]
    c = {"term": case["term"], "var": case["sem"]}
    for k in ("budget", "slippage", "costs", "pv", "lang"):
        if k in case:
            c[k] = case[k]
    if "lang" in case:
        del c["var"]
    o = eval_real([c])[0]
    print(json.dumps({"expected": case.get("expected"), "expected_cost": case.get("expected_cost"), "observed": o}, indent=1))
    why = None
    if case.get("expected"):
        why = outcome_mismatch(case["expected"], o["out"])
    elif o["out"]["o"] == "panic":
        why = "panic"
    if why:
        print("VIOLATION property=%s replay=%s" % (prop, path))
        return 1
    return 0


def c03_replay(path):
    return _replay_generic(path, "C03")


# --------------------------------------------------------------------------- C05, C04, C10 follow


# --------------------------------------------------------------------------- C04

BGROUPS = ["int", "bytes", "string", "poly", "data", "bits", "crypto", "chains"]


def mc_builtin(group, sems, slack, workers=6, timeout=1500):
    cfg = write_cfg("MC_Builtin_%s" % group,
                    {"Group": '"%s"' % group, "Sems": tla_set(sems), "ForceSlack": "TRUE" if slack else "FALSE"},
                    ["TypeOK", "CostSane", "ResultClosed", "Emit"])
    r = vlib.tlc("MC_Builtin", cfg=cfg, workers=workers, timeout=timeout, xmx="12g", metaname="MC_Builtin_" + group)
    if not r.ok:
        raise vlib.ToolError("MC_Builtin(%s) did not complete cleanly: %s\n%s" % (group, r.error, r.out[-1500:]))
    cases = r.tagged("REPLAY")
    if not cases:
        raise vlib.ToolError("MC_Builtin(%s) printed no REPLAY line" % group)
    return cases, r


def builtin_of(term):
    t = term
    while t["k"] in ("app", "force"):
        t = t["f"] if t["k"] == "app" else t["b"]
    return t.get("f")


def sems_for(group, tier):
    if tier == "thorough":
        return SEMS
    return {"bytes": ["A", "C", "E"], "string": ["A", "D", "E"], "bits": ["C", "E"]}.get(group, ["A", "E"])


def replay_builtins(tier, rep, check_cost, check_outcome=True):
    tot = dict(states=0, transitions=0, cases=0, unknown=0, nontrivial=set(), samples=[], per_builtin={}, succ=0)
    for g in BGROUPS:
        t0 = time.time()
        cases, r = mc_builtin(g, sems_for(g, tier), slack=(tier == "thorough" or g in ("poly",)))
        tot["states"] += r.distinct
        tot["transitions"] += r.generated
        real = [{"term": c["term"], "var": c["sem"]} for c in cases]
        # the same application inside another program: (force (delay t)) - equal arguments, equal answer
        wrapped = [{"term": {"k": "force", "b": {"k": "delay", "b": c["term"]}}, "var": c["sem"]} for c in cases]
        obs = eval_real(real + wrapped)
        obs1, obs2 = obs[:len(cases)], obs[len(cases):]
        for c, o, o2 in zip(cases, obs1, obs2):
            tot["cases"] += 1
            f = builtin_of(c["term"]) or "?"
            tot["per_builtin"][f] = tot["per_builtin"].get(f, 0) + 1
            if cj(o["out"]) != cj(o2["out"]):
                rep.violation("nondet:" + cj(c["term"]) + c["sem"], {"term": c["term"], "sem": c["sem"], "first": o, "second": o2},
                              "builtin answered differently for equal arguments in two programs")
            if c["out"]["o"] == "unknown":
                tot["unknown"] += 1
                if o["out"]["o"] == "panic":
                    rep.violation("panic:" + cj(c["term"]) + c["sem"], {"term": c["term"], "sem": c["sem"], "observed": o},
                                  "evaluator panicked: %s" % o["out"].get("msg", "")[:200])
                continue
            why = outcome_mismatch(c["out"], o["out"])
            if why and not check_outcome:
                continue        # a wrong RESULT is C04's business, not C05's
            if why is None and check_cost and c["out"]["o"] == "val" and o["cost"] != c["cost"]:
                why = "cost differs: spec %s observed %s" % (c["cost"], o["cost"])
            if why:
                rep.violation(vkey(c["term"], c["sem"], o["out"]),
                              {"term": c["term"], "sem": c["sem"], "expected": c["out"], "expected_cost": c["cost"],
                               "observed": o, "source": "MC_Builtin group=%s" % g}, why)
            if c["out"]["o"] == "val":
                tot["succ"] += 1
            tot["nontrivial"].add(vlib.canon_hash([c["term"], c["sem"]]))
        mid = cases[len(cases) // 3]
        tot["samples"].append({"group": g, "term": mid["term"], "sem": mid["sem"], "expected": mid["out"], "expected_cost": mid["cost"]})
        log("[mcb] %s: %d applications, %.1fs" % (g, len(cases), time.time() - t0))
    return tot


def big_json(d):
    """MC_Serialise data -> interchange data (integers given by the bytes of their CBOR argument become decimal `big` integers)"""
    if isinstance(d, dict):
        if d.get("d") == "I" and "big" in d:
            m = int.from_bytes(bytes(d["big"]["m"]), "big")
            n = -1 - m if d["big"]["neg"] else m
            return {"d": "I", "v": n} if abs(n) < (1 << 30) else {"d": "I", "v": 0, "big": str(n)}
        return {k: big_json(v) for k, v in d.items()}
    if isinstance(d, list):
        return [big_json(x) for x in d]
    return d


def serialise_family(rep):
    """MC_Serialise: the CBOR bytes of Data values (incl. integers around 2^63 / 2^64 given by their bytes) vs the real serialiseData"""
    r = vlib.tlc("MC_Serialise", workers=2, timeout=600, xmx="2g", metaname="MC_Serialise")
    if not r.ok:
        raise vlib.ToolError("MC_Serialise failed: %s\n%s" % (r.error, r.out[-1200:]))
    cases = r.tagged("REPLAY")
    if len(cases) < 60:
        raise vlib.ToolError("MC_Serialise printed only %d cases" % len(cases))
    terms, meta = [], []
    for c in cases:
        d = big_json(c["data"])
        terms.append({"term": {"k": "app", "f": {"k": "bi", "f": "serialiseData"}, "a": {"k": "con", "c": {"t": "data", "v": d}}}, "var": "E"})
        meta.append((c, "data constant"))
        if d.get("d") == "I":
            ic = {"t": "int", "v": d["v"]}
            if "big" in d:
                ic["big"] = d["big"]
            terms.append({"term": {"k": "app", "f": {"k": "bi", "f": "serialiseData"}, "a": {"k": "app", "f": {"k": "bi", "f": "iData"}, "a": {"k": "con", "c": ic}}}, "var": "E"})
            meta.append((c, "through iData"))
    obs = eval_real(terms)
    n_ok = 0
    for (c, how), t, o in zip(meta, terms, obs):
        out = o["out"]
        got = out.get("v", {}).get("c", {}) if out.get("o") == "val" else None
        if out.get("o") == "panic":
            rep.violation("serialise-panic:" + cj(c["data"]) + how, {"data": c["data"], "how": how, "observed": out}, "serialiseData panicked")
        elif got is None or got.get("t") != "bs" or list(got.get("v", [])) != list(c["bytes"]):
            rep.violation("serialise:" + cj(c["data"]) + "|" + how, {"data": c["data"], "how": how, "expected_hex": bytes(c["bytes"]).hex(),
                                                                  "observed": (bytes(got["v"]).hex() if got and got.get("t") == "bs" else out)},
                          "serialiseData (%s) gives %s, the specification %s" % (how, bytes(got["v"]).hex() if got and got.get("t") == "bs" else json.dumps(out)[:120], bytes(c["bytes"]).hex()))
        else:
            n_ok += 1
    # comparator canary
    if n_ok < len(terms) - 5 and not rep.violations:
        raise vlib.ToolError("serialise family: inconsistent bookkeeping")
    return {"states": r.distinct, "transitions": r.generated, "cases": len(terms), "ok": n_ok,
            "sample": {"data": cases[40]["data"], "bytes_hex": bytes(cases[40]["bytes"]).hex()}}


def c04(tier):
    t0 = time.time()
    rep = vlib.Reporter("C04")
    comparator_canary("C04")
    anc = anchor_spec()
    ser = serialise_family(rep)
    tot = replay_builtins(tier, rep, check_cost=False)
    tot["states"] += ser["states"]; tot["transitions"] += ser["transitions"]; tot["cases"] += ser["cases"]; tot["samples"].append({"serialiseData": ser["sample"]})
    if len(tot["per_builtin"]) < 80 or tot["succ"] < 1000:
        raise vlib.ToolError("C04 vacuity: %d builtins, %d successful applications" % (len(tot["per_builtin"]), tot["succ"]))
    cov = {
        "states": tot["states"], "transitions": tot["transitions"],
        "traces_validated_against_impl": tot["cases"] - tot["unknown"],
        "samples": tot["samples"], "evaluations": 2 * tot["cases"], "distinct_nontrivial": len(tot["nontrivial"]),
        "rule": "MC_Builtin: each builtin x product of per-position boundary pools (incl. symbolic huge integers, wrong-typed "
                "and non-constant values) x force counts x semantics variants; every case is distinct by construction; "
                "each is executed twice (bare, and inside (force (delay .))) and the two answers must coincide",
        "exhaustive": True, "builtins_covered": len(tot["per_builtin"]), "successful_applications": tot["succ"],
        "spec_unknown_only_crash_checked": tot["unknown"], "anchor_goldens_agreeing_with_spec": anc["ok"],
    }
    rc = rep.finish()
    vlib.write_evidence("C04", tier, "model_checking", cov,
                        ["UplcBuiltins.tla denotations are my transcription of the Plutus builtin specification, anchored on the "
                         "upstream per-builtin conformance goldens", "hashes, signatures, BLS arithmetic, expModInteger and results "
                         "beyond 2^30 are not computed by the spec: for those only typing / arity / failure shape and absence of "
                         "crashes are checked", "serialiseData is specified separately (MC_Serialise) on a pool of Data values, with integers around "
                         "2^63 / 2^64 / 2^128 given by the bytes of their CBOR argument"], time.time() - t0, len(rep.violations))
    return rc


def c04_replay(path):
    return _replay_generic(path, "C04")


# --------------------------------------------------------------------------- C05

def mc_budget(profile, n, sems, slippages, workers=6, timeout=1500):
    cfg = write_cfg("MC_Budget_%s_%d" % (profile, n),
                    {"N": n, "Profile": '"%s"' % profile, "Sems": tla_set(sems), "OpenVars": 0, "MaxSteps": 300,
                     "Slippages": "{" + ", ".join(str(x) for x in slippages) + "}"},
                    ["TypeOK", "Exact", "Threshold", "BatchBound", "BEmit"], spec="BSpec")
    r = vlib.tlc("MC_Budget", cfg=cfg, workers=workers, timeout=timeout, xmx="12g", metaname="MC_Budget_%s_%d" % (profile, n))
    if not r.ok:
        raise vlib.ToolError("MC_Budget(%s,%d) did not complete cleanly (a violated invariant here is a flaw of the "
                             "SPECIFICATION's accounting): %s\n%s" % (profile, n, r.error, r.out[-1500:]))
    cases = r.tagged("REPLAY")
    if not cases:
        raise vlib.ToolError("MC_Budget printed no REPLAY line")
    return cases, r


def budget_mismatch(c, o):
    out = o["out"]
    if out["o"] == "panic":
        return "evaluator panicked: %s" % out.get("msg", "")[:200]
    if c["verdict"] == "done":
        if out["o"] != "val":
            return "budget %s suffices (cost %s) but evaluation failed: %s/%s" % (c["budget"], c["cost"], out.get("c"), out.get("e"))
        if c["out"]["o"] == "val" and cj(c["out"]["v"]) != cj(out["v"]):
            return "result differs"
        if o["rem"] != c["rem"]:
            return "remaining budget differs: spec %s observed %s (slippage %s)" % (c["rem"], o["rem"], c["slippage"])
        return None
    if c["verdict"] == "budget":
        if out["o"] == "val":
            return "budget %s is below the cost %s but evaluation succeeded (remaining %s)" % (c["budget"], c["cost"], o["rem"])
        if c["pure"] == "done" and out.get("c") != "budget":
            return "expected an out-of-budget failure, observed %s/%s" % (out.get("c"), out.get("e"))
        return None
    # the term itself fails
    return None if out["o"] == "fail" else "spec: failure; observed a value"


def c05(tier):
    t0 = time.time()
    rep = vlib.Reporter("C05")
    anc = anchor_spec()
    profiles = [("lambda", 4, ["E"]), ("core", 5, ["A"]), ("poly", 3, ["C"])] if tier == "quick" else \
               [("lambda", 5, ["E"]), ("core", 5, ["A", "C"]), ("poly", 4, ["C", "E"]), ("constr", 4, ["E"])]
    slips = [1, 2, 3, 200]
    states = trans = ncases = 0
    nontriv = set()
    samples = []
    for (profile, n, sems) in profiles:
        t1 = time.time()
        cases, r = mc_budget(profile, n, sems, slips)
        states += r.distinct
        trans += r.generated
        obs = eval_real([{"term": c["term"], "var": c["sem"], "budget": c["budget"], "slippage": c["slippage"]} for c in cases])
        for c, o in zip(cases, obs):
            ncases += 1
            why = budget_mismatch(c, o)
            if why:
                rep.violation(cj([c["term"], c["sem"], c["budget"], c["slippage"]]),
                              {"term": c["term"], "sem": c["sem"], "budget": c["budget"], "slippage": c["slippage"],
                               "expected": {"verdict": c["verdict"], "rem": c["rem"], "cost": c["cost"]}, "observed": o,
                               "source": "MC_Budget %s N=%d" % (profile, n)}, why)
            if c["pure"] == "done" and c["cost"]["cpu"] >= 48100:
                nontriv.add(vlib.canon_hash([c["term"], c["budget"], c["slippage"]]))
        samples.append({k: cases[len(cases) // 2][k] for k in ("term", "sem", "slippage", "budget", "verdict", "rem", "cost")})
        log("[mcbudget] %s N=%d: %d runs, %.1fs" % (profile, n, len(cases), time.time() - t1))
    # canary: a flipped expectation must be noticed
    c0 = dict(cases[0]); o0 = obs[0]
    c0 = dict(c0, rem={"cpu": c0["rem"]["cpu"] + 1, "mem": c0["rem"]["mem"]}, verdict="done", out={"o": "unknown"})
    if budget_mismatch(c0, o0) is None:
        raise vlib.ToolError("C05 comparator canary did not fire")
    # builtin costing functions: every MC_Builtin row with its cost
    tb = replay_builtins(tier, rep, check_cost=True, check_outcome=False)
    # beyond the bound: random programs, cost recorded under a random slippage, validated by the spec machine;
    # then the threshold property relative to that (spec-validated) cost
    rng = random.Random(vlib.seed() + 5)
    nrand = 1500 if tier == "quick" else 20000
    events = []
    for sem in ["A", "C", "E"]:
        terms = termgen.random_terms(rng.randint(0, 1 << 30), nrand // 3, fuel=(6, 50), wrong=0.01, sem=sem)
        sl = [rng.choice([1, 2, 3, 5, 7, 50, 200, 1000]) for _ in terms]
        ob = eval_real([{"term": t, "var": sem, "slippage": s} for t, s in zip(terms, sl)])
        for t, s, o in zip(terms, sl, ob):
            events.append({"id": len(events), "term": t, "sem": sem, "out": o["out"], "cost": o.get("cost", {}), "chk": "both", "slippage": s})
    res = validate_events(events, "c05rand", rep, "random term, random slippage (seed %d)" % vlib.seed(), only="cost differs")
    good = [e for e in events if e["out"]["o"] == "val" and e["id"] not in set(x["id"] for x, _ in res["skipped"])
            and e["id"] not in set(x["id"] for x, _ in res["bad_real"])]
    thr_cases = []
    for e in good:
        c = e["cost"]
        for b, exp in (({"cpu": c["cpu"], "mem": c["mem"]}, "done"), ({"cpu": c["cpu"] - 1, "mem": c["mem"]}, "budget"),
                       ({"cpu": c["cpu"], "mem": c["mem"] - 1}, "budget")):
            thr_cases.append({"term": e["term"], "sem": e["sem"], "budget": b, "slippage": rng.choice([1, 3, 200]),
                              "verdict": exp, "pure": "done", "cost": c, "out": {"o": "unknown"},
                              "rem": {"cpu": 0, "mem": 0}})
    ob = eval_real([{"term": c["term"], "var": c["sem"], "budget": c["budget"], "slippage": c["slippage"]} for c in thr_cases])
    for c, o in zip(thr_cases, ob):
        why = budget_mismatch(c, o)
        if why:
            rep.violation(cj([c["term"], c["sem"], c["budget"], c["slippage"]]),
                          {"term": c["term"], "sem": c["sem"], "budget": c["budget"], "slippage": c["slippage"],
                           "expected": {"verdict": c["verdict"], "cost": c["cost"]}, "observed": o,
                           "source": "threshold on random term"}, why)
    cov = {
        "states": states + tb["states"] + res["states"], "transitions": trans + tb["transitions"] + res["generated"],
        "traces_validated_against_impl": ncases + tb["cases"] - tb["unknown"] + res["ok"] + len(thr_cases),
        "samples": samples + tb["samples"][:2],
        "evaluations": ncases + tb["cases"] + len(events) + len(thr_cases),
        "distinct_nontrivial": len(nontriv) + tb["succ"] + len(good),
        "rule": "MC_Budget: terms x slippage {1,2,3,200} x budgets {C, C-1cpu, C-1mem, C+, 0, start-up only, ...} "
                "(non-trivial: >= 3 machine steps); MC_Builtin rows with their costing function result; random "
                "programs with random slippage validated by Obs_Uplc (value and cost) then re-run at budget C, C-1cpu, C-1mem",
        "exhaustive": True, "budgeted_runs": ncases, "builtin_cost_rows": tb["succ"], "random_cost_events_accepted": res["ok"],
        "threshold_runs_on_random_terms": len(thr_cases), "anchor_budget_goldens_agreeing_with_spec": anc["ok"],
    }
    rc = rep.finish()
    vlib.write_evidence("C05", tier, "model_checking", cov,
                        ["UplcCostTable.tla holds the ledger's default cost parameters per semantics variant, validated against the "
                         "upstream .uplc.budget.expected goldens through the spec machine; synthetic cost vectors are not covered",
                         "costs that exceed 2^31 are outside TLC's integers: such events are skipped and counted"],
                        time.time() - t0, len(rep.violations))
    return rc


def c05_replay(path):
    case = json.load(open(path))["case"]
    c = {"term": case["term"], "var": case["sem"]}
    for k in ("budget", "slippage"):
        if k in case:
            c[k] = case[k]
    o = eval_real([c])[0]
    print(json.dumps({"expected": case.get("expected"), "expected_cost": case.get("expected_cost"), "observed": o}, indent=1))
    exp = case.get("expected") or {}
    bad = False
    if "verdict" in exp:
        cc = {"verdict": exp["verdict"], "rem": exp.get("rem", o.get("rem")), "cost": exp.get("cost"), "budget": case.get("budget"),
              "slippage": case.get("slippage"), "pure": "done", "out": {"o": "unknown"}}
        bad = budget_mismatch(cc, o) is not None
    else:
        bad = outcome_mismatch(exp, o["out"]) is not None or (case.get("expected_cost") and o.get("cost") != case["expected_cost"])
    if bad:
        print("VIOLATION property=C05 replay=%s" % path)
        return 1
    return 0


# --------------------------------------------------------------------------- C10 (evaluation part)

def extra_malformed():
    """inputs TLC's 32-bit integers cannot carry: absurd de Bruijn indices, very deep terms"""
    big = [1 << 40, (1 << 63) - 1, (1 << 64) - 1]
    out = []
    for i in big:
        v = {"k": "var", "i": i}
        out += [v, {"k": "lam", "b": v}, {"k": "app", "f": {"k": "lam", "b": {"k": "delay", "b": v}}, "a": {"k": "con", "c": {"t": "unit"}}},
                {"k": "app", "f": {"k": "lam", "b": {"k": "lam", "b": {"k": "constr", "tag": 0, "fs": [v]}}}, "a": {"k": "con", "c": {"t": "unit"}}},
                {"k": "force", "b": {"k": "delay", "b": {"k": "case", "s": {"k": "constr", "tag": 0, "fs": []}, "bs": [v]}}}]
    # integers at the 64-bit boundaries (TLC cannot carry them): every builtin that converts an integer argument
    I64 = [(1 << 63) - 1, 1 << 63, -(1 << 63), -(1 << 63) - 1, (1 << 64) - 1, 1 << 64, -(1 << 64), 1 << 127, -(1 << 127) - 1, 1 << 128]

    def big(n):
        return {"k": "con", "c": {"t": "int", "v": 0, "big": str(n)}}

    def bi2(name, forces, *args):
        t = {"k": "bi", "f": name}
        for _ in range(forces):
            t = {"k": "force", "b": t}
        for a in args:
            t = {"k": "app", "f": t, "a": a}
        return t
    bs = {"k": "con", "c": {"t": "bs", "v": [1, 2, 3]}}
    li = {"k": "con", "c": {"t": "list", "et": {"t": "int"}, "v": [{"t": "int", "v": 1}, {"t": "int", "v": 2}]}}
    ld = {"k": "con", "c": {"t": "list", "et": {"t": "data"}, "v": []}}
    tt = {"k": "con", "c": {"t": "bool", "v": True}}
    one = {"k": "con", "c": {"t": "int", "v": 1}}
    for n in I64:
        b = big(n)
        out += [bi2("dropList", 1, b, li), bi2("shiftByteString", 0, bs, b), bi2("rotateByteString", 0, bs, b), bi2("replicateByte", 0, b, one),
                bi2("replicateByte", 0, one, b), bi2("integerToByteString", 0, tt, b, one), bi2("integerToByteString", 0, tt, one, b),
                bi2("indexByteString", 0, bs, b), bi2("sliceByteString", 0, b, one, bs), bi2("sliceByteString", 0, one, b, bs), bi2("consByteString", 0, b, bs),
                bi2("constrData", 0, b, ld), bi2("readBit", 0, bs, b), bi2("writeBits", 0, bs, {"k": "con", "c": {"t": "list", "et": {"t": "int"}, "v": [{"t": "int", "v": 0, "big": str(n)}]}}, tt),
                bi2("expModInteger", 0, b, one, b), bi2("expModInteger", 0, one, b, one), bi2("divideInteger", 0, b, {"k": "con", "c": {"t": "int", "v": -1}}),
                bi2("iData", 0, b), bi2("serialiseData", 0, bi2("iData", 0, b)), bi2("multiplyInteger", 0, b, b)]
    # huge constructor tags and case indices
    out.append({"k": "constr", "tag": (1 << 64) - 1, "fs": []})
    out.append({"k": "case", "s": {"k": "constr", "tag": (1 << 64) - 1, "fs": []}, "bs": [{"k": "con", "c": {"t": "unit"}}]})
    out.append({"k": "case", "s": {"k": "con", "c": {"t": "int", "v": 0, "hs": 1, "hr": 0}}, "bs": [{"k": "con", "c": {"t": "unit"}}]})
    return out


def c10(tier):
    t0 = time.time()
    rep = vlib.Reporter("C10")
    ev = 0
    panics = 0
    nontriv = set()
    samples = []
    states = trans = 0

    site_count = {}

    def run(cases, what, variants):
        """every case under every variant dict (budget / api ...) - only crashes count here"""
        nonlocal ev, panics
        real = []
        for c in cases:
            for v in variants:
                real.append(dict({"term": c["term"], "var": c["sem"]}, **v))
        obs = eval_real(real)
        for r, o in zip(real, obs):
            ev += 1
            if o["out"]["o"] in ("panic", "timeout"):
                panics += 1
                loc = o["out"].get("msg", "").split(" @ ")[-1]
                site_count[loc] = site_count.get(loc, 0) + 1
                if site_count[loc] > 5:
                    continue      # same crash site: the first five inputs are enough to reproduce it
                rep.violation("panic@" + loc + "|" + cj(r["term"])[:4000] + cj({k: r[k] for k in r if k not in ("term", "id")}),
                              {"term": r["term"], "sem": r["var"], "budget": r.get("budget"), "api": r.get("api", False),
                               "slippage": r.get("slippage"), "observed": o["out"], "source": what},
                              "evaluation crashed: %s" % o["out"].get("msg", "")[:300])
            nontriv.add(vlib.canon_hash(r["term"]))

    budgets = [{}, {"api": True}, {"budget": {"cpu": 0, "mem": 0}}, {"budget": {"cpu": -1, "mem": -1}},
               {"budget": {"cpu": 50000, "mem": 300}, "slippage": 1}, {"budget": {"cpu": -(1 << 62), "mem": 1 << 62}, "api": True}]
    # 1. the specification is total on open / ill-scoped terms (TLC: no stuck state), the machine must be too
    open_profiles = [("core", 5, ["E"]), ("lambda", 4, ["A"])] if tier == "quick" else [("core", 6, ["E"]), ("lambda", 5, ["A", "E"])]
    for (profile, n, sems) in open_profiles:
        cases, r = mc_cek(profile, n, sems, openvars=2)
        states += r.distinct
        trans += r.generated
        run(cases, "MC_Cek open terms profile=%s N=%d" % (profile, n), budgets[:3] if tier == "quick" else budgets)
        samples.append({"open_term": cases[len(cases) // 2]["term"], "spec_outcome": cases[len(cases) // 2]["out"]})
        log("[c10] open %s N=%d: %d terms" % (profile, n, len(cases)))
    # 2. every builtin on every pool tuple incl. wrong-typed and huge arguments, finite budgets
    for g in BGROUPS:
        cases, r = mc_builtin(g, ["A", "E"] if tier == "quick" else SEMS, slack=True)
        states += r.distinct
        trans += r.generated
        run(cases, "MC_Builtin group=%s" % g, [budgets[0], budgets[1], budgets[4]] if tier == "quick" else budgets)
        log("[c10] builtins %s: %d applications" % (g, len(cases)))
    # 3. what TLC's integers cannot express
    run([{"term": t, "sem": s} for t in extra_malformed() for s in ("A", "E")], "absurd indices / tags", budgets)
    # 4. random programs with a high rate of ill-typed pieces, tiny budgets
    rng = random.Random(vlib.seed() + 10)
    terms = termgen.random_terms(rng.randint(0, 1 << 30), 2000 if tier == "quick" else 30000, fuel=(6, 60), wrong=0.15)
    run([{"term": t, "sem": rng.choice(SEMS)} for t in terms], "random ill-typed terms (seed %d)" % vlib.seed(), [budgets[1], budgets[4]])
    # 5. compilation: constant expressions the optimiser folds
    compiled, nexpr = c10_compile(rep, tier)
    ev += compiled
    if ev < 10000:
        raise vlib.ToolError("C10 vacuity: only %d evaluations" % ev)
    cov = {"states": states, "transitions": trans, "traces_validated_against_impl": ev, "samples": samples,
           "evaluations": ev, "distinct_nontrivial": len(nontriv),
           "rule": "open / ill-scoped terms (MC_Cek with out-of-scope indices 0, scope+1, scope+2), every MC_Builtin row with "
                   "forces-1/forces/forces+1, absurd indices and tags, random ill-typed programs; each under several budgets "
                   "(max, 0, negative, tiny with slippage 1) and through the public Program::eval_version* + EvalResult "
                   "accessors; build has overflow checks on; a panic is an observed outcome that no spec action produces",
           "exhaustive": True, "constant_expressions_compiled": compiled, "constant_expression_family": nexpr}
    rc = rep.finish()
    vlib.write_evidence("C10", tier, "model_checking", cov,
                        ["harness is built with overflow-checks and debug-assertions on, so arithmetic overflow surfaces as a panic",
                         "hangs are bounded by the harness process timeout"], time.time() - t0, len(rep.violations))
    return rc


def c10_replay(path):
    case = json.load(open(path))["case"]
    c = {"term": case["term"], "var": case["sem"]}
    for k in ("budget", "slippage", "api"):
        if case.get(k) is not None:
            c[k] = case[k]
    o = eval_real([c])[0]
    print(json.dumps(o, indent=1))
    if o["out"]["o"] in ("panic", "timeout"):
        print("VIOLATION property=C10 replay=%s" % path)
        return 1
    return 0


# --------------------------------------------------------------------------- C10 (compilation part)

def fold_family():
    """well-typed Aiken modules whose constant expressions the optimiser will try to fold: every foldable builtin on
    boundary constants (the compiler must produce a program or a diagnostic, never panic)"""
    ints = ["0", "1", "-1", "255", "256", "8192", "8193", "10000", "-5", "18446744073709551616", "-9223372036854775808"]
    small = ["0", "1", "-1", "2", "256"]
    bas = ['#""', '#"00"', '#"ff01"', '#"0102030405060708ff"']
    bools = ["True", "False"]
    exprs = []
    for a in ints:
        for b in small:
            exprs += ["builtin.divide_integer(%s, %s)" % (a, b), "builtin.mod_integer(%s, %s)" % (a, b), "builtin.quotient_integer(%s, %s)" % (a, b),
                      "builtin.remainder_integer(%s, %s)" % (a, b), "%s / %s" % (a, b), "%s %% %s" % (a, b), "builtin.replicate_byte(%s, %s)" % (a, b),
                      "builtin.replicate_byte(%s, %s)" % (b, a)]
        for ba in bas:
            exprs += ["builtin.cons_bytearray(%s, %s)" % (a, ba), "builtin.index_bytearray(%s, %s)" % (ba, a), "builtin.slice_bytearray(%s, 1, %s)" % (a, ba),
                      "builtin.slice_bytearray(0, %s, %s)" % (a, ba), "builtin.shift_bytearray(%s, %s)" % (ba, a), "builtin.rotate_bytearray(%s, %s)" % (ba, a),
                      "builtin.read_bit(%s, %s)" % (ba, a), "builtin.write_bits(%s, [%s], True)" % (ba, a)]
        for e in bools:
            for w in small + ["8192", "8193"]:
                exprs += ["builtin.integer_to_bytearray(%s, %s, %s)" % (e, w, a), "builtin.integer_to_bytearray(%s, %s, %s)" % (e, a, w)]
        exprs += ["builtin.constr_data(%s, [])" % a, "builtin.un_i_data(builtin.i_data(%s))" % a, "builtin.exp_mod_integer(%s, 3, 7)" % a,
                  "builtin.exp_mod_integer(2, %s, 7)" % a, "builtin.exp_mod_integer(2, 3, %s)" % a, "builtin.drop_list(%s, [1, 2])" % a]
    for ba in bas:
        exprs += ["builtin.decode_utf8(%s)" % ba, "builtin.bytearray_to_integer(True, %s)" % ba, "builtin.count_set_bits(%s)" % ba,
                  "builtin.find_first_set_bit(%s)" % ba, "builtin.complement_bytearray(%s)" % ba, "builtin.un_b_data(builtin.b_data(%s))" % ba,
                  "builtin.sha2_256(%s)" % ba, "builtin.blake2b_224(%s)" % ba, "builtin.bls12_381_g1_uncompress(%s)" % ba,
                  "builtin.verify_ed25519_signature(%s, %s, %s)" % (ba, ba, ba), "builtin.length_of_bytearray(%s)" % ba]
        for bb in bas:
            for e in bools:
                exprs += ["builtin.and_bytearray(%s, %s, %s)" % (e, ba, bb), "builtin.xor_bytearray(%s, %s, %s)" % (e, ba, bb)]
    exprs += ["builtin.head_list([])", "builtin.tail_list([])", "builtin.un_i_data(builtin.b_data(#\"00\"))", "builtin.un_constr_data(builtin.i_data(1))",
              "builtin.un_list_data(builtin.i_data(1))", "builtin.un_map_data(builtin.list_data([]))"]
    return exprs


def c10_compile(rep, tier):
    """returns (#modules compiled, #expressions)"""
    exprs = fold_family()
    mods = []
    per = 12
    for i in range(0, len(exprs), per):
        chunk = exprs[i:i + per]
        src = "use aiken/builtin\n\n" + "\n".join("pub fn f%d() {\n  %s\n}\n" % (j, e) for j, e in enumerate(chunk))
        mods.append((src, chunk))
    real = [{"id": i, "src": src, "tracings": [["all", "silent"], ["all", "verbose"]], "fns": [{"name": "f%d" % j, "args": [[]]} for j in range(len(chunk))]}
            for i, (src, chunk) in enumerate(mods)]
    obs = vlib.run_harness("aiken_run", stdin_lines=real, timeout=3600)
    compiled = rejected = 0
    for (src, chunk), o in zip(mods, obs):
        for run in o["runs"]:
            chk = run["check"]
            if chk != "ok":
                if isinstance(chk, dict) and "panic" in chk:
                    rep.violation("check-panic:" + src, {"src": src, "panic": chk["panic"]}, "the type checker panicked: %s" % chk["panic"][:200])
                else:
                    rejected += 1      # a diagnostic is an acceptable answer; find which expression if needed
                continue
            for e, f in zip(chunk, run["fns"]):
                compiled += 1
                if f["compile"] != "ok" and "panic" in f["compile"]:
                    loc = f["compile"]["panic"].split(" @ ")[-1]
                    rep.violation("compile-panic@" + loc + "|" + e, {"expression": e, "tracing": run["tracing"], "panic": f["compile"]["panic"]},
                                  "compiling the well-typed constant expression `%s` panicked: %s" % (e, f["compile"]["panic"][:200]))
                elif f["compile"] == "ok":
                    for x in f["results"]:
                        if x["post"]["o"] == "panic":
                            rep.violation("eval-panic|" + e, {"expression": e, "observed": x["post"]}, "evaluating compiled `%s` panicked" % e)
    if rejected > 0.5 * len(mods):
        raise vlib.ToolError("C10 fold family: %d of %d modules rejected by the checker (the family no longer type-checks)" % (rejected, len(mods)))
    return compiled, len(exprs)
