"""Checks decided by Uplc.tla (+UplcBuiltins, UplcCostTable): C03, C04, C05, C10."""
import json, os, random, time, copy
import vlib, termgen
from vlib import log

SEMS = ["A", "B", "C", "D", "E"]


def cj(x):
    return json.dumps(x, sort_keys=True, separators=(",", ":"))


# --------------------------------------------------------------------------- spec side

def write_cfg(name, consts, invariants, spec="Spec"):
    d = vlib.workdir("cfg")
    p = os.path.join(d, name + ".cfg")
    with open(p, "w") as f:
        f.write("SPECIFICATION %s\nCONSTANTS\n" % spec)
        for k, v in consts.items():
            f.write("  %s = %s\n" % (k, v))
        f.write("INVARIANTS %s\nCHECK_DEADLOCK FALSE\n" % " ".join(invariants))
    return p


def tla_set(xs):
    return "{" + ", ".join('"%s"' % x for x in xs) + "}"


def mc_cek(profile, n, sems, openvars=0, maxsteps=300, workers=6, timeout=1500):
    cfg = write_cfg("MC_Cek_%s_%d_%d" % (profile, n, openvars),
                    {"N": n, "Profile": '"%s"' % profile, "Sems": tla_set(sems), "OpenVars": openvars,
                     "MaxSteps": maxsteps},
                    ["TypeOK", "ScopeSafety", "StepCount", "CostSane", "Emit"])
    r = vlib.tlc("MC_Cek", cfg=cfg, workers=workers, timeout=timeout, xmx="12g",
                 metaname="MC_Cek_%s_%d_%d" % (profile, n, openvars))
    if not r.ok:
        raise vlib.ToolError("MC_Cek(%s,%d) did not complete cleanly: %s\n%s" %
                             (profile, n, r.error, r.out[-1500:]))
    cases = r.tagged("REPLAY")
    if not cases:
        raise vlib.ToolError("MC_Cek(%s,%d) printed no REPLAY line" % (profile, n))
    return cases, r


def anchor_spec():
    """Validate the SPECIFICATION (not the code) against the upstream conformance goldens
    (corpus/conformance_v3.ndjson was converted once from crates/uplc/test_data/conformance and is
    committed, so this step does not depend on the code under test).  A disagreement is a spec bug:
    tool error."""
    p = os.path.join(vlib.ROOT, "corpus", "conformance_v3.ndjson")
    evs = [json.loads(l) for l in open(p)]
    res = vlib.validate_observations("Obs_Uplc", evs, "anchor", chunk=150, parallel=4)
    if res["bad"]:
        raise vlib.ToolError("specification disagrees with upstream goldens: %s" %
                             [(e["id"], w) for e, w in res["bad"][:5]])
    if res["ok"] < 400:
        raise vlib.ToolError("anchor: only %d goldens were judged" % res["ok"])
    return res


# --------------------------------------------------------------------------- implementation side

def eval_real(cases, timeout=3600):
    """cases: list of dicts for harness uplc_eval; returns observations in order."""
    for i, c in enumerate(cases):
        c["id"] = i
    obs = vlib.run_harness("uplc_eval", stdin_lines=cases, timeout=timeout)
    if len(obs) != len(cases):
        raise vlib.ToolError("harness returned %d observations for %d cases" % (len(obs), len(cases)))
    for o in obs:
        if "harness_error" in o:
            raise vlib.ToolError("harness could not decode a case: %s" % o["harness_error"])
    return obs


def outcome_mismatch(exp, obs_out):
    """exp: spec outcome; obs_out: observed outcome.  Returns None or a reason.  Compares only
    value-or-failure (C03 speaks about nothing finer)."""
    if exp["o"] == "unknown":
        return None
    if obs_out["o"] == "panic":
        return "evaluator panicked: %s" % obs_out.get("msg", "")[:200]
    if exp["o"] == "fail":
        return None if obs_out["o"] == "fail" else "spec: failure; observed a value"
    if obs_out["o"] != "val":
        return "spec: value; observed failure (%s/%s)" % (obs_out.get("c"), obs_out.get("e"))
    if cj(exp["v"]) != cj(obs_out["v"]):
        return "result differs"
    return None


def vkey(term, sem, obs_out):
    """key identifying a violation: the failing input, or - for a recorded finding - the call site"""
    t = cj(term)
    if obs_out.get("o") == "fail" and obs_out.get("e") == "OutsideNaturalBounds" and '"constrData"' in t \
            and '"expModInteger"' not in t:
        return "constrData:tag-outside-u64"
    return t + "|" + sem


def nontrivial(case):
    return case["n"] >= 3


# --------------------------------------------------------------------------- C03

PROFILES_QUICK = [("core", 6, ["E"]), ("lambda", 5, ["E"]), ("lambda", 4, ["A", "C"]), ("constr", 4, ["C", "E"]),
                  ("poly", 4, ["E"]), ("arith", 3, ["A", "E"]), ("bytes", 3, ["A", "B", "C", "D", "E"]),
                  ("data", 3, ["E"]), ("bits", 3, ["D", "E"])]
PROFILES_THOROUGH = [("core", 7, ["C", "E"]), ("lambda", 6, ["E"]), ("lambda", 5, SEMS), ("constr", 5, ["C", "E"]), ("poly", 5, ["A", "E"]),
                     ("arith", 4, SEMS), ("bytes", 4, SEMS), ("data", 4, ["A", "E"]), ("bits", 4, ["D", "E"])]


def replay_mc(profiles, rep, prop, check_cost=False, openvars=0, workers=6):
    """Run MC_Cek per profile, replay every finished behaviour on the real machine, compare."""
    tot = dict(states=0, transitions=0, cases=0, unknown=0, nontrivial=set(), samples=[], mism=0)
    for (profile, n, sems) in profiles:
        t0 = time.time()
        cases, r = mc_cek(profile, n, sems, openvars=openvars, workers=workers)
        tot["states"] += r.distinct
        tot["transitions"] += r.generated
        obs = eval_real([{"term": c["term"], "var": c["sem"]} for c in cases])
        for c, o in zip(cases, obs):
            tot["cases"] += 1
            if c["out"]["o"] == "unknown":
                tot["unknown"] += 1
                if o["out"]["o"] == "panic":
                    rep.violation("panic:" + cj(c["term"]) + c["sem"], {"term": c["term"], "sem": c["sem"], "observed": o},
                                  "evaluator panicked: %s" % o["out"].get("msg", "")[:200])
                continue
            why = outcome_mismatch(c["out"], o["out"])
            if why is None and check_cost and c["out"]["o"] == "val":
                if o["cost"] != c["cost"]:
                    why = "cost differs: spec %s observed %s" % (c["cost"], o["cost"])
            if why:
                tot["mism"] += 1
                rep.violation(vkey(c["term"], c["sem"], o["out"]),
                              {"term": c["term"], "sem": c["sem"], "expected": c["out"], "expected_cost": c["cost"],
                               "observed": o, "source": "MC_Cek profile=%s N=%d" % (profile, n)}, why)
            if nontrivial(c):
                tot["nontrivial"].add(vlib.canon_hash(c["term"]))
        if cases:
            tot["samples"].append({"profile": profile, "N": n, "term": cases[len(cases) // 2]["term"],
                                   "sem": cases[len(cases) // 2]["sem"], "expected": cases[len(cases) // 2]["out"]})
        log("[mc] %s N=%d sems=%s: %d behaviours, %d states, %.1fs" % (profile, n, sems, len(cases), r.distinct, time.time() - t0))
    return tot


def comparator_canary(prop):
    """flip one expectation: the comparator must notice"""
    exp = {"o": "val", "v": {"k": "con", "c": {"t": "int", "v": 1}}}
    if outcome_mismatch(exp, {"o": "val", "v": {"k": "con", "c": {"t": "int", "v": 2}}}) is None or \
       outcome_mismatch(exp, {"o": "val", "v": {"k": "con", "c": {"t": "bool", "v": True}}}) is None or \
       outcome_mismatch(exp, {"o": "fail", "c": "user"}) is None or \
       outcome_mismatch({"o": "fail"}, exp) is None:
        raise vlib.ToolError("%s: comparator canary did not fire" % prop)


def observe_random(seed, n, sems, fuel, check):
    """random closed terms -> real machine -> observation events for Obs_Uplc"""
    rng = random.Random(seed)
    events = []
    per = max(1, n // len(sems))
    for s in sems:
        terms = termgen.random_terms(rng.randint(0, 1 << 30), per, fuel=fuel, sem=s)
        obs = eval_real([{"term": t, "var": s} for t in terms])
        for t, o in zip(terms, obs):
            events.append({"id": len(events), "term": t, "sem": s, "out": o["out"], "cost": o.get("cost", {}), "chk": check})
    return events


def validate_events(events, name, rep, what, parallel=8, chunk=400):
    """Obs_Uplc on events recorded from the real machine; includes a corrupted canary event."""
    canaries = []
    for e in events:
        if e["out"]["o"] == "val" and e["out"]["v"].get("k") == "con" and e["out"]["v"]["c"].get("t") == "int" \
                and "hs" not in e["out"]["v"]["c"]:
            c = copy.deepcopy(e)
            c["out"]["v"]["c"]["v"] += 1
            c["canary"] = e["id"]
            canaries.append(c)
            if len(canaries) >= 8:
                break
    evs = list(events) + canaries
    panics = [e for e in evs if e["out"]["o"] == "panic"]
    res = vlib.validate_observations("Obs_Uplc", [e for e in evs if e["out"]["o"] != "panic"], name, chunk=chunk, parallel=parallel)
    skipped_ids = set(e["id"] for e, _ in res["skipped"] if "canary" not in e)
    fired = set()
    bad = []
    for e, why in res["bad"]:
        if "canary" in e:
            fired.add(e["canary"])
        else:
            bad.append((e, why))
    due = [c["canary"] for c in canaries if c["canary"] not in skipped_ids and c["canary"] not in set(b["id"] for b, _ in bad)]
    if events and (not due or any(d not in fired for d in due)):
        raise vlib.ToolError("observation canary: %d corrupted events due, %d rejected by Obs_Uplc" % (len(due), len(fired)))
    res["skipped"] = [(e, w) for e, w in res["skipped"] if "canary" not in e]
    if len(res["skipped"]) > 0.4 * max(1, len(evs)):
        raise vlib.ToolError("too many skipped observations: %d of %d" % (len(res["skipped"]), len(evs)))
    for e in panics:
        rep.violation("panic:" + cj(e["term"]) + e["sem"], {"term": e["term"], "sem": e["sem"], "observed": e["out"]},
                      "evaluator panicked: %s" % e["out"].get("msg", "")[:200])
    for e, why in bad:
        rep.violation(vkey(e["term"], e["sem"], e["out"]), {"term": e["term"], "sem": e["sem"], "observed": e["out"],
                                                          "observed_cost": e.get("cost"), "source": what}, "Obs_Uplc: " + why)
    res["bad_real"] = bad
    return res


def c03(tier):
    t0 = time.time()
    rep = vlib.Reporter("C03")
    comparator_canary("C03")
    anc = anchor_spec()
    profiles = PROFILES_QUICK if tier == "quick" else PROFILES_THOROUGH
    tot = replay_mc(profiles, rep, "C03")
    nrand = 3000 if tier == "quick" else 40000
    events = observe_random(vlib.seed(), nrand, ["A", "C", "E"], (6, 60), "outcome")
    res = validate_events(events, "c03rand", rep, "random term (seed %d)" % vlib.seed())
    deep = sum(1 for e in events if vlib.term_size(e["term"]) >= 12)
    cov = {
        "states": tot["states"] + res["states"], "transitions": tot["transitions"] + res["generated"],
        "traces_validated_against_impl": tot["cases"] - tot["unknown"] + res["ok"],
        "samples": tot["samples"][:4] + [{"random_term": events[0]["term"], "observed": events[0]["out"]}],
        "evaluations": tot["cases"] + len(events),
        "distinct_nontrivial": len(tot["nontrivial"]) + deep,
        "rule": "MC_Cek: every term with <= N nodes over a profile's atom pool x semantics variants (exhaustive, "
                "TLC); random type-directed closed terms validated by Obs_Uplc. non-trivial: run of >= 3 machine "
                "steps (enumerated) / term of >= 12 nodes (random); distinct by canonical hash",
        "exhaustive": True, "spec_unknown_skipped": tot["unknown"] + len(res["skipped"]),
        "anchor_goldens_agreeing_with_spec": anc["ok"], "profiles": [list(p) for p in profiles],
        "random_events": len(events), "random_events_accepted": res["ok"],
    }
    rc = rep.finish()
    vlib.write_evidence("C03", tier, "model_checking", cov,
                        ["Uplc.tla is my transcription of the Plutus Core CEK machine; anchored against the upstream "
                         "conformance goldens (value and budget) before use",
                         "python term generator and JSON conversion in harness/src/conv.rs are trusted",
                         "results beyond 2^30 and cryptographic builtins are 'unknown' to the spec: skipped, counted"],
                        time.time() - t0, len(rep.violations))
    return rc


def _replay_generic(path, prop):
    case = json.load(open(path))["case"]
    c = {"term": case["term"], "var": case["sem"]}
    for k in ("budget", "slippage", "costs", "pv", "lang"):
        if k in case:
            c[k] = case[k]
    if "lang" in case:
        del c["var"]
    o = eval_real([c])[0]
    print(json.dumps({"expected": case.get("expected"), "expected_cost": case.get("expected_cost"), "observed": o}, indent=1))
    why = None
    if case.get("expected"):
        why = outcome_mismatch(case["expected"], o["out"])
    elif o["out"]["o"] == "panic":
        why = "panic"
    if why:
        print("VIOLATION property=%s replay=%s" % (prop, path))
        return 1
    return 0


def c03_replay(path):
    return _replay_generic(path, "C03")


# --------------------------------------------------------------------------- C05, C04, C10 follow
