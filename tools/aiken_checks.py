"""Checks decided by Aiken.tla (source semantics): C01, C02, C06, C14."""
import json, os, random, time, copy
import vlib, aikengen as ag
from vlib import log
from uplc_checks import cj, write_cfg, tla_set

ALL_TRACINGS = [[s, l] for s in ("all", "user", "compiler") for l in ("silent", "compact", "verbose")]
STRUCTURAL = {"structural", "open"}


def gen_campaign(seed, n, fuel=(14, 26), nargs=3):
    rng = random.Random(seed)
    mods = []
    for i in range(n):
        g, sig, ret = ag.gen_module(rng, fuel=rng.randint(*fuel), n_helpers=rng.choice([1, 2, 3]))
        src = ag.render_module(g)
        args = [[ag.to_data(t, ag.rand_value(rng, t)) for t in sig] for _ in range(nargs)]
        mods.append({"g": g, "sig": sig, "ret": ret, "src": src, "args": args, "spec": ag.spec_module(g)})
    return mods


def run_real(mods, tracings, pre=False, stages=False, timeout=3600):
    cases = [{"id": i, "src": m["src"], "tracings": tracings, "fns": [{"name": "entry", "args": m["args"]}],
              "pre": pre, "stages": stages} for i, m in enumerate(mods)]
    obs = vlib.run_harness("aiken_run", stdin_lines=cases, timeout=timeout)
    if len(obs) != len(mods):
        raise vlib.ToolError("aiken_run returned %d results for %d modules" % (len(obs), len(mods)))
    for o in obs:
        if "harness_error" in o:
            raise vlib.ToolError("aiken_run: " + o["harness_error"])
    return obs


def slim(out):
    return {k: out[k] for k in out if k in ("o", "d", "c", "e", "t")}


def events_from(mods, obs, which="post", rep=None):
    """one event per (module, tracing, argument tuple); also reports compile panics / check rejections"""
    events = []
    stats = dict(rejected=0, compiled=0, panics=0)
    for mi, (m, o) in enumerate(zip(mods, obs)):
        for r in o["runs"]:
            if r["check"] != "ok":
                stats["rejected"] += 1
                if isinstance(r["check"], dict) and "panic" in r["check"] and rep:
                    rep.violation("checker-panic:" + m["src"], {"src": m["src"], "tracing": r["tracing"], "panic": r["check"]["panic"]},
                                  "type checker panicked: %s" % r["check"]["panic"][:200])
                continue
            f = r["fns"][0]
            if f["compile"] != "ok":
                stats["panics"] += 1
                if rep:
                    rep.violation("compile-panic:" + m["src"], {"src": m["src"], "tracing": r["tracing"], "compile": f["compile"]},
                                  "code generator / optimiser panicked on a well-typed module: %s" % json.dumps(f["compile"])[:300])
                continue
            stats["compiled"] += 1
            for ai, (a, x) in enumerate(zip(m["args"], f["results"])):
                events.append({"id": len(events), "m": m["spec"], "f": "entry", "sig": m["sig"], "ret": ag.DATA, "args": a,
                               "out": slim(x[which]), "_mi": mi, "_ai": ai, "_tr": r["tracing"]})
    return events, stats


def strip(e):
    return {k: v for k, v in e.items() if not k.startswith("_")}


def validate(events, name, canary=True):
    """Obs_Aiken over events; returns (res, bad list of (event, why)); a corrupted copy must be rejected"""
    evs = [strip(e) for e in events]
    canaries = []
    if canary:
        for e in events:
            if e["out"]["o"] == "val" and e["out"].get("d", {}).get("d") == "I":
                c = strip(copy.deepcopy(e))
                c["out"]["d"]["v"] += 1
                c["canary"] = e["id"]
                canaries.append(c)
            elif e["out"]["o"] == "fail" and len(canaries) % 2 == 1:
                c = strip(copy.deepcopy(e))
                c["out"] = {"o": "val", "d": {"d": "I", "v": 0}}
                c["canary"] = e["id"]
                canaries.append(c)
            if len(canaries) >= 8:
                break
    res = vlib.validate_observations("Obs_Aiken", evs + canaries, name, chunk=120, parallel=10)
    byid = {e["id"]: e for e in events}
    skipped = set(e["id"] for e, _ in res["skipped"] if "canary" not in e)
    bad = [(byid[e["id"]], w) for e, w in res["bad"] if "canary" not in e]
    badids = set(e["id"] for e, _ in bad)
    fired = set(e["canary"] for e, _ in res["bad"] if "canary" in e)
    due = [c["canary"] for c in canaries if c["canary"] not in skipped and c["canary"] not in badids]
    if canary and events and (not due or any(d not in fired for d in due)):
        raise vlib.ToolError("Obs_Aiken canary: %d corrupted events due, %d rejected" % (len(due), len(fired)))
    res["skipped"] = [(e, w) for e, w in res["skipped"] if "canary" not in e]
    if len(res["skipped"]) > 0.25 * max(1, len(events)):
        raise vlib.ToolError("too many events the specification could not judge: %d of %d" % (len(res["skipped"]), len(events)))
    return res, bad


def classify_lost_abort(src, args, tracing, fn="entry"):
    """Why did an abort that the source asks for not happen?  Re-runs the module with the optimiser's stages
    and returns the key of a recorded finding when the chain shows exactly that defect, else None."""
    o = vlib.run_harness("aiken_run", stdin_lines=[{"id": 0, "src": src, "tracings": [tracing], "fns": [{"name": fn, "args": [args]}],
                                                    "pre": True, "stages": True}])[0]
    run = o["runs"][0]
    if run["check"] != "ok" or run["fns"][0]["compile"] != "ok":
        return None
    x = run["fns"][0]["results"][0]
    return classify_chain([("pre", x["pre"])] + [(s["stage"], s["out"]) for s in x.get("stages", [])] + [("post", x["post"])])


def classify_chain(chain):
    outs = [o["o"] for _, o in chain]
    names = [n for n, _ in chain]
    if outs[0] != "fail" or outs[-1] != "val":
        return None
    first_val = next(i for i, o in enumerate(outs) if o == "val")
    if any(o != "val" for o in outs[first_val:]) or any(o != "fail" for o in outs[:first_val]):
        return None
    if names[first_val] == "afterwards":
        return "afterwards:abort-to-value"
    if names[first_val] == "multi_pass*" and chain[0][1].get("e") == "DeserialisationError":
        return "multi_pass:deserialisation-check-dropped"
    return None


def run_directed(tracings, rep, pre=False, stages=False, which="post"):
    """aikendirected.all_families() on the real compiler; returns (mods, events, obs). A directed module the checker
    rejects is a tool error (the templates are mine)."""
    import aikendirected as ad
    mods = ad.all_families()
    if os.environ.get("VERIF_FAMILY"):        # development aid: one family only
        mods = [m for m in mods if m["family"] == os.environ["VERIF_FAMILY"]]
    cases = [{"id": i, "src": m["src"], "tracings": tracings, "fns": [{"name": n, "args": args} for n, _, args in m["entries"]],
              "pre": pre, "stages": stages} for i, m in enumerate(mods)]
    obs = vlib.run_harness("aiken_run", stdin_lines=cases, timeout=3600)
    events = []
    for mi, (m, o) in enumerate(zip(mods, obs)):
        if "harness_error" in o:
            raise vlib.ToolError("aiken_run: " + o["harness_error"])
        for r in o["runs"]:
            if r["check"] != "ok":
                if isinstance(r["check"], dict) and "panic" in r["check"]:
                    rep.violation("checker-panic:" + m["src"], {"src": m["src"], "tracing": r["tracing"], "panic": r["check"]["panic"]},
                                  "type checker panicked: %s" % r["check"]["panic"][:200])
                    continue
                raise vlib.ToolError("directed family %s rejected by the checker under %s: %s\n%s" % (m["family"], r["tracing"], json.dumps(r["check"])[:600], m["src"][-1500:]))
            for (name, sig, args), f in zip(m["entries"], r["fns"]):
                if f["compile"] != "ok":
                    rep.violation("compile-panic:" + m["family"] + ":" + name + ":" + m["src"], {"src": m["src"], "fn": name, "tracing": r["tracing"], "compile": f["compile"]},
                                  "code generator / optimiser panicked on a well-typed module: %s" % json.dumps(f["compile"])[:300])
                    continue
                for ai, (a, x) in enumerate(zip(args, f["results"])):
                    events.append({"id": len(events), "m": m["spec"], "f": name, "sig": sig, "ret": ag.DATA, "args": a,
                                   "out": slim(x[which]), "_mi": mi, "_ai": ai, "_tr": r["tracing"], "_fn": name, "_x": x})
    return mods, events, obs


def fn_source(src, name):
    i = src.index("pub fn %s(" % name)
    j = src.find("\npub fn ", i + 1)
    return src[i:j if j > 0 else len(src)]


def judge_directed(mods, events, rep, name, prop):
    """Obs_Aiken over the directed events; violations keyed by (family, function source, arguments[, tracing])"""
    for e in events:
        e.pop("_x", None)
    res, bad = validate(events, name)
    for e, why in bad:
        m = mods[e["_mi"]]
        key = classify_lost_abort(m["src"], e["args"], e["_tr"], e["_fn"]) if "aborts" in why else None
        if key:
            e["_explained"] = key          # this run shows a recorded finding (diagnosed by the stage chain)
        rep.violation(key or vlib.canon_hash([m["family"], fn_source(m["src"], e["_fn"]), e["args"], e["_tr"] if prop == "C14" else ""]),
                      {"src": m["src"], "fn": e["_fn"], "args": e["args"], "observed": e["out"], "tracing": e["_tr"], "family": m["family"],
                       "function": fn_source(m["src"], e["_fn"])},
                      "directed family %s, under tracing %s: Obs_Aiken: %s" % (m["family"], e["_tr"], why))
    return res, bad


def sample_of(m, e):
    return {"source": m["src"][m["src"].index("pub fn entry"):][:1200], "args": e["args"], "observed": e["out"]}


# --------------------------------------------------------------------------- C01

def c01(tier):
    t0 = time.time()
    rep = vlib.Reporter("C01")
    n = 500 if tier == "quick" else 6000
    mods = gen_campaign(vlib.seed() * 1000 + 1, n)
    obs = run_real(mods, [["all", "silent"]])
    events, st = events_from(mods, obs, "post", rep)
    if st["compiled"] < 0.8 * n:
        raise vlib.ToolError("C01: only %d of %d generated modules were accepted by the real checker" % (st["compiled"], n))
    res, bad = validate(events, "c01")
    for e, why in bad:
        m = mods[e["_mi"]]
        key = classify_lost_abort(m["src"], e["args"], e["_tr"]) if "aborts" in why else None
        rep.violation(key or vlib.canon_hash([m["src"], e["args"]]),
                      {"src": m["src"], "fn": "entry", "args": e["args"], "sig": m["sig"], "module": m["spec"], "observed": e["out"], "tracing": e["_tr"]},
                      "Obs_Aiken: " + why)
    fams = enumerated_families(tier, rep)
    dmods, devents, _ = run_directed([["all", "silent"], ["all", "verbose"]], rep)
    dres, dbad = judge_directed(dmods, devents, rep, "c01d", "C01")
    fams["states"] += dres["states"]; fams["transitions"] += dres["generated"]; fams["replayed"] += dres["ok"]
    fams["samples"].append({"directed_families": sorted(set(m["family"] for m in dmods)), "events": len(devents), "judged_ok": dres["ok"]})
    nontriv = set(vlib.canon_hash([mods[e["_mi"]]["src"], e["args"]]) for e in events)
    cov = {"states": res["states"] + fams["states"], "transitions": res["generated"] + fams["transitions"],
           "traces_validated_against_impl": res["ok"] + fams["replayed"],
           "samples": [sample_of(mods[events[0]["_mi"]], events[0])] + fams["samples"],
           "evaluations": len(events) + fams["replayed"], "distinct_nontrivial": len(nontriv) + fams["replayed"],
           "rule": "seeded typed generator of modules (ADTs incl. generic and recursive, records, tuples, pairs, lists, Option, "
                   "lambdas, higher-order and (mutually) recursive helpers, when/if/let/expect, casts from and to Data, pipes, "
                   "and/or blocks, traces) x 3 argument tuples each; every run of the compiled entry point is one event judged by "
                   "Aiken.tla's Eval. Plus TLC-enumerated operator families (MC_AikenExpr) replayed exhaustively, plus directed families "
                   "(aikendirected.py: every list-pattern shape x list length under expect, casts from Data x ill-formed data, bindings "
                   "used only by a trace, a constant repeated three times in first/second operand position, Data parameters reached "
                   "through function values) judged by Eval under silent and verbose tracing. distinct = (source, arguments)",
           "exhaustive": False, "modules_generated": n, "modules_accepted_by_checker": st["compiled"],
           "events_spec_could_not_judge": len(res["skipped"]), "aborting_runs": sum(1 for e in events if e["out"]["o"] == "fail")}
    rc = rep.finish()
    vlib.write_evidence("C01", tier, "model_checking", cov,
                        ["Aiken.tla is my statement of the source semantics (strict, left-to-right, first-match, floor division, "
                         "unused let erased as the language documents)", "the python renderer AST -> source is trusted as far as the real "
                         "checker accepts its output under the annotated types", "integers stay small (TLC 32-bit)"],
                        time.time() - t0, len(rep.violations))
    return rc


def enumerated_families(tier, rep):
    """MC_AikenExpr: TLC enumerates every expression of small operator grammars and evaluates it on
    every argument of a small grid; each (expression, argument) is replayed on the compiled code."""
    out = dict(states=0, transitions=0, replayed=0, samples=[])
    fams = [("arith", 2), ("bool", 2), ("cmp", 2)] if tier == "quick" else [("arith", 2), ("bool", 2), ("cmp", 2), ("mixed", 2)]
    for fam, depth in fams:
        cfg = write_cfg("MC_AikenExpr_%s" % fam, {"Family": '"%s"' % fam, "Depth": depth}, ["Sane", "Emit"])
        r = vlib.tlc("MC_AikenExpr", cfg=cfg, workers=6, timeout=1200, xmx="8g", metaname="MC_AikenExpr_" + fam)
        if not r.ok:
            raise vlib.ToolError("MC_AikenExpr(%s) failed: %s\n%s" % (fam, r.error, r.out[-1500:]))
        cases = r.tagged("REPLAY")
        if not cases:
            raise vlib.ToolError("MC_AikenExpr(%s) printed nothing" % fam)
        out["states"] += r.distinct
        out["transitions"] += r.generated
        # one module per 40 expressions (functions f0..f39), all grid points as arguments
        batch = 40
        mods = []
        for b in range(0, len(cases), batch):
            chunk = cases[b:b + batch]
            src = "\n".join("pub fn f%d(x: Int, y: Int, p: Bool) -> %s {\n  %s\n}\n" % (i, c["ty"], ag.render(c["e"], 1)) for i, c in enumerate(chunk))
            mods.append((src, chunk))
        real = [{"id": i, "src": src, "tracings": [["all", "silent"]],
                 "fns": [{"name": "f%d" % j, "args": [[{"d": "I", "v": g[0]}, {"d": "I", "v": g[1]}, {"d": "C", "tag": 1 if g[2] else 0, "fs": []}] for g in c["grid"]]}
                         for j, c in enumerate(chunk)]} for i, (src, chunk) in enumerate(mods)]
        obs = vlib.run_harness("aiken_run", stdin_lines=real)
        for (src, chunk), o in zip(mods, obs):
            run = o["runs"][0]
            if run["check"] != "ok":
                raise vlib.ToolError("enumerated family %s rejected by the checker: %s\n%s" % (fam, run["check"], src[:600]))
            for c, f in zip(chunk, run["fns"]):
                if f["compile"] != "ok":
                    rep.violation("compile-panic:" + cj(c["e"]), {"expr": c["e"], "compile": f["compile"]}, "compiler panicked")
                    continue
                for g, exp, x in zip(c["grid"], c["exp"], f["results"]):
                    out["replayed"] += 1
                    got = x["post"]
                    if exp == "abort":
                        ok = got["o"] == "fail"
                    elif got["o"] != "val":
                        ok = False
                    elif c["ty"] == "Int":
                        ok = got.get("c") == {"t": "int", "v": exp}
                    else:
                        ok = got.get("c") == {"t": "bool", "v": exp}
                    if not ok:
                        rep.violation(cj([c["e"], g]), {"expr": c["e"], "source": ag.render(c["e"], 1), "x_y_p": g, "expected": exp, "observed": slim(got),
                                                        "family": fam}, "MC_AikenExpr: expression evaluates differently from the source semantics")
        out["samples"].append({"family": fam, "source": ag.render(cases[len(cases) // 2]["e"], 1), "grid": cases[0]["grid"][:3],
                               "expected": cases[len(cases) // 2]["exp"][:3]})
        log("[c01] family %s: %d expressions" % (fam, len(cases)))
    return out


def replay_aiken(path, prop):
    case = json.load(open(path))["case"]
    if "src" not in case:
        print(json.dumps(case)[:2000])
        return 2
    tr = [case.get("tracing", ["all", "silent"])]
    if prop == "C14":
        tr = ALL_TRACINGS
    o = vlib.run_harness("aiken_run", stdin_lines=[{"id": 0, "src": case["src"], "tracings": tr,
                                                     "fns": [{"name": case.get("fn", "entry"), "args": [case["args"]]}], "pre": True, "stages": True}])[0]
    print(json.dumps(o, indent=1)[:6000])
    return 0


def c01_replay(path):
    return replay_aiken(path, "C01")


# --------------------------------------------------------------------------- C06

def c06(tier):
    t0 = time.time()
    rep = vlib.Reporter("C06")
    n = 400 if tier == "quick" else 5000
    rng = random.Random(vlib.seed() * 1000 + 6)
    mods = gen_campaign(vlib.seed() * 1000 + 6, n)
    # conforming arguments only (the declared types), plus deliberately aborting sources (abort_rate is in the generator)
    obs = run_real(mods, [["all", "silent"], ["all", "verbose"]])
    events, st = events_from(mods, obs, "post", rep)
    res, bad = validate(events, "c06")
    structural = 0
    for e in events:
        if e["out"]["o"] == "fail" and e["out"].get("c") in STRUCTURAL:
            structural += 1
            m = mods[e["_mi"]]
            rep.violation(vlib.canon_hash([m["src"], e["args"], "structural"]),
                          {"src": m["src"], "fn": "entry", "args": e["args"], "observed": e["out"], "tracing": e["_tr"]},
                          "a type-checked program failed with a structural machine error: %s" % e["out"].get("e"))
        if e["out"]["o"] == "panic":
            m = mods[e["_mi"]]
            rep.violation(vlib.canon_hash([m["src"], e["args"], "panic"]), {"src": m["src"], "args": e["args"], "observed": e["out"]},
                          "evaluation of a type-checked program panicked")
    for e, why in bad:
        # value-vs-failure disagreements are C01's; C06 only speaks about HOW a checked program may fail
        if "aborts" in why or "failed" in why:
            m = mods[e["_mi"]]
            key = classify_lost_abort(m["src"], e["args"], e["_tr"]) if "aborts" in why else None
            rep.violation(key or vlib.canon_hash([m["src"], e["args"]]),
                          {"src": m["src"], "fn": "entry", "args": e["args"], "observed": e["out"], "tracing": e["_tr"]},
                          "Obs_Aiken: " + why + " (a failure the source does not ask for, or a requested failure that did not happen)")
    # directed families (see aikendirected.py): same two questions
    dmods, devents, _ = run_directed([["all", "silent"], ["all", "verbose"]], rep)
    for e in devents:
        if e["out"]["o"] == "fail" and e["out"].get("c") in STRUCTURAL:
            structural += 1
            m = dmods[e["_mi"]]
            rep.violation(vlib.canon_hash([m["family"], fn_source(m["src"], e["_fn"]), e["args"], "structural"]),
                          {"src": m["src"], "fn": e["_fn"], "args": e["args"], "observed": e["out"], "tracing": e["_tr"], "function": fn_source(m["src"], e["_fn"])},
                          "directed family %s: a type-checked program failed with a structural machine error: %s" % (m["family"], e["out"].get("e")))
    dres, dbad = judge_directed(dmods, devents, rep, "c06d", "C06")
    res["states"] += dres["states"]; res["generated"] += dres["generated"]; res["ok"] += dres["ok"]
    # ill-typed mutants: the checker must reject what the typing discipline forbids
    import aikendirected as ad
    mut = ill_typed_mutants(rng, 150 if tier == "quick" else 1500) + ad.ill_typed_table() + ad.ill_typed_misuse()
    controls = ad.well_typed_controls() + ad.well_typed_misuse_controls()
    cobs = vlib.run_harness("aiken_run", stdin_lines=[{"id": i, "src": s, "tracings": [["all", "silent"]], "fns": []} for i, (s, _) in enumerate(controls)])
    for (s, what), o in zip(controls, cobs):
        if o["runs"][0]["check"] != "ok":
            raise vlib.ToolError("a well-typed control of the ill-typed table is rejected (%s): %s\n%s" % (what, json.dumps(o["runs"][0]["check"])[:400], s[-500:]))
    mobs = vlib.run_harness("aiken_run", stdin_lines=[{"id": i, "src": s, "tracings": [["all", "silent"]], "fns": []} for i, (s, _) in enumerate(mut)])
    accepted_bad = 0
    for (s, what), o in zip(mut, mobs):
        if o["runs"][0]["check"] == "ok":
            accepted_bad += 1
            rep.violation("illtyped:" + s, {"src": s, "mutation": what}, "the checker accepted an ill-typed module (%s)" % what)
    # typing rules that involve several modules (nominal types, visibility, opaque types): projects that must / must not build
    xm = cross_module_projects()
    xo = vlib.run_harness("blueprint_ops", stdin_lines=[{"id": i, "dir": os.path.join(vlib.WORK, "bp", "c06_%d_%d" % (os.getpid(), i)), "src": "", "ops": [],
                                                         "extra_files": files} for i, (what, ok, files) in enumerate(xm)], timeout=3600)
    for (what, ok, files), o in zip(xm, xo):
        built = o.get("build") == "ok"
        if isinstance(o.get("build"), dict) and "panic" in o["build"]:
            rep.violation("xmodule-panic:" + what, {"what": what, "files": files, "build": o["build"]}, "checking a project panicked (%s)" % what)
        elif ok and not built:
            raise vlib.ToolError("a well-typed multi-module control is rejected (%s): %s" % (what, json.dumps(o.get("build"))[:500]))
        elif not ok and built:
            accepted_bad += 1
            rep.violation("xmodule:" + what, {"what": what, "files": files}, "the checker accepted an ill-typed project (%s)" % what)
    aborts = sum(1 for e in events if e["out"]["o"] == "fail")
    if aborts < 20:
        raise vlib.ToolError("C06 vacuity: only %d failing runs observed" % aborts)
    cov = {"states": res["states"], "transitions": res["generated"], "traces_validated_against_impl": res["ok"] + len(mut),
           "samples": [sample_of(mods[events[0]["_mi"]], events[0]), {"ill_typed_mutant": mut[0][1], "source": mut[0][0][-400:]}],
           "evaluations": len(events) + len(mut), "distinct_nontrivial": len(set(vlib.canon_hash([mods[e["_mi"]]["src"], e["args"]]) for e in events)),
           "rule": "every module the REAL checker accepts, run on conforming arguments under silent and verbose tracing: the outcome must be "
                   "Eval's, and a failure must be one the source asks for (fail / todo / failed expect or cast / partial builtin) - any "
                   "structural machine error class is a violation; plus ill-typed mutants that the checker must reject",
           "exhaustive": False, "failing_runs_observed": aborts, "structural_failures": structural, "ill_typed_mutants": len(mut),
           "ill_typed_accepted": accepted_bad}
    rc = rep.finish()
    vlib.write_evidence("C06", tier, "model_checking", cov,
                        ["error classes: Error::{TypeMismatch, NonFunctionalApplication, NonPolymorphicInstantiation, OpenTermEvaluated, "
                         "MissingCaseBranch, NotAConstant, ...} are structural; EvaluationFailure, DeserialisationError, EmptyList, "
                         "DivideByZero ... are failures a source can ask for"], time.time() - t0, len(rep.violations))
    return rc


def ill_typed_mutants(rng, n):
    """small, surely ill-typed modules (each a single typing rule violated)"""
    T = ag.render_types()
    pool = [
        ("Int used as Bool condition", "pub fn f(x: Int) -> Int {\n  if x { 1 } else { 2 }\n}\n"),
        ("Bool added to Int", "pub fn f(x: Int, b: Bool) -> Int {\n  x + b\n}\n"),
        ("wrong argument type", "fn g(p: Point) -> Int { p.x }\npub fn f(x: Int) -> Int {\n  g(x)\n}\n"),
        ("wrong constructor field type", "pub fn f(x: Bool) -> Shape {\n  Circle(x)\n}\n"),
        ("missing constructor argument", "pub fn f(x: Int) -> Shape {\n  Rect { w: x }\n}\n"),
        ("branches of different types", "pub fn f(b: Bool) -> Int {\n  if b { 1 } else { #\"00\" }\n}\n"),
        ("list with mixed element types", "pub fn f(x: Int) -> List<Int> {\n  [x, True]\n}\n"),
        ("applying a non-function", "pub fn f(x: Int) -> Int {\n  x(1)\n}\n"),
        ("unknown variable", "pub fn f(x: Int) -> Int {\n  x + zzz\n}\n"),
        ("tuple index out of range", "pub fn f(t: (Int, Bool)) -> Int {\n  t.3rd\n}\n"),
        ("field access on a multi-constructor type", "pub fn f(s: Shape) -> Int {\n  s.w\n}\n"),
        ("comparison of non-integers", "pub fn f(a: ByteArray, b: ByteArray) -> Bool {\n  a < b\n}\n"),
        ("equality of different types", "pub fn f(a: Int, b: Bool) -> Bool {\n  a == b\n}\n"),
        ("return type mismatch", "pub fn f(a: Int) -> Bool {\n  a\n}\n"),
        ("non-exhaustive when", "pub fn f(c: Color) -> Int {\n  when c is {\n    Red -> 1\n    Green -> 2\n  }\n}\n"),
        ("pattern of the wrong type", "pub fn f(c: Color) -> Int {\n  when c is {\n    Some(_) -> 1\n    _ -> 2\n  }\n}\n"),
        ("wrong arity call", "fn g(a: Int, b: Int) -> Int { a + b }\npub fn f(x: Int) -> Int {\n  g(x)\n}\n"),
        ("generic instantiated inconsistently", "pub fn f(x: Int) -> Box<Bool> {\n  Box(x)\n}\n"),
        ("lambda applied to wrong type", "pub fn f(b: Bool) -> Int {\n  let g = fn(n: Int) -> Int { n + 1 }\n  g(b)\n}\n"),
        ("cast from a non-Data value", "pub fn f(x: Int) -> Int {\n  expect y: Bool = x\n  if y { 1 } else { 2 }\n}\n"),
        ("negating a Bool arithmetically", "pub fn f(b: Bool) -> Int {\n  -b\n}\n"),
        ("pipe into wrong type", "fn g(p: Point) -> Int { p.y }\npub fn f(x: Int) -> Int {\n  x |> g\n}\n"),
        ("record update with wrong field type", "pub fn f(p: Point) -> Point {\n  Point { ..p, x: True }\n}\n"),
        ("redundant clause", "pub fn f(b: Bool) -> Int {\n  when b is {\n    True -> 1\n    False -> 2\n    _ -> 3\n  }\n}\n"),
    ]
    out = []
    for i in range(n):
        what, body = pool[i % len(pool)]
        # vary literals so that cases are distinct
        body = body.replace(" 1 ", " %d " % rng.randint(1, 9)) if i >= len(pool) else body
        out.append((T + "\n" + body, what))
    return out


def cross_module_projects():
    """(description, must it build?, files)"""
    V = "validator v {\n  mint(_r: Data, _p: ByteArray, _tx: Data) {\n    %s\n  }\n\n  else(_) {\n    fail\n  }\n}\n"
    out = []
    a = "pub type Item {\n  Item { n: Int }\n}\n\npub fn width(i: Item) -> Int {\n  i.n\n}\n\npub fn make(n: Int) -> Item {\n  Item { n }\n}\n"
    b = "pub type Item {\n  Item { s: ByteArray }\n}\n\npub fn make(s: ByteArray) -> Item {\n  Item { s }\n}\n"
    b_same_shape = "pub type Item {\n  Item { n: Int }\n}\n\npub fn make(n: Int) -> Item {\n  Item { n }\n}\n"
    out.append(("two types of the same name, each used with its own module", True,
                {"lib/shop/a.ak": a, "lib/shop/b.ak": b, "validators/v.ak": "use shop/a\nuse shop/b\n\n" + V % "a.width(a.make(1)) == 1 && b.make(#\"00\") == b.make(#\"00\")"}))
    out.append(("a value of b.Item where a.Item is required", False,
                {"lib/shop/a.ak": a, "lib/shop/b.ak": b, "validators/v.ak": "use shop/a\nuse shop/b\n\n" + V % "a.width(b.make(#\"00\")) == 1"}))
    out.append(("a value of b.Item (same shape) where a.Item is required", False,
                {"lib/shop/a.ak": a, "lib/shop/b.ak": b_same_shape, "validators/v.ak": "use shop/a\nuse shop/b\n\n" + V % "a.width(b.make(1)) == 1"}))
    out.append(("comparing a.Item with b.Item", False,
                {"lib/shop/a.ak": a, "lib/shop/b.ak": b_same_shape, "validators/v.ak": "use shop/a\nuse shop/b\n\n" + V % "a.make(1) == b.make(1)"}))
    priv = "type Hidden {\n  Hidden(Int)\n}\n\nfn secret() -> Int {\n  1\n}\n\npub fn open() -> Int {\n  secret()\n}\n"
    out.append(("a public function of another module", True, {"lib/m/p.ak": priv, "validators/v.ak": "use m/p\n\n" + V % "p.open() == 1"}))
    out.append(("a private function of another module", False, {"lib/m/p.ak": priv, "validators/v.ak": "use m/p\n\n" + V % "p.secret() == 1"}))
    out.append(("a private type of another module", False, {"lib/m/p.ak": priv, "validators/v.ak": "use m/p.{Hidden}\n\n" + V % "Hidden(1) == Hidden(1)"}))
    opq = "pub opaque type Token {\n  Token(Int)\n}\n\npub fn mint_token(n: Int) -> Token {\n  Token(n)\n}\n\npub fn value(t: Token) -> Int {\n  let Token(n) = t\n  n\n}\n"
    out.append(("an opaque type through its functions", True, {"lib/m/o.ak": opq, "validators/v.ak": "use m/o\n\n" + V % "o.value(o.mint_token(3)) == 3"}))
    out.append(("constructing an opaque type outside its module", False, {"lib/m/o.ak": opq, "validators/v.ak": "use m/o.{Token}\n\n" + V % "o.value(Token(3)) == 3"}))
    out.append(("destructuring an opaque type outside its module", False,
                {"lib/m/o.ak": opq, "validators/v.ak": "use m/o.{Token}\n\n" + V % "{\n      let Token(n) = o.mint_token(3)\n      n == 3\n    }"}))
    gen = "pub type Wrapper<a> {\n  Wrapper { inner: a }\n}\n\npub fn unwrap(w: Wrapper<a>) -> a {\n  w.inner\n}\n"
    out.append(("a generic type of another module at the right instance", True, {"lib/m/g.ak": gen, "validators/v.ak": "use m/g.{Wrapper}\n\n" + V % "g.unwrap(Wrapper { inner: 1 }) == 1"}))
    out.append(("a generic type of another module at the wrong instance", False,
                {"lib/m/g.ak": gen, "validators/v.ak": "use m/g.{Wrapper}\n\n" + V % "g.unwrap(Wrapper { inner: #\"00\" }) == 1"}))
    out.append(("an unknown module", False, {"validators/v.ak": "use m/nowhere\n\n" + V % "nowhere.f() == 1"}))
    out.append(("an unknown name of a known module", False, {"lib/m/p.ak": priv, "validators/v.ak": "use m/p\n\n" + V % "p.nothing() == 1"}))
    return out


def c06_replay(path):
    return replay_aiken(path, "C06")


# --------------------------------------------------------------------------- C14

def c14(tier):
    t0 = time.time()
    rep = vlib.Reporter("C14")
    n = 120 if tier == "quick" else 1500
    rng = random.Random(vlib.seed() * 1000 + 14)
    mods = []
    for i in range(n):
        g = None
        gg, sig, ret = ag.gen_module(rng, fuel=rng.randint(14, 24), n_helpers=rng.choice([1, 2]))
        src = ag.render_module(gg)
        args = [[ag.to_data(t, ag.rand_value(rng, t)) for t in sig] for _ in range(3)]
        mods.append({"g": gg, "sig": sig, "ret": ret, "src": src, "args": args, "spec": ag.spec_module(gg)})
    # trace-dense variants: same generator with a high trace rate
    obs = run_real(mods, ALL_TRACINGS)
    events, st = events_from(mods, obs, "post", rep)
    res, bad = validate(events, "c14")
    # (1) every setting must give Eval's outcome ...
    for e, why in bad:
        m = mods[e["_mi"]]
        key = classify_lost_abort(m["src"], e["args"], e["_tr"]) if "aborts" in why else None
        if key:
            e["_explained"] = key          # this run shows a recorded finding (diagnosed by the stage chain)
        rep.violation(key or vlib.canon_hash([m["src"], e["args"], e["_tr"]]),
                      {"src": m["src"], "fn": "entry", "args": e["args"], "observed": e["out"], "tracing": e["_tr"]},
                      "under tracing %s: Obs_Aiken: %s" % (e["_tr"], why))
    # (2) ... hence each other's; compared directly as well, so that runs the spec cannot judge still count
    groups = {}
    for e in events:
        groups.setdefault((e["_mi"], e["_ai"]), []).append(e)
    diverging = 0
    # a run already attributed to a recorded finding (it lost an abort the source asks for, and the stage chain shows where) necessarily
    # differs from the runs of the same program that kept the abort: that difference is the recorded finding again, not a new one
    for (mi, ai), es in groups.items():
        outs = set(cj({"o": e["out"]["o"], "d": e["out"].get("d")}) for e in es if not e.get("_explained"))
        if len(outs) > 1:
            diverging += 1
            m = mods[mi]
            rep.violation(vlib.canon_hash([m["src"], es[0]["args"], "diverge"]),
                          {"src": m["src"], "fn": "entry", "args": es[0]["args"], "by_tracing": [[e["_tr"], e["out"]] for e in es]},
                          "the same program and input decide differently under different trace settings")
    dmods, devents, _ = run_directed(ALL_TRACINGS, rep)
    dres, dbad = judge_directed(dmods, devents, rep, "c14d", "C14")
    dgroups = {}
    for e in devents:
        dgroups.setdefault((e["_mi"], e["_fn"], e["_ai"]), []).append(e)
    for (mi, fn, ai), es in dgroups.items():
        outs = set(cj({"o": e["out"]["o"], "d": e["out"].get("d")}) for e in es if not e.get("_explained"))
        if len(outs) > 1:
            diverging += 1
            m = dmods[mi]
            rep.violation(vlib.canon_hash([m["family"], fn_source(m["src"], fn), es[0]["args"], "diverge"]),
                          {"src": m["src"], "fn": fn, "args": es[0]["args"], "by_tracing": [[e["_tr"], e["out"]] for e in es], "function": fn_source(m["src"], fn)},
                          "directed family %s: the same program and input decide differently under different trace settings" % m["family"])
    if any(len(es) != 9 for es in dgroups.values()):
        raise vlib.ToolError("C14: a directed program was not compiled under all 9 settings")
    res["states"] += dres["states"]; res["generated"] += dres["generated"]; res["ok"] += dres["ok"]
    # recorded finding: a trace ARGUMENT that aborts is only evaluated when traces are kept (fixed reproducer, not generated)
    ksrc = ("fn boom(n: Int) -> Int {\n  if n == 0 {\n    fail\n  } else {\n    n\n  }\n}\n\n"
            "pub fn entry(a: Int) -> Data {\n  trace @\"x\": boom(a)\n  let r: Data = 1\n  r\n}\n")
    ko = vlib.run_harness("aiken_run", stdin_lines=[{"id": 0, "src": ksrc, "tracings": ALL_TRACINGS, "fns": [{"name": "entry", "args": [[{"d": "I", "v": 0}], [{"d": "I", "v": 3}]]}]}])[0]
    for ai in (0, 1):
        outs = {}
        for r in ko["runs"]:
            if r["check"] != "ok" or r["fns"][0]["compile"] != "ok":
                raise vlib.ToolError("C14 reproducer module does not compile under %s" % r["tracing"])
            outs[cj(r["tracing"])] = r["fns"][0]["results"][ai]["post"]["o"]
        if len(set(outs.values())) > 1:
            rep.violation("trace-args:erased" if ai == 0 else "trace-args:control", {"src": ksrc, "args": [ai], "by_tracing": outs},
                          "a trace argument that aborts decides the outcome under some trace settings only: %s" % outs)
    # validators: the handler wrappers (decoding of the script context, typed redeemers / datums, the `else` fallback) are generated code too,
    # and they carry trace messages: each handler is run on conforming and near-miss contexts under the 9 settings
    vres = validator_family(rep)
    full = sum(1 for es in groups.values() if len(es) == 9)
    if full < 0.7 * len(groups):
        raise vlib.ToolError("C14: only %d of %d (program, input) pairs were compiled under all 9 settings" % (full, len(groups)))
    cov = {"states": res["states"], "transitions": res["generated"], "traces_validated_against_impl": res["ok"],
           "samples": [dict(sample_of(mods[events[0]["_mi"]], events[0]), tracing=events[0]["_tr"])],
           "evaluations": len(events) + len(devents), "distinct_nontrivial": len(groups) + len(dgroups),
           "rule": "each generated module (traces, `?`, expect, fail/todo dense) is type-checked AND compiled under all 9 Tracing values "
                   "(3 scopes x 3 levels); every run must equal Eval (which has no tracing parameter) and the 9 runs of one "
                   "(program, input) must agree with each other. distinct = (program, input)",
           "exhaustive": False, "program_input_pairs": len(groups), "pairs_with_all_9_settings": full, "diverging_pairs": diverging,
           "directed_program_input_pairs": len(dgroups), "directed_families": sorted(set(m["family"] for m in dmods)),
           "validator_handler_context_pairs": vres["pairs"], "validator_pairs_failing": vres["failing"]}
    rc = rep.finish()
    vlib.write_evidence("C14", tier, "model_checking", cov,
                        ["trace arguments are variables (directed family trace-only) or absent; an argument EXPRESSION that can itself fail is not generated: "
                         "that is the recorded known finding trace-args:erased, re-run as a fixed reproducer"], time.time() - t0, len(rep.violations))
    return rc


VALIDATOR_SRC = """
validator w(k: Int) {
  mint(r: Shape, _p: ByteArray, _tx: Data) {
    when r is {
      Circle(n) -> n + k > 0
      Rect { w, h } -> w * h > k
      Empty -> False
    }
  }

  spend(d: Option<Point>, r: (Int, Bool), _o: Data, _tx: Data) {
    expect Some(p) = d
    p.x + r.1st > k && r.2nd
  }

  withdraw(r: List<Int>, _c: Data, _tx: Data) {
    expect [a, _] = r
    a >= k
  }

  else(_) {
    fail
  }
}
"""


def validator_family(rep):
    import c12_check
    I = lambda n: {"d": "I", "v": n}
    C = lambda t, *fs: {"d": "C", "tag": t, "fs": list(fs)}
    L = lambda *xs: {"d": "L", "v": list(xs)}
    shapes = [C(0, I(5)), C(0, I(-9)), C(1, I(2), I(3)), C(1, I(0), I(3)), C(2)]
    tuples = [L(I(1), C(1)), L(I(-7), C(1)), L(I(1), C(0))]
    datums = [C(0, C(0, I(1), I(2))), C(1)]
    lists = [L(I(1), I(2)), L(I(-1), I(2)), L(I(1)), L(I(1), I(2), I(3)), L()]

    def near(ds):
        out = list(ds)
        for d in ds:
            out += c12_check.mutants(d)[:8]
        seen, uniq = set(), []
        for d in out:
            k = cj(d)
            if k not in seen:
                seen.add(k)
                uniq.append(d)
        return uniq
    ctx = lambda red, info: C(0, I(0), red, info)
    ctxs = {"v.w.mint": [ctx(r, C(0, {"d": "B", "v": [1]})) for r in near(shapes)] + [C(0, I(0)), I(3), ctx(shapes[0], C(9))],
            "v.w.spend": [ctx(r, C(1, I(0), d)) for r in near(tuples) for d in near(datums)[:10]] + [ctx(tuples[0], C(1, I(0)))],
            "v.w.withdraw": [ctx(r, C(2, I(0))) for r in near(lists)],
            "v.w.else": [ctx(I(0), C(3, I(0), I(1))), ctx(I(0), C(5, I(0)))]}
    src = ag.render_types() + VALIDATOR_SRC
    by = {}
    for tr in ALL_TRACINGS:
        o = vlib.run_harness("blueprint_ops", stdin_lines=[{"id": 0, "dir": os.path.join(vlib.WORK, "bp", "c14_%d_%s_%s" % (os.getpid(), tr[0], tr[1])), "src": src, "tracing": tr,
                                                            "ops": [{"op": "apply", "data": [I(0)]}]}])[0]
        if o.get("build") != "ok":
            raise vlib.ToolError("C14: the validator family does not build under %s: %s" % (tr, json.dumps(o.get("build"))[:500]))
        # the parameter is applied first (through the blueprint), then each handler is run
        applied = o["ops"][0]["final"]
        o2 = vlib.run_harness("blueprint_ops", stdin_lines=[{"id": 0, "dir": "", "blueprint_json": json.dumps(applied),
                                                             "ops": [{"op": "eval", "title": t, "ctxs": cs} for t, cs in ctxs.items()]}])[0]
        if o2.get("build") != "ok":
            raise vlib.ToolError("C14: the applied blueprint does not load: %s" % json.dumps(o2.get("build"))[:300])
        for op in o2["ops"]:
            for ci, r in enumerate(op["results"]):
                by.setdefault((op["title"], ci), []).append((tr, r["o"]))
    failing = 0
    for (title, ci), rs in by.items():
        outs = set(o for _, o in rs)
        if "panic" in outs or "decode_error" in outs or "no such validator" in outs:
            rep.violation("validator-eval:%s:%d" % (title, ci), {"handler": title, "context": ctxs[title][ci], "by_tracing": rs}, "evaluating handler %s crashed / did not decode: %s" % (title, rs))
        elif len(outs) > 1:
            rep.violation("validator-diverge:%s:%s" % (title, cj(ctxs[title][ci])), {"handler": title, "context": ctxs[title][ci], "by_tracing": rs, "validator": VALIDATOR_SRC},
                          "handler %s decides differently on the same script context under different trace settings: %s" % (title, rs))
        if outs == {"fail"}:
            failing += 1
    if failing < 10 or failing > len(by) - 5:
        raise vlib.ToolError("C14 validator family is one-sided: %d of %d (handler, context) pairs fail" % (failing, len(by)))
    return {"pairs": len(by), "failing": failing}


def c14_replay(path):
    return replay_aiken(path, "C14")


# --------------------------------------------------------------------------- C02

def outcome_key(o):
    if o["o"] == "val":
        return cj({"o": "val", "d": o.get("d"), "c": o.get("c"), "t": o.get("t")})
    return o["o"]


def c02(tier):
    t0 = time.time()
    rep = vlib.Reporter("C02")
    n = 700 if tier == "quick" else 5000
    mods = gen_campaign(vlib.seed() * 1000 + 2, n)
    obs = run_real(mods, [["all", "silent"], ["all", "verbose"]], pre=True, stages=True)
    programs = pairs = disagreements = 0
    samples = []
    pre_events = []
    replica_bad = 0
    for mi, (m, o) in enumerate(zip(mods, obs)):
        for r in o["runs"]:
            if r["check"] != "ok":
                continue
            f = r["fns"][0]
            if f["compile"] != "ok":
                rep.violation("compile-panic:" + m["src"], {"src": m["src"], "tracing": r["tracing"], "compile": f["compile"]},
                              "optimiser / code generator panicked on compiler output: %s" % json.dumps(f["compile"])[:300])
                continue
            if "stages_panic" in f:
                rep.violation("stage-panic:" + m["src"], {"src": m["src"], "tracing": r["tracing"], "panic": f["stages_panic"]},
                              "an optimiser stage panicked on compiler output: %s" % f["stages_panic"][:300])
            programs += 1
            if f.get("replica_matches_post") is False:
                replica_bad += 1
            for ai, (a, x) in enumerate(zip(m["args"], f["results"])):
                pairs += 1
                chain = [("pre", x["pre"])] + [(s["stage"], s["out"]) for s in x.get("stages", [])] + [("post", x["post"])]
                keys = [outcome_key(o2) for _, o2 in chain]
                if any(o2["o"] == "panic" for _, o2 in chain):
                    rep.violation(vlib.canon_hash([m["src"], a, "panic"]), {"src": m["src"], "args": a, "chain": [[s, slim(o2)] for s, o2 in chain]},
                                  "evaluating compiler output panicked")
                if len(set(keys)) > 1:
                    disagreements += 1
                    first = next(i for i in range(1, len(keys)) if keys[i] != keys[i - 1])
                    rep.violation(classify_chain(chain) or vlib.canon_hash([m["src"], a, r["tracing"]]),
                                  {"src": m["src"], "fn": "entry", "args": a, "tracing": r["tracing"],
                                   "chain": [[s, slim(o2)] for s, o2 in chain], "first_divergence": chain[first][0]},
                                  "the optimiser changed the outcome at stage %s: %s -> %s" % (chain[first][0], keys[first - 1][:80], keys[first][:80]))
                elif len(samples) < 2:
                    samples.append({"source": m["src"][m["src"].index("pub fn entry"):][:800], "args": a, "stages": [s for s, _ in chain], "outcome": slim(x["post"])})
                # the PRE-optimisation program is also judged by the source semantics (spec machine of record: Aiken.tla)
                pre_events.append({"id": len(pre_events), "m": m["spec"], "f": "entry", "sig": m["sig"], "ret": ag.DATA, "args": a,
                                   "out": slim(x["pre"]), "_mi": mi, "_ai": ai, "_tr": r["tracing"]})
    # directed families (aikendirected.py) and constants beyond a machine word: same chain comparison
    import aikendirected as ad
    dmods, devents, dobs = run_directed([["all", "silent"], ["all", "verbose"]], rep, pre=True, stages=True)
    for e in devents:
        x = e["_x"]
        m = dmods[e["_mi"]]
        pairs += 1
        chain = [("pre", x["pre"])] + [(s2["stage"], s2["out"]) for s2 in x.get("stages", [])] + [("post", x["post"])]
        keys = [outcome_key(o2) for _, o2 in chain]
        if len(set(keys)) > 1:
            disagreements += 1
            first = next(i for i in range(1, len(keys)) if keys[i] != keys[i - 1])
            rep.violation(classify_chain(chain) or vlib.canon_hash([m["family"], fn_source(m["src"], e["_fn"]), e["args"], e["_tr"]]),
                          {"src": m["src"], "fn": e["_fn"], "args": e["args"], "tracing": e["_tr"], "function": fn_source(m["src"], e["_fn"]),
                           "chain": [[s2, slim(o2)] for s2, o2 in chain], "first_divergence": chain[first][0]},
                          "directed family %s: the optimiser changed the outcome at stage %s: %s -> %s" % (m["family"], chain[first][0], keys[first - 1][:80], keys[first][:80]))
    big = ad.big_constant_module()
    bo = vlib.run_harness("aiken_run", stdin_lines=[{"id": 0, "src": big["src"], "tracings": [["all", "silent"], ["all", "verbose"]],
                                                     "fns": [{"name": n2, "args": [[]]} for n2 in big["fns"]], "pre": True, "stages": True}])[0]
    for r in bo["runs"]:
        if r["check"] != "ok":
            raise vlib.ToolError("the big-constant module is rejected: %s" % json.dumps(r["check"])[:400])
        for n2, f in zip(big["fns"], r["fns"]):
            if f["compile"] != "ok":
                rep.violation("compile-panic:bigconst:" + n2, {"src": big["src"], "fn": n2, "compile": f["compile"]}, "compiler panicked on a constant: %s" % json.dumps(f["compile"])[:300])
                continue
            x = f["results"][0]
            pairs += 1
            chain = [("pre", x["pre"])] + [(s2["stage"], s2["out"]) for s2 in x.get("stages", [])] + [("post", x["post"])]
            keys = [outcome_key(o2) for _, o2 in chain]
            if len(set(keys)) > 1:
                disagreements += 1
                first = next(i for i in range(1, len(keys)) if keys[i] != keys[i - 1])
                rep.violation(classify_chain(chain) or ("bigconst:" + fn_source(big["src"], n2)),
                              {"src": big["src"], "fn": n2, "args": [], "tracing": r["tracing"], "chain": [[s2, slim(o2)] for s2, o2 in chain]},
                              "constant %s: the optimiser changed the outcome at stage %s: %s -> %s" % (n2, chain[first][0], keys[first - 1][:80], keys[first][:80]))
    if programs < 0.7 * n:
        raise vlib.ToolError("C02: only %d programs compiled" % programs)
    if replica_bad:
        raise vlib.ToolError("the stage-by-stage replay of aiken_optimize_and_intern no longer reproduces its output for %d programs "
                             "(the pipeline changed: update harness/src/bin/aiken_run.rs::stages)" % replica_bad)
    res, bad = validate(pre_events[:1200], "c02pre")
    cov = {"programs": programs, "disagreements_checked": pairs,
           "samples": samples or [{"note": "no agreeing sample"}],
           "evaluations": pairs * 10, "distinct_nontrivial": pairs,
           "rule": "for every generated well-typed module x {silent, verbose}: the program handed to aiken_optimize_and_intern (hook), the "
                   "program after each of its 8 stages (replayed through the public pass functions; the replay must reproduce the real "
                   "output) and the final program are all evaluated on the same arguments: same value or all fail",
           "stage_outcome_disagreements": disagreements, "pre_optimisation_runs_agreeing_with_source_semantics": res["ok"],
           "states": res["states"], "transitions": res["generated"], "traces_validated_against_impl": res["ok"]}
    rc = rep.finish()
    vlib.write_evidence("C02", tier, "translation_validation", cov,
                        ["the real machine evaluates both sides (its conformance to the spec machine is C03's business)",
                         "pre-optimisation programs are interned with CodeGenInterner before evaluation, as the pipeline itself does"],
                        time.time() - t0, len(rep.violations))
    return rc


def c02_replay(path):
    return replay_aiken(path, "C02")
