"""C13: the formatter preserves programs (Fmt.tla, MC_Fmt.tla).

1. TLC checks the specification's own printers (minimal and full parenthesisation) against its precedence-climbing
   parser on every operator tree of the bound, and prints both renderings.
2. REPLAY: the real parser must read both renderings as the tree; the real formatter's output must be read as the
   tree again, and be a fixed point.
3. The 167 shipped .ak files and a seeded campaign over the surface grammar: parse -> format -> parse, syntax trees
   compared with positions erased, comments / doc comments compared in order, format twice.
"""
import json, os, re, subprocess, time
import vlib, syntaxgen, rustdbg
from vlib import log


# ---------------------------------------------------------------- rendering of specification token sequences
def render_tokens(ts):
    out = []
    for t in ts:
        out.append("-" if t == "neg" else t)
    return " ".join(out)


def wrap_expr(text):
    return "fn t() {\n  %s\n}\n" % text


# ---------------------------------------------------------------- syntax trees with layout erased
def norm(v):
    """What is layout and not syntax, documented in DESIGN.md (C13):
       - PipeLine.one_liner records whether the pipeline was written on one line;
       - Use.unqualified carries a byte offset, and the formatter sorts imports and the names they import;
       - a block around one expression leaves no node, except around one assignment (Sequence of one);
       - `x |> f(_, y)` and `x |> f(y)` (an UNLABELLED hole in first position) are the same pipe sugar."""
    if isinstance(v, tuple):
        n, b = v
        if isinstance(b, dict):
            b = {f: norm(c) for f, c in b.items() if f != "one_liner"}
            if n == "Sequence" and isinstance(b.get("expressions"), list) and len(b["expressions"]) == 1:
                return b["expressions"][0]
            if n == "PipeLine":
                es = b["expressions"]
                for k in range(1, len(es)):
                    e = es[k]
                    if isinstance(e, tuple) and e[0] == "Fn" and e[1].get("fn_style") == "Capture" and isinstance(e[1]["body"], tuple) and e[1]["body"][0] == "Call":
                        call = e[1]["body"][1]
                        args = call["arguments"]
                        if args and args[0][1]["label"] == "None" and isinstance(args[0][1]["value"], tuple) and args[0][1]["value"][0] == "Var" \
                                and "_capture" in args[0][1]["value"][1]["name"]:
                            es[k] = call["fun"] if len(args) == 1 else ("Call", dict(call, arguments=args[1:]))
            if n == "Use":
                u = b["unqualified"]
                b["unqualified"] = sorted(u[1][1], key=repr)
            return (n, b)
        return (n, [norm(c) for c in b])
    if isinstance(v, list):
        return [norm(c) for c in v]
    return v


def tree_diff(defs1, defs2):
    a = [norm(rustdbg.parse(d)) for d in defs1]
    b = [norm(rustdbg.parse(d)) for d in defs2]
    au = sorted([x for x in a if x[0] == "Use"], key=repr)
    bu = sorted([x for x in b if x[0] == "Use"], key=repr)
    a = [x for x in a if x[0] != "Use"]
    b = [x for x in b if x[0] != "Use"]
    d = rustdbg.first_diff([au, a], [bu, b])
    if d:
        return "%s: %s  /  %s" % (d[0][-120:], rustdbg.show(d[1], 160), rustdbg.show(d[2], 160))
    return None


def judge_module(o):
    """-> (verdict, detail); verdict in ok | unparsed | <violation class>"""
    if "harness_error" in o:
        raise vlib.ToolError("fmt_ops: " + o["harness_error"])
    if "crashed" in o:
        return "crashed", "the process died (exit status %s)" % o["crashed"]
    if "panic" in o:
        return "panic", "%s: %s" % (o.get("stage"), o["panic"][:200])
    if o["parse"] == "err":
        return "unparsed", o.get("error", "")[:200]
    if o.get("parse2") != "ok":
        return "formatted-text-rejected", o.get("error2", "")[:300]
    if "defs" in o:
        d = tree_diff(o["defs"], o["defs2"])
        if d:
            return "tree-changed", d
    if not o["comments_same"]:
        return "comments-changed", json.dumps({"before": o.get("comments"), "after": o.get("comments2")})[:400]
    if not o["docs_same"]:
        return "docs-changed", json.dumps({"before": o.get("docs"), "after": o.get("docs2")})[:400]
    if not o["idempotent"]:
        return "not-idempotent", ""
    if "inplace_panic" in o or "inplace_err" in o:
        return "inplace-failed", str(o.get("inplace_panic") or o.get("inplace_err"))[:300]
    if o.get("inplace_same") is False:
        return "inplace-differs", "`aiken fmt` left on disk: %r" % o.get("inplace_out", "")[-300:]
    return "ok", ""


# known findings: each is ONE input; the generator avoids the construct, the reproducer is run on every check
REPRODUCERS = [
    ("fmt:bare-fail-in-parentheses", "fn t() {\n  let x = (fail)\n  x\n}\n"),
]

# fixed defects: must stay fixed (a failure here is an ordinary violation)
REGRESSIONS = [
    ("record-capture-curly", "fn t() {\n  Foo { i: _, b: True }\n}\n"),
    ("record-capture-curly-pipe", "fn t() {\n  x |> Foo { a: 1, b: _ }\n}\n"),
    ("labelled-hole-call", "fn t() {\n  foo(c: _, d: fn(x) { x })\n}\n"),
    ("labelled-hole-pipe", "fn t() {\n  a |> foo(c: _, b)\n}\n"),
    ("block-operand", "fn t() {\n  a != {\n    let x = 1\n    x\n  }\n}\n"),
    ("trace-block-operand", "fn t() {\n  {\n    trace @\"x\"\n    a\n  } == b\n}\n"),
    ("fail-operand", "fn t() {\n  a == (fail)\n}\n"),
    ("todo-operand", "fn t() {\n  (todo @\"x\") < 1\n}\n"),
    ("fail-unary", "fn t() {\n  !(fail)\n}\n"),
    ("trace-block-statement", "fn t() {\n  let x = 1\n  {\n    trace @\"a\"\n    let x = 2\n    x\n  }\n  x\n}\n"),
    ("fail-block-statement", "fn t() {\n  {\n    fail\n  }\n  let x = 1\n  x\n}\n"),
    ("fail-pipe-stage", "fn t() {\n  (fail @\"boom\") |> f\n}\n"),
    ("todo-pipe-stage", "fn t() {\n  x |> (todo @\"wip\")\n}\n"),
    ("comment-in-constructor-pattern", "fn t(x) {\n  when x is {\n    Foo {\n      // c\n      a,\n      b,\n    } -> a + b\n  }\n}\n"),
    ("pipeline-comment-idempotent", "fn c() {\n  or { acc, False } |> {\n    // c20\n    foo.Quux\n  } |> d\n}\n"),
    ("fixed-nested-trace-if-false", "fn t() {\n  let b = (a?)?\n  b\n}\n"),
    ("fixed-trace-label-parentheses", "fn t() {\n  trace (@\"a\" && b)\n  c\n}\n"),
    ("fixed-trace-label-bytearray", "fn t() {\n  trace (\"abc\")\n  c\n}\n"),
    ("named-discard-tail", "fn t(x) {\n  when x is {\n    [a, .._rest] -> a\n    [b, ..] -> b\n    _ -> 0\n  }\n}\n"),
]


def classify_not_idempotent(out1, out2):
    """the recorded finding fmt:pipeline-comment-not-idempotent, by diagnosis: the two passes differ only in layout (same tokens, same
    comments) and the first pass left a comment at the end of a closing-bracket line right before a pipeline stage"""
    if not out1 or not out2:
        return None
    strip = lambda t: re.sub(r"\s+", "", re.sub(r"//[^\n]*", "", t))
    if strip(out1) != strip(out2) or re.findall(r"//[^\n]*", out1) != re.findall(r"//[^\n]*", out2):
        return None
    lines = out1.split("\n")
    for i, l in enumerate(lines):
        if re.match(r"^\s*[})\]]+,?\s+// ", l):
            for l2 in lines[i + 1:i + 6]:
                if re.match(r"^\s*(//|\|>)", l2):
                    if l2.lstrip().startswith("|>"):
                        return "fmt:pipeline-comment-not-idempotent"
                else:
                    break
    return None


def corpus_files():
    out = subprocess.run("find /repo/examples /repo/benchmarks -name '*.ak' -not -path '*/build/*' | sort", shell=True, capture_output=True, text=True).stdout.split()
    return out


def run_modules(cases, timeout=30):
    return vlib.run_harness_stream("fmt_ops", cases, per_case_timeout=timeout)


def c13(tier):
    t0 = time.time()
    rep = vlib.Reporter("C13")
    # ---- 1. the specification
    r = vlib.tlc("MC_Fmt", workers=4, timeout=1200, xmx="4g", metaname="MC_Fmt")
    if not r.ok:
        raise vlib.ToolError("MC_Fmt failed: %s\n%s" % (r.error, r.out[-1200:]))
    trees = r.tagged("REPLAY")
    if len(trees) < 2000:
        raise vlib.ToolError("MC_Fmt printed only %d trees" % len(trees))
    # ---- 2. replay on the real parser / formatter
    cases = []
    for i, t in enumerate(trees):
        for form in ("min", "full"):
            cases.append({"id": "%d/%s" % (i, form), "src": wrap_expr(render_tokens(t[form])), "expr": True, "lean": True})
    obs = run_modules(cases)
    n_replayed = 0
    cj = lambda x: json.dumps(x, sort_keys=True)

    def judge_tree(want, o, text, rep):
        if o is None or "timeout" in o:
            rep.violation("tree-timeout:" + text, {"text": text}, "the parser or formatter did not answer within the time limit on %r" % text)
            return
        if "panic" in o:
            rep.violation("tree-panic:" + text, {"text": text, "observed": o}, "panic (%s) on %r: %s" % (o.get("stage"), text, o["panic"][:160]))
            return
        if o.get("parse") != "ok":
            rep.violation("tree-rejected:" + text, {"text": text, "observed": o}, "the parser rejects %r, which the specification reads as %s" % (text, cj(want)[:200]))
            return
        if cj(o.get("tree")) != cj(want):
            rep.violation("tree-parse:" + text, {"text": text, "want": want, "observed": o.get("tree")}, "the parser reads %r as a different operator tree" % text)
            return
        if o.get("parse2") != "ok":
            rep.violation("tree-fmt-rejected:" + text, {"text": text, "formatted": o.get("out"), "observed": o}, "formatting %r gives text the parser rejects: %r" % (text, o.get("out")))
            return
        if cj(o.get("tree2")) != cj(want):
            rep.violation("tree-fmt:" + text, {"text": text, "want": want, "formatted": o.get("out"), "observed": o.get("tree2")},
                          "formatting %r gives %r, which is a different operator tree" % (text, o.get("out")))
            return
        if not o.get("idempotent"):
            rep.violation("tree-idem:" + text, {"text": text, "formatted": o.get("out"), "again": o.get("out2")}, "formatting %r twice changes the text again" % text)

    for c, o in zip(cases, obs):
        i = int(c["id"].split("/")[0])
        judge_tree(trees[i]["tree"], o, c["src"], rep)
        n_replayed += 1

    # comparator canaries: a wrong tree and a dropped parenthesis must be flagged
    class D:
        def __init__(self): self.n = 0
        def violation(self, *a): self.n += 1
    d = D()
    some = next(t for t in trees if t["tree"]["k"] == "bin" and t["tree"]["l"]["k"] == "bin")
    wrong = dict(some["tree"]); wrong["op"] = "+" if wrong["op"] != "+" else "-"
    judge_tree(wrong, {"parse": "ok", "tree": some["tree"], "parse2": "ok", "tree2": some["tree"], "idempotent": True}, "canary", d)
    judge_tree(some["tree"], {"parse": "ok", "tree": some["tree"], "parse2": "ok", "tree2": wrong, "idempotent": True}, "canary", d)
    judge_tree(some["tree"], {"parse": "ok", "tree": some["tree"], "parse2": "ok", "tree2": some["tree"], "idempotent": False}, "canary", d)
    # a real one: `(a + b) * c` stripped of its parentheses is a different tree for the real parser
    oc = run_modules([{"id": "canary", "src": wrap_expr("a + b * c"), "expr": True, "lean": True}])[0]
    judge_tree({"k": "bin", "op": "*", "l": {"k": "bin", "op": "+", "l": {"k": "v", "x": "a"}, "r": {"k": "v", "x": "b"}}, "r": {"k": "v", "x": "c"}}, oc, "canary", d)
    if d.n != 4:
        raise vlib.ToolError("C13 comparator canaries fired %d/4" % d.n)

    # ---- 3a. regressions and known findings (fixed inputs)
    import glob
    regs = REGRESSIONS + [(os.path.basename(f), open(f).read()) for f in sorted(glob.glob(os.path.join(vlib.ROOT, "corpus", "c13_regressions", "*.ak")))]
    fixed_inputs = [{"id": k, "src": s, "lean": True, "inplace_dir": os.path.join(vlib.WORK, "c13_inplace_%d" % os.getpid())} for k, s in regs + REPRODUCERS]
    fo = run_modules(fixed_inputs)
    known_still = 0
    for (k, s), o in zip(regs + REPRODUCERS, fo):
        v, detail = ("timeout", "") if (o is None or "timeout" in o) else judge_module(o)
        is_known = k.startswith("fmt:")
        if v == "unparsed":
            raise vlib.ToolError("fixed input %s does not parse: %s" % (k, detail))
        if v != "ok":
            if is_known:
                known_still += 1
                rep.violation(k, {"src": s, "observed": o}, "%s on %r: %s" % (v, s, detail))
            else:
                rep.violation("regression:" + k, {"src": s, "observed": o}, "%s on %r: %s" % (v, s, detail))

    # ---- 3b. the shipped corpus
    files = corpus_files()
    if len(files) < 160:
        raise vlib.ToolError("only %d .ak files found under /repo/examples and /repo/benchmarks" % len(files))
    inplace = os.path.join(vlib.WORK, "c13_inplace_%d" % os.getpid())
    co = run_modules([{"id": f, "src": open(f).read(), "lean": True, "inplace_dir": inplace} for f in files], timeout=60)
    n_corpus_ok = 0
    for f, o in zip(files, co):
        if o is None or "timeout" in o:
            rep.violation("corpus-timeout:" + f, {"file": f}, "no answer within the time limit on %s" % f)
            continue
        v, detail = judge_module(o)
        if v == "ok":
            n_corpus_ok += 1
        elif v == "unparsed":
            raise vlib.ToolError("shipped file %s does not parse: %s" % (f, detail))
        else:
            rep.violation("corpus:%s:%s" % (f.replace("/repo/", ""), v), {"file": f, "observed": {k: o[k] for k in o if k not in ("defs", "defs2")}, "detail": detail},
                          "%s on %s: %s" % (v, f, detail))

    # ---- 3c. the generated campaign
    n = 700 if tier == "quick" else 12000
    base = vlib.seed() * 1000003
    gen = [dict({"id": i, "src": syntaxgen.gen(base + i, d=3 if i % 4 else 2, comments=(i % 5 != 0)), "lean": True}, **({"inplace_dir": inplace} if i % 3 == 0 else {}))
           for i in range(n)]
    go = run_modules(gen)
    stats = {"ok": 0, "unparsed": 0}
    comments_seen = 0
    for c, o in zip(gen, go):
        if o is None or "timeout" in o:
            # the exponential parser (C20 known finding) can bite on deep nesting; only a formatter timeout would be C13's
            stats["timeout"] = stats.get("timeout", 0) + 1
            continue
        v, detail = judge_module(o)
        stats[v] = stats.get(v, 0) + 1
        if v == "ok":
            comments_seen += c["src"].count("// c") + c["src"].count("/// d")
        if v not in ("ok", "unparsed"):
            known = classify_not_idempotent(o.get("out"), o.get("out2")) if v == "not-idempotent" else None
            rep.violation(known or "generated:%s:%s" % (v, vlib.canon_hash(c["src"])), {"seed": base + c["id"], "src": c["src"], "formatted": o.get("out"), "detail": detail},
                          "%s on generated module (seed %d): %s" % (v, base + c["id"], detail))
    if stats["ok"] < n * 0.5:
        raise vlib.ToolError("only %d of %d generated modules parse: the campaign is too thin" % (stats["ok"], n))
    if stats.get("timeout", 0) > n * 0.02:
        raise vlib.ToolError("%d generated modules timed out" % stats["timeout"])

    # comparator canary on the module judge: drop a comment / a parenthesis from a formatted text
    src = "// keep me\nfn t() {\n  (a + b) * c\n}\n"
    o1 = run_modules([{"id": 0, "src": src}])[0]
    o2 = run_modules([{"id": 0, "src": "fn t() {\n  a + b * c\n}\n"}])[0]
    fake = dict(o1); fake["defs2"] = o2["defs"]
    if judge_module(fake)[0] != "tree-changed":
        raise vlib.ToolError("C13 module canary (dropped parentheses) did not fire")
    fake = dict(o1); fake["comments_same"] = False
    if judge_module(fake)[0] != "comments-changed":
        raise vlib.ToolError("C13 module canary (dropped comment) did not fire")

    cov = {"states": r.distinct, "transitions": r.generated, "traces_validated_against_impl": n_replayed + len(files) + stats["ok"],
           "evaluations": n_replayed + len(files) + n + len(fixed_inputs),
           "distinct_nontrivial": len(trees) + n_corpus_ok + stats["ok"],
           "operator_trees": len(trees), "corpus_files": len(files), "corpus_ok": n_corpus_ok, "generated": n, "generated_verdicts": stats,
           "comments_checked_in_generated_modules": comments_seen, "known_findings_reproduced": known_still,
           "samples": [{"tree": trees[777]["tree"], "min": render_tokens(trees[777]["min"]), "full": render_tokens(trees[777]["full"])},
                       {"generated_module": gen[1]["src"][:600]}],
           "rule": "MC_Fmt: every operator tree with <= 2 binary operators over all 13 operators (both nestings), the 5 bracketings of 3 operators over one "
                   "operator per precedence level, prefix operators outside/inside, pipelines as operands/with operator stages/nested; for each: spec parser "
                   "inverts both spec printers (TLC), real parser reads both renderings as the tree, formatter output reads as the tree, formatter is idempotent. "
                   "Then the shipped .ak files and seeded modules over the surface grammar (syntaxgen.py): trees modulo the layout-only fields listed in "
                   "c13_check.norm, comments and doc comments in order, idempotence",
           "exhaustive": False}
    rc = rep.finish()
    vlib.write_evidence("C13", tier, "model_checking", cov,
                        ["Fmt.tla covers the operator / pipeline fragment; the rest of the surface grammar is covered by the round trip on the corpus and on generated modules only",
                         "generated modules avoid the constructs of the recorded known findings (nested `?`, parenthesised trace labels, bare `(fail)` / `(todo)`): each is re-run as a fixed reproducer",
                         "tree equality is modulo: PipeLine.one_liner, import order, single-expression blocks, and the `x |> f(_, y)` = `x |> f(y)` sugar"],
                        time.time() - t0, len(rep.violations))
    return rc


def c13_replay(path):
    case = json.load(open(path))
    print(json.dumps(case, indent=1)[:4000])
    src = case["case"].get("src") or case["case"].get("text")
    if src:
        o = run_modules([{"id": 0, "src": src}])[0]
        print(judge_module(o) if o else "timeout")
    return 0
