"""C18: applying a parameter means applying the function (MC_Blueprint.tla); also the history part of C08."""
import hashlib, json, os, time
import vlib, aikengen as ag
from vlib import log
from uplc_checks import cj, write_cfg

SIGS = ["int", "int_point", "color_opt_list", "bytes_tuple", "point_point"]
# script contexts (V3): Constr 0 [tx, redeemer, script_info]; info tag 0 = minting(policy), 1 = spending(out_ref, datum?), 2 = withdrawing
CTXS = {"mint": {"d": "C", "tag": 0, "fs": [{"d": "I", "v": 0}, {"d": "I", "v": 0}, {"d": "C", "tag": 0, "fs": [{"d": "B", "v": [1]}]}]},
        "spend": {"d": "C", "tag": 0, "fs": [{"d": "I", "v": 0}, {"d": "I", "v": 0},
                                             {"d": "C", "tag": 1, "fs": [{"d": "I", "v": 0}, {"d": "C", "tag": 1, "fs": []}]}]},
        "else": {"d": "C", "tag": 0, "fs": [{"d": "I", "v": 0}, {"d": "I", "v": 0}, {"d": "C", "tag": 2, "fs": [{"d": "I", "v": 0}]}]}}


def ledger_hash(code_hex, version=3):
    return hashlib.blake2b(bytes([version]) + bytes.fromhex(code_hex), digest_size=28).hexdigest()


def mc(sig, h):
    cfg = write_cfg("MC_Blueprint_%s" % sig, {"SigName": '"%s"' % sig, "H": h}, ["ConsumedInOrder", "RefusalChangesNothing", "Emit"])
    r = vlib.tlc("MC_Blueprint", cfg=cfg, workers=6, timeout=2400, xmx="12g", metaname="MC_Blueprint_" + sig)
    if not r.ok:
        raise vlib.ToolError("MC_Blueprint(%s) failed: %s\n%s" % (sig, r.error, r.out[-1200:]))
    hs = r.tagged("REPLAY")
    v = r.tagged("VALIDATOR")
    if not hs or not v:
        raise vlib.ToolError("MC_Blueprint printed nothing")
    return hs, v[0], r


def validator_source(v):
    ps = ", ".join("p%d: %s" % (i + 1, ag.ty_str(t)) for i, t in enumerate(v["types"]))
    b = v["bodies"]
    return ag.render_types() + "\nvalidator v(%s) {\n  mint(_r: Data, _p: ByteArray, _tx: Data) {\n    %s\n  }\n\n  spend(_d: Option<Data>, _r: Data, _o: Data, _tx: Data) {\n    %s\n  }\n\n  else(_) {\n    %s\n  }\n}\n" % (
        ps, ag.render(annot(b["mint"], v), 2), ag.render(annot(b["spend"], v), 2), ag.render(annot(b["else"], v), 2)) + SIBLINGS


# other validators of the same module whose names extend the target's: applying a parameter to `v` must leave them alone
SIBLINGS = """
validator v_admin(q: Int) {
  mint(_r: Data, _p: ByteArray, _tx: Data) {
    q == 1
  }

  else(_) {
    fail
  }
}

validator vv(q: ByteArray, n: Int) {
  spend(_d: Option<Data>, _r: Data, _o: Data, _tx: Data) {
    q == #"00" && n == 2
  }

  else(_) {
    fail
  }
}
"""


def annot(e, v):
    """the renderer wants the record type on field / tuple-index nodes"""
    if isinstance(e, dict):
        e = {k: annot(x, v) for k, x in e.items()}
        if e.get("k") in ("field", "tupidx") and e["e"].get("k") == "var":
            e["ty"] = v["types"][int(e["e"]["x"][1:]) - 1]
        return e
    if isinstance(e, list):
        return [annot(x, v) for x in e]
    return e


def c18(tier):
    t0 = time.time()
    rep = vlib.Reporter("C18")
    states = trans = total = steps_total = full = 0
    samples = []
    hash_checked = 0
    for sig in SIGS:
        hs, v, r = mc(sig, 3 if tier == "quick" or len(sig) > 9 else 3)
        if tier == "quick":
            hs = hs[::3] if len(hs) > 3000 else hs
        states += r.distinct
        trans += r.generated
        src = validator_source(v)
        o = vlib.run_harness("blueprint_ops", stdin_lines=[{"id": 0, "dir": os.path.join(vlib.WORK, "bp", "c18_%s_%d" % (sig, os.getpid())), "src": src,
                                                            "histories": [[{"op": e["op"], "d": e.get("d")} for e in h["hist"]] for h in hs], "ctxs": CTXS, "ops": [],
                                                            "select": {"module": "v", "validator": "v"}}],
                             timeout=3600)[0]
        if o.get("build") != "ok":
            if isinstance(o.get("build"), dict) and "panic" in o["build"]:
                rep.violation("build-panic:" + sig, {"src": src, "build": o["build"]}, "building the validator panicked")
                continue
            raise vlib.ToolError("C18: validator for %s does not build: %s\n%s" % (sig, json.dumps(o.get("build"))[:600], src[-600:]))
        bp0 = o["blueprint"]
        mine = lambda x: x["title"].startswith("v.v.")
        sib0 = [(x["title"], len(x.get("parameters", [])), x.get("hash"), x.get("compiledCode")) for x in bp0["validators"] if not mine(x)]
        if len(sib0) < 4:
            raise vlib.ToolError("C18: the sibling validators are missing from the blueprint")
        bp0 = dict(bp0, validators=[x for x in bp0["validators"] if mine(x)])
        nparams = len(v["types"])
        for h, ho in zip(hs, o["histories"]):
            total += 1
            key = sig + "|" + cj([[e["op"], e.get("d")] for e in h["hist"]])
            payload = {"signature": sig, "validator": src[src.index("validator v"):], "history": h["hist"]}
            prev = None
            for j, (e, s) in enumerate(zip(h["hist"], ho["steps"])):
                steps_total += 1
                sibs = [(x["title"], x["parameters"], x["hash"], x["compiledCode"]) for x in s["validators"] if not mine(x)]
                if sibs != sib0:
                    rep.violation(key + "|sibling", dict(payload, step=j + 1, before=[[a, b2, c] for a, b2, c, _ in sib0], after=[[a, b2, c] for a, b2, c, _ in sibs]),
                                  "step %d: another validator of the module changed although the parameter was applied to `v` only" % (j + 1))
                    break
                vs = [x for x in s["validators"] if mine(x)]
                if s["r"] == "panic":
                    rep.violation(key + "|panic", dict(payload, step=j + 1, observed=s), "step %d (%s) panicked instead of being accepted / refused: %s" % (j + 1, e["op"], s.get("msg", "")[:200]))
                    break
                if (s["r"] == "ok") != e["ok"]:
                    rep.violation(key, dict(payload, step=j + 1, observed={"r": s["r"], "e": s.get("e")}),
                                  "step %d: applying %s should be %s (%s) but was %s" % (j + 1, cj(e.get("d")), "accepted" if e["ok"] else "refused", e.get("why", ""), s["r"]))
                    break
                lefts = set(x["parameters"] for x in vs)
                if lefts != {e["left"]}:
                    rep.violation(key + "|left", dict(payload, step=j + 1, observed=[[x["title"], x["parameters"]] for x in vs]),
                                  "step %d: %d parameters should remain on every handler, observed %s" % (j + 1, e["left"], sorted(lefts)))
                    break
                if len(set((x["hash"], x["compiledCode"]) for x in vs)) != 1:
                    rep.violation(key + "|instep", dict(payload, step=j + 1), "step %d: the handlers of one validator no longer share code and hash" % (j + 1))
                    break
                # the published hash is the ledger hash of exactly the published code
                if ledger_hash(vs[0]["compiledCode"]) != vs[0]["hash"]:
                    rep.violation(key + "|hash", dict(payload, step=j + 1, published=vs[0]["hash"], recomputed=ledger_hash(vs[0]["compiledCode"])),
                                  "step %d: the published hash is not the hash of the published code" % (j + 1))
                    break
                hash_checked += 1
                cur = (vs[0]["hash"], vs[0]["compiledCode"])
                before = prev if prev is not None else (bp0["validators"][0]["hash"], bp0["validators"][0]["compiledCode"])
                changed = cur != before
                if changed != (e["op"] == "apply" and e["ok"]):
                    rep.violation(key + "|bytes", dict(payload, step=j + 1),
                                  "step %d (%s, %s): code / hash %s" % (j + 1, e["op"], "accepted" if e["ok"] else "refused",
                                                                        "changed although nothing was applied" if changed else "did not change although a parameter was applied"))
                    break
                prev = cur
            else:
                if len(h["applied"]) == nparams:
                    full += 1
                    for hname in ("mint", "spend", "else"):
                        b = ho["behaviour"].get(hname)
                        want = h["verdicts"][hname]
                        if b is None or want in ("none", "unknown"):
                            continue
                        via, by = b["via_blueprint"], b["by_application"]
                        ok_via = via["o"] == "val"
                        ok_by = by["o"] == "val"
                        if via["o"] in ("panic", "decode_error") or by["o"] in ("panic", "decode_error"):
                            rep.violation(key + "|eval", dict(payload, handler=hname, observed=b), "evaluating the applied validator crashed / its code does not decode")
                        elif ok_via != ok_by:
                            rep.violation(key + "|behaviour", dict(payload, handler=hname, observed=b),
                                          "%s handler: the validator applied through the blueprint and the original applied to the same parameters decide differently" % hname)
                        elif ok_via != (want == "true"):
                            rep.violation(key + "|meaning", dict(payload, handler=hname, expected=want, observed=b),
                                          "%s handler: with these parameters the source says %s, the applied validator %s" % (hname, want, "succeeds" if ok_via else "fails"))
        # the same histories on the blueprint re-declared for Plutus V1 and V2 (legacy blueprints handed to `aiken blueprint apply`):
        # whatever is applied, the published hash must stay the ledger hash of the published code FOR THE DECLARED VERSION
        if sig == list(SIGS)[0]:
            for ver, vnum in (("v1", 1), ("v2", 2)):
                legacy = json.loads(json.dumps(o["blueprint"]))
                legacy["preamble"]["plutusVersion"] = ver
                legacy["validators"] = [x for x in legacy["validators"] if mine(x)]
                for x in legacy["validators"]:
                    x["hash"] = ledger_hash(x["compiledCode"], vnum)
                lo = vlib.run_harness("blueprint_ops", stdin_lines=[{"id": 0, "dir": "", "blueprint_json": json.dumps(legacy),
                                                                      "histories": [[{"op": e["op"], "d": e.get("d")} for e in h["hist"]] for h in hs[:400]], "ctxs": {}, "ops": [],
                                                                      "select": {"module": "v", "validator": "v"}}], timeout=1800)[0]
                if lo.get("build") != "ok":
                    raise vlib.ToolError("C18: the %s blueprint does not load: %s" % (ver, json.dumps(lo.get("build"))[:400]))
                if lo["blueprint"]["preamble"].get("plutusVersion") != ver:
                    rep.violation("legacy-version:" + ver, {"declared": ver, "loaded": lo["blueprint"]["preamble"]}, "loading a %s blueprint changes its declared version" % ver)
                for h, ho in zip(hs[:400], lo["histories"]):
                    for j, (e, st) in enumerate(zip(h["hist"], ho["steps"])):
                        steps_total += 1
                        if st["r"] == "panic":
                            rep.violation("legacy-panic:%s:%s" % (ver, cj([[e2["op"], e2.get("d")] for e2 in h["hist"]])), {"version": ver, "history": h["hist"], "step": j + 1, "observed": st},
                                          "%s blueprint, step %d panicked" % (ver, j + 1))
                            break
                        bad = [x for x in st["validators"] if ledger_hash(x["compiledCode"], vnum) != x["hash"]]
                        if bad:
                            rep.violation("legacy-hash:%s:%s" % (ver, cj([[e2["op"], e2.get("d")] for e2 in h["hist"]])),
                                          {"version": ver, "history": h["hist"], "step": j + 1, "published": bad[0]["hash"], "ledger_hash_for_declared_version": ledger_hash(bad[0]["compiledCode"], vnum),
                                           "hash_as_v2": ledger_hash(bad[0]["compiledCode"], 2), "hash_as_v3": ledger_hash(bad[0]["compiledCode"], 3)},
                                          "%s blueprint, step %d (%s): the published hash is not the ledger hash of the published code for Plutus %s" % (ver, j + 1, e["op"], ver))
                            break
                        hash_checked += 1
        samples.append({"signature": sig, "history": hs[len(hs) // 2]["hist"], "verdicts": hs[len(hs) // 2]["verdicts"]})
        log("[c18] %s: %d histories" % (sig, len(hs)))
    if full < 100:
        raise vlib.ToolError("C18 vacuity: only %d histories applied every parameter" % full)
    cov = {"states": states, "transitions": trans, "traces_validated_against_impl": total, "samples": samples[:3],
           "evaluations": steps_total, "distinct_nontrivial": total,
           "rule": "MC_Blueprint: every history of 3 operations (apply one of 19 conforming / near-miss data values, or save+load) on validators "
                   "with 1-3 parameters and three handlers; per step: accepted iff the data has the parameter's shape, exactly one parameter "
                   "consumed, refusals and save/load change nothing, all handlers stay in step, published hash = blake2b-224(0x03 || code) "
                   "recomputed independently; when all parameters are applied each handler is run through the blueprint's code and through "
                   "the original code applied by hand, and both must give the verdict Aiken.tla computes from the source",
           "exhaustive": tier != "quick", "histories_with_all_parameters_applied": full, "hashes_recomputed": hash_checked}
    rc = rep.finish()
    vlib.write_evidence("C18", tier, "model_checking", cov,
                        ["hashlib.blake2b is trusted for the hash", "addresses are not recomputed", "script contexts are minimal hand-made V3 contexts"],
                        time.time() - t0, len(rep.violations))
    return rc


def c18_replay(path):
    print(open(path).read()[:3000])
    return 0
