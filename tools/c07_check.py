"""C07: pattern matching is exhaustive when accepted and first-match when run (MC_Match.tla)."""
import os, json, random, re, time
import vlib, aikengen as ag
from vlib import log
from uplc_checks import cj, write_cfg

TYMAP = {"Bool": ag.BOOL, "Int": ag.INT, "Color": ag.TAdt("Color"), "OptInt": ag.TOption(ag.INT), "OptColor": ag.TOption(ag.TAdt("Color")),
         "Shape": ag.TAdt("Shape"), "Point": ag.TAdt("Point"), "ListInt": ag.TList(ag.INT), "ListIntSmall": ag.TList(ag.INT), "IntBig": ag.INT, "TupIntBool": ag.TTuple(ag.INT, ag.BOOL), "TupListSmall": ag.TTuple(ag.TList(ag.INT), ag.INT),
         "TupColorOpt": ag.TTuple(ag.TAdt("Color"), ag.TOption(ag.INT)), "PairIntBool": ag.TPair(ag.INT, ag.BOOL)}


def name_vars(p, counter):
    """give every variable of the pattern a distinct name, left to right; returns the names"""
    k = p["p"]
    names = []
    if k == "var":
        counter[0] += 1
        p["x"] = "v%d" % counter[0]
        names.append(p["x"])
    elif k == "con":
        for a in p["args"]:
            names += name_vars(a, counter)
    elif k == "tuple":
        for a in p["ps"]:
            names += name_vars(a, counter)
    elif k == "pair":
        names += name_vars(p["a"], counter) + name_vars(p["b"], counter)
    elif k == "list":
        for a in p["ps"]:
            names += name_vars(a, counter)
        if p["tail"] == "var":
            counter[0] += 1
            p["x"] = "v%d" % counter[0]
            names.append(p["x"])
    return names


HUGE = (1 << 70) * 720720
BIG = {1000001: 1, 1000002: 2}


def big_text(src):
    for k, r in BIG.items():
        src = re.sub(r"\b%d\b" % k, str(HUGE + r), src)
    return src


def big_data(d):
    """placeholders -> the symbolic huge integers of the interchange format"""
    if isinstance(d, dict):
        if d.get("d") == "I" and d.get("v") in BIG:
            return {"d": "I", "v": 0, "hs": 1, "hr": BIG[d["v"]]}
        return {k: big_data(v) for k, v in d.items()}
    if isinstance(d, list):
        return [big_data(x) for x in d]
    return d


def render_case(ty, cl):
    T = ag.render_types()
    out = [T, "pub fn m(x: %s) -> List<Data> {\n  when x is {" % ag.ty_str(ty)]
    for i, p in enumerate(cl):
        names = name_vars(p, [0])
        body = ["      let d0: Data = %d" % (i + 1)] + ["      let d%d: Data = %s" % (j + 1, n) for j, n in enumerate(names)]
        body.append("      [%s]" % ", ".join("d%d" % j for j in range(len(names) + 1)))
        out.append("    %s -> {\n%s\n    }" % (ag.render_pat(p), "\n".join(body)))
    out.append("  }\n}\n")
    return "\n".join(out)


def render_let(ty, p):
    """the same pattern under `let`: accepted iff it matches every value; then the bindings are those of the pattern"""
    T = ag.render_types()
    names = name_vars(p, [0])
    body = ["  let %s = x" % ag.render_pat(p), "  let d0: Data = 1"] + ["  let d%d: Data = %s" % (j + 1, n) for j, n in enumerate(names)]
    body.append("  [%s]" % ", ".join("d%d" % j for j in range(len(names) + 1)))
    return "\n".join([T, "pub fn m(x: %s) -> List<Data> {" % ag.ty_str(ty)] + body + ["}\n"])


# ---- parse the checker's "unmatched" pattern strings, e.g. `Some(_)`, `[_, ..]`, `(_, False)`, `Rect { w: 1, .. }`, `Rect(_, _)`
def tokenize(s):
    return re.findall(r"[A-Za-z_][A-Za-z_0-9]*|\d+|\.\.|[\[\](){},:|]", s)


def parse_pat(toks, ty):
    t = toks.pop(0)
    if t == "_" or (re.match(r"[a-z_]", t) and t not in ("True", "False")):
        return {"p": "discard"}
    if t.isdigit():
        return {"p": "int", "n": int(t)}
    if t in ("True", "False") and ty["t"] == "Bool":
        return {"p": "bool", "b": t == "True"}
    if t == "[":
        ps, tail = [], "none"
        while toks[0] != "]":
            if toks[0] == "..":
                toks.pop(0)
                tail = "discard"
                if toks[0] not in ("]", ","):
                    toks.pop(0)
            else:
                ps.append(parse_pat(toks, ty["e"]))
            if toks[0] == ",":
                toks.pop(0)
        toks.pop(0)
        return {"p": "list", "ps": ps, "tail": tail}
    if t == "(":
        es = ty["es"] if ty["t"] == "Tuple" else [ty["a"], ty["b"]]
        ps = []
        for e in es:
            ps.append(parse_pat(toks, e))
            if toks[0] == ",":
                toks.pop(0)
        assert toks.pop(0) == ")"
        return {"p": "tuple", "ps": ps} if ty["t"] == "Tuple" else {"p": "pair", "a": ps[0], "b": ps[1]}
    if t == "Pair" and ty["t"] == "Pair":
        assert toks.pop(0) == "("
        a = parse_pat(toks, ty["a"]); toks.pop(0); b = parse_pat(toks, ty["b"]); toks.pop(0)
        return {"p": "pair", "a": a, "b": b}
    # constructor
    d = ag.TYPES[ty["n"]]
    ci = [c["n"] for c in d["cs"]].index(t)
    fts = ag.field_types(ty, ci)
    args = [{"p": "discard"} for _ in fts]
    if toks and toks[0] == "(":
        toks.pop(0)
        j = 0
        while toks[0] != ")":
            if toks[0] == "..":
                toks.pop(0)
            else:
                args[j] = parse_pat(toks, fts[j]); j += 1
            if toks[0] == ",":
                toks.pop(0)
        toks.pop(0)
    elif toks and toks[0] == "{":
        toks.pop(0)
        while toks[0] != "}":
            if toks[0] == "..":
                toks.pop(0)
            else:
                lab = toks.pop(0)
                j = d["cs"][ci]["ls"].index(lab)
                if toks[0] == ":":
                    toks.pop(0)
                    args[j] = parse_pat(toks, fts[j])
            if toks[0] == ",":
                toks.pop(0)
        toks.pop(0)
    return {"p": "con", "ty": ty["n"], "i": ci, "args": args}


def from_data(ty, d):
    t = ty["t"]
    if t == "Int":
        return {"v": "int", "n": d["v"]}
    if t == "Bool":
        return {"v": "bool", "b": d["tag"] == 1}
    if t == "List":
        return {"v": "list", "xs": [from_data(ty["e"], x) for x in d["v"]]}
    if t == "Tuple":
        return {"v": "tuple", "xs": [from_data(e, x) for e, x in zip(ty["es"], d["v"])]}
    if t == "Pair":
        return {"v": "pair", "a": from_data(ty["a"], d["v"][0]), "b": from_data(ty["b"], d["v"][1])}
    if t == "adt":
        return {"v": "con", "ty": ty["n"], "i": d["tag"], "fs": [from_data(f, x) for f, x in zip(ag.field_types(ty, d["tag"]), d["fs"])]}
    raise ValueError(ty)


def mc_match(tyname, k, workers=6):
    cfg = write_cfg("MC_Match_%s" % tyname, {"Ty": '"%s"' % tyname, "K": k}, ["Sane", "Emit"])
    r = vlib.tlc("MC_Match", cfg=cfg, workers=workers, timeout=2400, xmx="12g", metaname="MC_Match_" + tyname)
    if not r.ok:
        raise vlib.ToolError("MC_Match(%s) failed: %s\n%s" % (tyname, r.error, r.out[-1500:]))
    cases = r.tagged("REPLAY")
    uni = r.tagged("UNIVERSE")
    if not cases or not uni:
        raise vlib.ToolError("MC_Match(%s) printed nothing" % tyname)
    return cases, uni[0]["vals"], r


def c07(tier):
    t0 = time.time()
    rep = vlib.Reporter("C07")
    plan = [("Bool", 3), ("Color", 3), ("OptInt", 3), ("TupIntBool", 2), ("Shape", 2), ("ListInt", 2), ("ListIntSmall", 3), ("TupListSmall", 4), ("IntBig", 3), ("PairIntBool", 2), ("OptColor", 2)] if tier == "quick" else \
           [("Bool", 4), ("Color", 4), ("OptInt", 3), ("TupIntBool", 3), ("Shape", 3), ("ListInt", 3), ("ListIntSmall", 3), ("TupListSmall", 4), ("IntBig", 4), ("PairIntBool", 3), ("OptColor", 3), ("TupColorOpt", 2), ("Point", 3)]
    states = trans = total = accepted = rejected = runs = lets = lets_rejected = 0
    samples = []
    verdicts = {"ok": 0, "redundant": 0, "nonexhaustive": 0}
    only = os.environ.get("VERIF_C07_ONLY")          # debugging aid: a subset of the plan (evidence then says so)
    if only:
        plan = [p for p in plan if p[0] in only.split(",")]
    for tyname, k in plan:
        ty = TYMAP[tyname]
        cases, uni, r = mc_match(tyname, k)
        states += r.distinct
        trans += r.generated
        uvals = [from_data(ty, d) for d in uni]
        real = []
        for i, c in enumerate(cases):
            src = render_case(ty, c["cl"])
            if tyname == "IntBig":
                src = big_text(src)
            fns = [{"name": "m", "args": [[big_data(d)] for d in uni]}] if (c["redundant"] == 0 and c["exhaustive"]) else []
            real.append({"id": i, "src": src, "tracings": [["all", "silent"]], "fns": fns})
        obs = vlib.run_harness("aiken_run", stdin_lines=real, timeout=7200)
        # every single pattern also under `let`
        import copy as _copy
        singles = [c for c in cases if len(c["cl"]) == 1]
        lreal = []
        for i, c in enumerate(singles):
            src = render_let(ty, _copy.deepcopy(c["cl"][0]))
            if tyname == "IntBig":
                src = big_text(src)
            lreal.append({"id": i, "src": src, "tracings": [["all", "silent"]], "fns": [{"name": "m", "args": [[big_data(d)] for d in uni]}] if c["exhaustive"] else []})
        lobs = vlib.run_harness("aiken_run", stdin_lines=lreal, timeout=7200) if lreal else []
        for c, rq, o in zip(singles, lreal, lobs):
            lets += 1
            run = o["runs"][0]
            chk = run["check"]
            key = tyname + "|let|" + cj(ag.strip_names(c["cl"]))
            payload = {"type": tyname, "source": rq["src"][rq["src"].index("pub fn m"):], "spec": {"exhaustive": c["exhaustive"]}, "checker": chk}
            if isinstance(chk, dict) and "panic" in chk:
                rep.violation(key + "|panic", payload, "the checker panicked: %s" % chk["panic"][:200])
            elif c["exhaustive"]:
                if chk != "ok":
                    rep.violation(key, payload, "the pattern of a `let` matches every value, but the checker rejects it: %s" % json.dumps(chk)[:200])
                    continue
                f = run["fns"][0]
                if f["compile"] != "ok":
                    rep.violation(key + "|compile", dict(payload, compile=f["compile"]), "compiling an accepted `let` panicked")
                    continue
                for j, (exp, x) in enumerate(zip(c["runs"], f["results"])):
                    runs += 1
                    want = {"d": "L", "v": [{"d": "I", "v": 1}] + big_data(exp["b"])}
                    got = x["post"]
                    gd = got.get("d")
                    if gd is None and got.get("c", {}).get("t") == "list":
                        gd = {"d": "L", "v": [e["v"] for e in got["c"]["v"]]}
                    if got["o"] != "val" or cj(gd) != cj(want):
                        rep.violation(key + "|run%d" % j, dict(payload, value=uni[j], expected=want, observed={k2: got[k2] for k2 in got if k2 in ("o", "d", "c", "e")}),
                                      "the compiled `let` does not bind the pattern's variables to the corresponding sub-values")
                        break
            else:
                lets_rejected += 1
                if chk == "ok":
                    rep.violation(key, payload, "the checker accepts a `let` whose pattern does not match every value of the type")
        for c, rq, o in zip(cases, real, obs):
            total += 1
            run = o["runs"][0]
            chk = run["check"]
            key = tyname + "|" + cj(ag.strip_names(c["cl"]))
            payload = {"type": tyname, "source": rq["src"][rq["src"].index("pub fn m"):], "spec": {"redundant": c["redundant"], "exhaustive": c["exhaustive"]}, "checker": chk}
            if isinstance(chk, dict) and "panic" in chk:
                rep.violation(key + "|panic", payload, "the checker panicked: %s" % chk["panic"][:200])
                continue
            if c["redundant"] == 0 and c["exhaustive"]:
                verdicts["ok"] += 1
                if chk != "ok":
                    rep.violation(key, payload, "every value is matched and every clause is reachable, but the checker rejects: %s" % json.dumps(chk)[:200])
                    continue
                accepted += 1
                f = run["fns"][0]
                if f["compile"] != "ok":
                    rep.violation(key + "|compile", dict(payload, compile=f["compile"]), "compiling an accepted `when` panicked")
                    continue
                for j, (exp, x) in enumerate(zip(c["runs"], f["results"])):
                    runs += 1
                    want = {"d": "L", "v": [{"d": "I", "v": exp["i"]}] + big_data(exp["b"])}
                    got = x["post"]
                    gd = got.get("d")
                    if gd is None and got.get("c", {}).get("t") == "list":      # a List<Data> constant
                        gd = {"d": "L", "v": [e["v"] for e in got["c"]["v"]]}
                    if got["o"] != "val" or cj(gd) != cj(want):
                        rep.violation(key + "|run%d" % j, dict(payload, value=uni[j], expected=want, observed={k2: got[k2] for k2 in got if k2 in ("o", "d", "c", "e")}),
                                      "the compiled `when` does not execute the first matching clause with the right bindings")
                        break
            else:
                rejected += 1
                if chk == "ok":
                    what = "clause %d can never be reached" % c["redundant"] if c["redundant"] else "some value is matched by no clause"
                    rep.violation(key, payload, "the checker accepts a pattern set although %s" % what)
                    continue
                err = chk.get("error")
                if c["redundant"] != 0:
                    verdicts["redundant"] += 1
                    ok = err == "RedundantMatchClause" or (err == "NotExhaustivePatternMatch" and not c["exhaustive"])
                    if not ok:
                        rep.violation(key, payload, "clause %d is unreachable; the checker reports %s instead" % (c["redundant"], err))
                else:
                    verdicts["nonexhaustive"] += 1
                    if err != "NotExhaustivePatternMatch":
                        rep.violation(key, payload, "the pattern set is not exhaustive; the checker reports %s instead" % err)
                        continue
                    # every pattern reported as missing must match at least one value that no clause matches
                    unc = [uvals[j] for j, u in enumerate(c["uncovered"]) if u]
                    for ms in chk.get("unmatched", []):
                        try:
                            toks = tokenize(ms)
                            mp = parse_pat(toks, ty)
                        except Exception as ex:      # the printer's syntax is outside the tiny parser: not judged
                            continue
                        if not any(ag.pmatch(mp, v) for v in unc):
                            rep.violation(key + "|missing", dict(payload, reported_missing=ms),
                                          "the checker reports `%s` as missing, but every value it denotes is matched by some clause" % ms)
        samples.append({"type": tyname, "clauses": [ag.render_pat(p) for p in cases[len(cases) // 2]["cl"]],
                        "spec_verdict": {"redundant": cases[len(cases) // 2]["redundant"], "exhaustive": cases[len(cases) // 2]["exhaustive"]}})
        log("[c07] %s K=%d: %d clause lists" % (tyname, k, len(cases)))
    if accepted < 50 or rejected < 50:
        raise vlib.ToolError("C07 vacuity: %d accepted / %d rejected clause lists" % (accepted, rejected))
    if not only and (lets < 40 or lets_rejected < 15):
        raise vlib.ToolError("C07 vacuity: %d single patterns under `let`, %d of them refutable" % (lets, lets_rejected))
    cov = {"states": states, "transitions": trans, "traces_validated_against_impl": total + runs, "samples": samples[:4],
           "evaluations": total + runs, "distinct_nontrivial": total,
           "rule": "MC_Match: for each scrutinee type, EVERY clause list of up to K clauses over the pattern grammar of depth <= 2 "
                   "(constructors positional / labelled, tuples, pairs, lists with and without `..rest`, Int and Bool literals, variables, "
                   "discards); verdict (accept / first unreachable clause / not exhaustive) from the semantic definition over a complete "
                   "value universe; accepted ones are compiled and run on EVERY value of the universe comparing clause index and bindings",
           "exhaustive": True, "accepted": accepted, "rejected": rejected, "single_patterns_under_let": lets, "refutable_lets_that_must_be_rejected": lets_rejected, "runs_of_compiled_when": runs, "spec_verdicts": verdicts}
    rc = rep.finish()
    vlib.write_evidence("C07", tier, "model_checking", cov,
                        ["the usefulness ALGORITHM is not transcribed: the checker is compared with the semantic definition directly",
                         "reported missing patterns are parsed by a small python parser; unparsable ones are not judged"],
                        time.time() - t0, len(rep.violations))
    return rc


def c07_replay(path):
    print(open(path).read()[:3000])
    return 0
