#!/bin/bash
# usage: runall.sh <tier> [ids...]  -> work/t/runall_<tier>.log  (one line per check: id exit seconds)
tier=${1:-quick}; shift
ids=${@:-C01 C02 C03 C04 C05 C06 C07 C08 C09 C10 C11 C12 C13 C14 C15 C16 C17 C18 C19 C20}
log=/verif/work/t/runall_$tier$RUNALL_TAG.log
: > $log
for id in $ids; do
  t0=$(date +%s)
  /verif/check $id --tier $tier > /verif/work/t/run_${id}_$tier.out 2>&1
  rc=$?
  echo "$id exit=$rc $(( $(date +%s) - t0 ))s $(grep -c '^VIOLATION' /verif/work/t/run_${id}_$tier.out) violations, $(grep -c '^KNOWN-FINDING' /verif/work/t/run_${id}_$tier.out) known" >> $log
done
echo DONE >> $log
