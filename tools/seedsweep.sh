#!/bin/bash
# usage: seedsweep.sh "<seeds>" <ids...>  -> work/t/seedsweep.log ; quick tier under other seeds (the evidence files are rewritten: re-run the
# default seed afterwards)
seeds=$1; shift
for s in $seeds; do
  for id in "$@"; do
    t0=$(date +%s)
    VERIF_SEED=$s /verif/check $id --tier quick > /verif/work/t/sweep_${id}_$s.out 2>&1
    rc=$?
    echo "seed=$s $id exit=$rc $(( $(date +%s) - t0 ))s $(grep -c '^VIOLATION' /verif/work/t/sweep_${id}_$s.out) violations" >> /verif/work/t/seedsweep.log
  done
done
echo DONE >> /verif/work/t/seedsweep.log
