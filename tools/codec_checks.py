"""C08 (script bytes survive round trips) and C20 (malformed input is rejected, not a crash): Flat.tla, MC_Flat.tla."""
import os, json, random, time
import vlib, termgen
from vlib import log
from uplc_checks import cj
from c15_check import unbig, render


def mc_flat():
    r = vlib.tlc("MC_Flat", workers=4, timeout=1800, xmx="6g", metaname="MC_Flat")
    if not r.ok:
        raise vlib.ToolError("MC_Flat failed: %s\n%s" % (r.error, r.out[-1200:]))
    cases = r.tagged("REPLAY")
    if len(cases) < 200:
        raise vlib.ToolError("MC_Flat printed only %d programs" % len(cases))
    return cases, r


def c08(tier):
    t0 = time.time()
    rep = vlib.Reporter("C08")
    cases, r = mc_flat()
    obs = vlib.run_harness("flat_ops", stdin_lines=[{"id": i, "term": c["term"], "flat": c["flat"], "cbor": c["cbor"]} for i, c in enumerate(cases)])
    checked = 0
    for c, o in zip(cases, obs):
        if "harness_error" in o:
            raise vlib.ToolError("flat_ops: " + o["harness_error"])
        o = unbig(o)
        want = cj(c["term"])
        key = want
        pay = {"term": c["term"], "spec_flat": c["flat"], "observed": {k: o.get(k) for k in ("to_flat", "from_flat", "from_cbor", "to_cbor")}}
        bad = []
        for k in ("to_flat", "to_cbor", "to_hex", "named_roundtrip"):
            if isinstance(o.get(k), dict) and "panic" in o[k]:
                bad.append("%s panicked: %s" % (k, o[k]["panic"][:160]))
        if isinstance(o.get("to_flat"), list) and o["to_flat"] != c["flat"]:
            bad.append("the encoder's flat bytes differ from the specification's")
        if isinstance(o.get("to_cbor"), list) and o["to_cbor"] != c["cbor"]:
            bad.append("the encoder's CBOR wrapping differs from the specification's")
        if isinstance(o.get("to_hex"), str) and o["to_hex"] != "".join("%02x" % b for b in c["cbor"]):
            bad.append("the hex form is not the hex of the CBOR bytes")
        for k in ("from_flat", "from_cbor", "from_hex"):
            d = o.get(k, {})
            if "panic" in d:
                bad.append("%s panicked on a valid encoding: %s" % (k, d["panic"][:160]))
            elif "err" in d:
                bad.append("%s rejects the specification's encoding: %s" % (k, d["err"][:160]))
            elif cj(d.get("ok")) != want:
                bad.append("%s reads the specification's bytes as a different program" % k)
            elif d.get("version") != [1, 1, 0]:
                bad.append("%s does not read the version back" % k)
        nr = o.get("named_roundtrip", {})
        if "named" in nr and cj(nr["named"]) != want:
            bad.append("named de Bruijn form does not survive to_flat / from_flat")
        if nr.get("name") is not None and "name" in nr and cj(nr["name"]) != want:
            bad.append("named form does not survive to_flat / from_flat")
        if isinstance(nr.get("fake_named_bytes"), list) and nr["fake_named_bytes"] != c["flat"]:
            bad.append("the fake-named form (what is hashed) does not serialise to the de Bruijn bytes")
        checked += 1
        for b in bad:
            rep.violation(key + "|" + b[:30], pay, b)
    # beyond the tables: random programs: encode -> decode -> encode is the identity on bytes and programs
    rng = random.Random(vlib.seed() + 8)
    terms = termgen.random_terms(rng.randint(0, 1 << 30), 1500 if tier == "quick" else 20000, fuel=(4, 40), wrong=0.05)
    obs2 = vlib.run_harness("flat_ops", stdin_lines=[{"id": i, "term": t} for i, t in enumerate(terms)])
    real2 = []
    for t, o in zip(terms, obs2):
        if isinstance(o.get("to_flat"), list):
            real2.append({"id": len(real2), "term": t, "flat": o["to_flat"], "cbor": o["to_cbor"] if isinstance(o.get("to_cbor"), list) else None})
        else:
            rep.violation("enc:" + cj(t), {"term": t, "observed": o.get("to_flat")}, "encoding a program failed / panicked")
    obs3 = vlib.run_harness("flat_ops", stdin_lines=real2)
    for rq, o in zip(real2, obs3):
        o = unbig(o)
        for k in ("from_flat", "from_cbor"):
            d = o.get(k) or {}
            if cj(d.get("ok")) != cj(rq["term"]):
                rep.violation("rt:" + cj(rq["term"]) + k, {"term": rq["term"], "bytes": rq["flat"], "observed": d}, "%s(to_flat(p)) is not p" % k)
        if o.get("to_flat") != rq["flat"]:
            rep.violation("stable:" + cj(rq["term"]), {"term": rq["term"]}, "re-serialising the decoded program does not reproduce the bytes")
    # the published hash is the ledger hash of the published code for the DECLARED Plutus version, and survives load / save
    import hashlib
    vsrc = "validator v(p: Int) {\n  mint(_r: Data, _p: ByteArray, _tx: Data) {\n    p == 1\n  }\n\n  else(_) {\n    fail\n  }\n}\n"
    b0 = vlib.run_harness("blueprint_ops", stdin_lines=[{"id": 0, "dir": os.path.join(vlib.WORK, "bp", "c08_%d" % os.getpid()), "src": vsrc, "ops": []}])[0]
    if b0.get("build") != "ok":
        raise vlib.ToolError("C08: the blueprint project does not build: %s" % json.dumps(b0.get("build"))[:400])
    lh = lambda code, v: hashlib.blake2b(bytes([v]) + bytes.fromhex(code), digest_size=28).hexdigest()
    hashes_checked = 0
    for ver, vnum in (("v1", 1), ("v2", 2), ("v3", 3)):
        bp = json.loads(json.dumps(b0["blueprint"]))
        bp["preamble"]["plutusVersion"] = ver
        for x in bp["validators"]:
            x["hash"] = lh(x["compiledCode"], vnum)
        o = vlib.run_harness("blueprint_ops", stdin_lines=[{"id": 0, "dir": "", "blueprint_json": json.dumps(bp), "histories": [[{"op": "saveload"}, {"op": "saveload"}]],
                                                            "ctxs": {}, "ops": [], "select": {"module": "v", "validator": "v"}}])[0]
        if o.get("build") != "ok":
            rep.violation("blueprint-load:" + ver, {"version": ver, "observed": o.get("build")}, "a %s blueprint with correct hashes does not load: %s" % (ver, json.dumps(o.get("build"))[:200]))
            continue
        for st in [{"validators": [{"title": x["title"], "hash": x.get("hash"), "compiledCode": x.get("compiledCode")} for x in o["blueprint"]["validators"]]}] + o["histories"][0]["steps"]:
            for x in st["validators"]:
                hashes_checked += 1
                if x["hash"] != lh(x["compiledCode"], vnum):
                    rep.violation("blueprint-hash:" + ver, {"version": ver, "published": x["hash"], "ledger_hash_for_declared_version": lh(x["compiledCode"], vnum)},
                                  "after loading / saving a %s blueprint the published hash is not the ledger hash of the published code for Plutus %s" % (ver, ver))
    cov = {"states": r.distinct, "transitions": r.generated, "traces_validated_against_impl": checked + len(real2), "blueprint_hashes_recomputed": hashes_checked,
           "samples": [{"term": cases[30]["term"], "spec_flat_bytes": cases[30]["flat"]}, {"term": cases[-3]["term"], "spec_flat_bytes": cases[-3]["flat"][:40]}],
           "evaluations": checked + 2 * len(real2), "distinct_nontrivial": checked + len(set(cj(t) for t in terms)),
           "rule": "MC_Flat: the tables of MC_Text (every built-in, constant type and nesting, string class, Data tag range, term constructor) "
                   "plus byte strings of 254/255/256/510/511 bytes, integers at the 7-bit group boundaries, constructor tags 127/128/16384: the "
                   "real encoder must produce the specification's bits and CBOR wrapping, the three decoders must read them back, the named / "
                   "fake-named forms must agree. Random programs: to_flat -> from_flat -> to_flat is the identity",
           "exhaustive": True}
    rc = rep.finish()
    vlib.write_evidence("C08", tier, "model_checking", cov,
                        ["Flat.tla is my transcription of the flat format and of the Plutus CBOR encoding of Data",
                         "hashes / addresses and blueprint load-save histories are checked by C18 (same harness); foreign-but-valid Data encodings "
                         "(definite-length arrays, chunked byte strings) are not generated here"], time.time() - t0, len(rep.violations))
    return rc


def c08_replay(path):
    print(open(path).read()[:3000])
    return 0


# --------------------------------------------------------------------------- C20

def mutations(rng, b, limit):
    """near-valid inputs: every truncation, single-bit flips, byte substitutions, length-prefix inflation"""
    out = []
    for k in range(len(b)):
        out.append(b[:k])
    pos = list(range(len(b) * 8))
    rng.shuffle(pos)
    if len(b) <= 40:
        limit = len(pos)          # small encodings: EVERY single-bit flip (a list of tags ends, a tag changes, a length byte moves)
    for p in pos[:limit]:
        c = list(b)
        c[p // 8] ^= 1 << (p % 8)
        out.append(c)
    for _ in range(min(limit, 8)):
        c = list(b)
        if c:
            c[rng.randrange(len(c))] = rng.choice([0, 1, 0x7f, 0x80, 0xff, 0x4b, 0x5f, 0x9f, 0xbf, 0xd8, 0xfb])
            out.append(c)
    out.append(b + [0])
    out.append(b + [0xff] * 9)
    return out


def c20(tier):
    t0 = time.time()
    rep = vlib.Reporter("C20")
    cases, r = mc_flat()
    rng = random.Random(vlib.seed() + 20)
    total = 0
    classes = {"ok": 0, "err": 0}
    sites = {}

    def crash(kind, inp, why):
        loc = why.split(" @ ")[-1]
        sites[loc] = sites.get(loc, 0) + 1
        if sites[loc] <= 5:
            rep.violation("panic@%s|%s|%s" % (loc, kind, cj(inp)[:2000]), {"decoder": kind, "input": inp if isinstance(inp, list) else str(inp)[:4000]}, "%s crashed instead of returning an error: %s" % (kind, why[:200]))
    # (1) flat / CBOR decoders on mutations of the specification's encodings
    sel = cases if tier == "thorough" else [c for i, c in enumerate(cases) if i % 3 == 0 or (c["term"].get("k") == "con" and len(c["flat"]) <= 40)]
    real = []
    for i, c in enumerate(sel):
        real.append({"id": len(real), "mutants": mutations(rng, c["flat"], 24 if tier == "quick" else 120), "mutant_kind": "flat"})
        real.append({"id": len(real), "mutants": mutations(rng, c["cbor"], 12 if tier == "quick" else 60), "mutant_kind": "cbor"})
    obs = vlib.run_harness("flat_ops", stdin_lines=real, timeout=3600)
    for rq, o in zip(real, obs):
        for m, res in zip(rq["mutants"], o["mutants"]):
            total += 1
            if "panic" in res:
                crash("from_" + rq["mutant_kind"], m, res["panic"])
            elif "ok" in res:
                classes["ok"] += 1
                st = res.get("stable")
                if isinstance(st, dict) and "panic" in st:
                    crash("to_flat(decoded)", m, st["panic"])
                elif st is False:
                    rep.violation("unstable:" + cj(m), {"input": m}, "bytes decode to a program that does not survive its own encode / decode")
            else:
                classes["err"] += 1
    # (2) the UPLC text parser on mutations of the specification's text (MC_Text)
    rt = vlib.tlc("MC_Text", workers=4, timeout=1200, xmx="4g", metaname="MC_Text20")
    texts = [render(c["v110"]) for c in rt.tagged("REPLAY")]
    tm = []
    for t in (texts if tier == "thorough" else texts[::2]):
        for _ in range(6 if tier == "quick" else 30):
            k = rng.random()
            if k < 0.3:
                tm.append(t[:rng.randrange(len(t) + 1)])
            elif k < 0.6:
                i = rng.randrange(len(t))
                tm.append(t[:i] + rng.choice(["(", ")", "[", "]", '"', "\\", "#", "-", "\x00", "é", "builtin", "con", " ", "99999999999999999999999"]) + t[i + 1:])
            elif k < 0.8:
                i = rng.randrange(len(t))
                tm.append(t[:i] + t[i + 1:])
            else:
                tm.append(t.replace("builtin ", "builtin x", 1).replace("integer", rng.choice(["integr", "(list", "data", "bool"]), 1))
    # every integer literal of the texts, rewritten with odd sign runs / shapes (the grammar of numbers is wider than what a big-number parser takes)
    import re
    NUMS = ["+-5", "-+5", "--5", "++5", "+-+5", "---5", "+", "-", "5-", "+ 5", "0x5", "5.0", "5e3", "٥", "-0", "+0", "00005", "−5"]
    nt = 0
    for t in texts:
        ms = list(re.finditer(r"(?<![\w.#])-?\d+(?![\w.])", t))
        for m in ms[:3]:
            if m.start() < 18:       # the version triple is another rule, covered below
                continue
            for v in (NUMS if nt < 400 else NUMS[:4]):
                tm.append(t[:m.start()] + v + t[m.end():])
            nt += 1
    tm += ["(program +1.0.0 (error))", "(program 1.-1.0 (error))", "(program 1.1.0 (constr +1))", "(program 1.1.0 (constr -1))", "(program 1.1.0 (constr 18446744073709551616))",
           "(program 1.1.0 (con data (I +-5)))", "(program 1.1.0 (con data (Constr +-1 [])))", "(program 1.1.0 (con (list integer) [+-5]))", "(program 1.1.0 (con (pair integer integer) (--1, ++2)))"]
    tm += ["(" * 2000, "[" * 3000 + "]" * 3000, "(program 1.1.0 " + "(delay " * 5000 + "(error)" + ")" * 5000 + ")", "(program 1.1.0 (con integer " + "9" * 5000 + "))",
           "(program 1.1.0 (builtin nope))", "(program 1.1.0 (con (list (list (list integer))) [[[1]]]))", "(program 99999999999999999999.0.0 (error))", ""]
    obs = vlib.run_harness("uplc_text", stdin_lines=[{"id": i, "term": {"k": "err"}, "text": t, "quiet": True} for i, t in enumerate(tm)], timeout=3600)
    for t, o in zip(tm, obs):
        total += 1
        ps = o.get("parse_spec_text", {})
        if "panic" in ps:
            crash("uplc parser", t, ps["panic"])
        else:
            classes["ok" if "ok" in ps else "err"] += 1
    # (3) parameter application / validation with near-miss data is covered by C12 and C18 (same call sites); here: JSON mutations of a blueprint
    total += blueprint_json_mutations(rep, rng, tier, crash)
    # (4) the Aiken lexer / parser / formatter on mutated sources
    total += aiken_text_mutations(rep, rng, tier, crash)
    if classes["err"] < 200 or classes["ok"] < 50:
        raise vlib.ToolError("C20 vacuity: %s" % classes)
    cov = {"states": r.distinct + rt.distinct, "transitions": r.generated + rt.generated, "traces_validated_against_impl": total,
           "samples": [{"decoder": "from_flat", "input": real[0]["mutants"][3]}, {"parser": "uplc text", "input": tm[5][:200]}],
           "evaluations": total, "distinct_nontrivial": total,
           "rule": "mutations of the SPECIFICATION's encodings (Flat.tla / UplcText.tla via TLC): every truncation, sampled single-bit flips, byte "
                   "substitutions with CBOR / flat control values, trailing garbage, deep nesting, huge numerals, unknown names; blueprint JSON with "
                   "dropped / retyped / duplicated fields; Aiken sources with token-level mutations. Oracle: a value or an error - never a panic, never "
                   "a hang (process timeout) - and a decoded program must survive its own encode / decode",
           "exhaustive": False, "classes": classes}
    rc = rep.finish()
    vlib.write_evidence("C20", tier, "model_checking", cov,
                        ["the expected Ok / Err class of a mutated input is not computed by the specification (Decode is not modelled): the oracle is "
                         "'no crash' plus self-consistency of what decodes", "stack depth: inputs nest a few thousand levels (modest input), run on the default 8 MiB "
                         "stack of a spawned thread"], time.time() - t0, len(rep.violations))
    return rc


def hang(rep, what, text, r):
    kind = "did not answer within 20 s" if r.get("timeout") else "killed the process (exit %s: stack overflow / abort)" % r.get("crashed")
    shape = "len=%d head=%r" % (len(text), text[:60])
    import re
    deep = re.search(r"[(!\[{]{16,}", text.replace(" ", "").replace("\n", "")) is not None
    key = "aiken-parser:exponential-nesting" if (what.startswith("aiken") and r.get("timeout") and deep) else "hang:%s|%s" % (what, vlib.canon_hash(text))
    rep.violation(key, {"input": text[:20000], "input_length": len(text)}, "%s %s on %s" % (what, kind, shape))


def blueprint_json_mutations(rep, rng, tier, crash):
    import aikengen as ag
    src = ag.render_types() + "\nvalidator v(p: Point, q: List<Int>) {\n  mint(_r: Shape, _p: ByteArray, _tx: Data) {\n    p.x > 0 && q != []\n  }\n\n  else(_) {\n    False\n  }\n}\n"
    o = vlib.run_harness("blueprint_ops", stdin_lines=[{"id": 0, "dir": os.path.join(vlib.WORK, "bp", "c20_%d" % os.getpid()), "src": src, "ops": []}])[0]
    if o.get("build") != "ok":
        raise vlib.ToolError("C20: probe blueprint does not build: %s" % json.dumps(o.get("build"))[:400])
    bp = o["blueprint"]
    docs = []

    def walk(x, path=()):
        yield path, x
        if isinstance(x, dict):
            for k, v in x.items():
                yield from walk(v, path + (k,))
        elif isinstance(x, list):
            for i, v in enumerate(x):
                yield from walk(v, path + (i,))
    paths = [p for p, _ in walk(bp) if p]
    rng.shuffle(paths)
    import copy
    for p in paths[:150 if tier == "quick" else 1500]:
        for mut in ("drop", "null", "int", "str", "list", "dict"):
            d = copy.deepcopy(bp)
            cur = d
            for k in p[:-1]:
                cur = cur[k]
            if mut == "drop":
                if isinstance(cur, dict):
                    del cur[p[-1]]
                else:
                    cur.pop(p[-1])
            else:
                cur[p[-1]] = {"null": None, "int": -1, "str": "zz", "list": [], "dict": {}}[mut]
            docs.append(json.dumps(d))
    hexish = [(p2, x) for p2, x in walk(bp) if isinstance(x, str) and len(x) >= 8 and all(ch in "0123456789abcdef" for ch in x)]
    for p2, x in hexish:
        for v in (x[:-2], x[:-1], x + "00", x + "0", "", "00", x.upper(), x[:len(x) // 2], x + x, "zz" + x[2:], x[:56], x[:64], "00" * 28, "00" * 32):
            d = copy.deepcopy(bp)
            cur = d
            for k in p2[:-1]:
                cur = cur[k]
            cur[p2[-1]] = v
            docs.append(json.dumps(d))
    docs += ["", "{", "[]", "null", '{"preamble":{}}', json.dumps(bp)[:-5], json.dumps(bp).replace("compiledCode", "compiledcode"), json.dumps(bp).replace('"hash":"', '"hash":"zz')]
    res = vlib.run_harness_stream("json_ops", [{"id": i, "kind": "blueprint", "text": t} for i, t in enumerate(docs)], per_case_timeout=20, confirm_timeout=100)
    for t, r in zip(docs, res):
        if "panic" in r:
            crash("blueprint JSON", t, r["panic"])
        elif r.get("timeout") or "crashed" in r:
            hang(rep, "blueprint JSON", t, r)
    return len(docs)


def aiken_text_mutations(rep, rng, tier, crash):
    import aikengen as ag
    srcs = []
    for i in range(40 if tier == "quick" else 400):
        g, sig, ret = ag.gen_module(rng, fuel=16, n_helpers=1)
        srcs.append(ag.render_module(g))
    muts = []
    toks = ["{", "}", "(", ")", "[", "]", "..", "->", "|>", "&&", "||", "when", "is", "let", "expect", "fn", "pub", "type", "if", "else", "@\"", "#\"", "\"", "//", "///", "\\",
            "0x", "1_000", "-", "?", ",", "é", "\x00", "trace", "todo", "fail", "and", "or", "as", "<", ">", "="]
    for s in srcs:
        for _ in range(8 if tier == "quick" else 30):
            k = rng.random()
            i = rng.randrange(len(s))
            if k < 0.25:
                muts.append(s[:i])
            elif k < 0.6:
                muts.append(s[:i] + rng.choice(toks) + s[i:])
            elif k < 0.8:
                j = min(len(s), i + rng.randint(1, 12))
                muts.append(s[:i] + s[j:])
            else:
                j = rng.randrange(len(s))
                a, b2 = min(i, j), max(i, j)
                muts.append(s[:a] + s[b2:] + s[a:b2])
    muts += ["", "{" * 3000, "pub fn f() { " + "(" * 3000 + "1" + ")" * 3000 + " }", "pub fn f() { " + "[" * 2000 + "]" * 2000 + " }", "pub fn f() { " + "!" * 5000 + "True }",
             "pub fn f() { " + " + ".join(["1"] * 5000) + " }", "pub fn f() { #\"" + "zz" * 100 + "\" }", "pub fn f() { " + "9" * 10000 + " }", "@" * 1000, "\"" * 999, "/" * 4000,
             "pub fn f() { " + "if True { " * 1500 + "1" + " } else { 2 }" * 1500 + " }", "pub type T { " + "A(" * 1000 + "Int" + ")" * 1000 + " }"]
    res = vlib.run_harness_stream("json_ops", [{"id": i, "kind": "aiken", "text": t} for i, t in enumerate(muts)], per_case_timeout=20, confirm_timeout=100)
    for t, r in zip(muts, res):
        if "panic" in r:
            crash("aiken " + r.get("stage", "?"), t, r["panic"])
        elif r.get("timeout") or "crashed" in r:
            hang(rep, "aiken lexer / parser / formatter", t, r)
    return len(muts)


def c20_replay(path):
    print(open(path).read()[:3000])
    return 0
