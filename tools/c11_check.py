"""C11: variable binding survives name/index conversions (DeBruijn.tla, MC_DeBruijn.tla)."""
import json, random, time
import vlib
from vlib import log
from uplc_checks import cj, write_cfg, tla_set


def mc(side, n, uniques, texts, workers=6):
    cfg = write_cfg("MC_DeBruijn_%s_%d" % (side, n),
                    {"N": n, "Uniques": "{" + ", ".join(str(u) for u in uniques) + "}", "Texts": tla_set(texts),
                     "Side": '"%s"' % side},
                    ["ConverterRefinesReference", "ThereAndBack", "ClosedStaysClosed", "Emit"])
    r = vlib.tlc("MC_DeBruijn", cfg=cfg, workers=workers, timeout=1500, xmx="8g", metaname="MC_DeBruijn_%s_%d" % (side, n))
    if not r.ok:
        raise vlib.ToolError("MC_DeBruijn(%s,%d) did not complete cleanly: %s\n%s" % (side, n, r.error, r.out[-1500:]))
    cases = r.tagged("REPLAY")
    if not cases:
        raise vlib.ToolError("MC_DeBruijn printed no REPLAY line")
    return cases, r


def names_consistent(t, m=None):
    """text is a function of unique (what the compiler produces): the interner must then preserve binding"""
    m = {} if m is None else m
    k = t.get("k")
    if k in ("var", "lam"):
        n = t["n"]
        if m.setdefault(n["u"], n["t"]) != n["t"]:
            return False
    for key in ("b", "f", "a", "s"):
        if key in t and isinstance(t[key], dict) and not names_consistent(t[key], m):
            return False
    for key in ("fs", "bs"):
        for x in t.get(key, []):
            if not names_consistent(x, m):
                return False
    return True


# ---- python mirror of the reference (only used for RANDOM terms beyond the TLC bound; TLC's own
# ---- expectation is used for the enumerated ones, and the two are cross-checked on those)
def to_db(t, ctx):
    k = t["k"]
    if k == "var":
        u = t["n"]["u"]
        for j in range(len(ctx) - 1, -1, -1):
            if ctx[j] == u:
                return {"k": "var", "i": len(ctx) - j}
        raise KeyError("free")
    if k == "lam":
        return {"k": "lam", "b": to_db(t["b"], ctx + [t["n"]["u"]])}
    if k == "app":
        return {"k": "app", "f": to_db(t["f"], ctx), "a": to_db(t["a"], ctx)}
    if k in ("delay", "force"):
        return {"k": k, "b": to_db(t["b"], ctx)}
    if k == "constr":
        return {"k": "constr", "tag": t["tag"], "fs": [to_db(x, ctx) for x in t["fs"]]}
    if k == "case":
        return {"k": "case", "s": to_db(t["s"], ctx), "bs": [to_db(x, ctx) for x in t["bs"]]}
    return t


def db_open(t, d):
    k = t["k"]
    if k == "var":
        return not (1 <= t["i"] <= d)
    if k == "lam":
        return db_open(t["b"], d + 1)
    if k == "app":
        return db_open(t["f"], d) or db_open(t["a"], d)
    if k in ("delay", "force"):
        return db_open(t["b"], d)
    if k == "constr":
        return any(db_open(x, d) for x in t["fs"])
    if k == "case":
        return db_open(t["s"], d) or any(db_open(x, d) for x in t["bs"])
    return False


def rand_named(rng, fuel, uniques, texts):
    c = rng.random()
    if fuel <= 0 or c < 0.25:
        if rng.random() < 0.85:
            return {"k": "var", "n": {"t": rng.choice(texts), "u": rng.choice(uniques)}}
        return {"k": "con", "c": {"t": "unit"}}
    if c < 0.55:
        return {"k": "lam", "n": {"t": rng.choice(texts), "u": rng.choice(uniques)}, "b": rand_named(rng, fuel - 1, uniques, texts)}
    if c < 0.75:
        return {"k": "app", "f": rand_named(rng, fuel // 2, uniques, texts), "a": rand_named(rng, fuel // 2, uniques, texts)}
    if c < 0.83:
        return {"k": rng.choice(["delay", "force"]), "b": rand_named(rng, fuel - 1, uniques, texts)}
    if c < 0.92:
        return {"k": "constr", "tag": rng.randint(0, 2), "fs": [rand_named(rng, fuel // 3, uniques, texts) for _ in range(rng.randint(0, 3))]}
    return {"k": "case", "s": rand_named(rng, fuel // 3, uniques, texts), "bs": [rand_named(rng, fuel // 3, uniques, texts) for _ in range(rng.randint(0, 3))]}


def rand_db(rng, fuel, depth):
    c = rng.random()
    if fuel <= 0 or c < 0.25:
        if rng.random() < 0.9:
            hi = depth + (1 if rng.random() < 0.1 else 0)
            lo = 0 if rng.random() < 0.05 else 1
            return {"k": "var", "i": rng.randint(lo, max(lo, hi))}
        return {"k": "con", "c": {"t": "unit"}}
    if c < 0.55:
        return {"k": "lam", "b": rand_db(rng, fuel - 1, depth + 1)}
    if c < 0.75:
        return {"k": "app", "f": rand_db(rng, fuel // 2, depth), "a": rand_db(rng, fuel // 2, depth)}
    if c < 0.83:
        return {"k": rng.choice(["delay", "force"]), "b": rand_db(rng, fuel - 1, depth)}
    if c < 0.92:
        return {"k": "constr", "tag": rng.randint(0, 2), "fs": [rand_db(rng, fuel // 3, depth) for _ in range(rng.randint(0, 3))]}
    return {"k": "case", "s": rand_db(rng, fuel // 3, depth), "bs": [rand_db(rng, fuel // 3, depth) for _ in range(rng.randint(0, 3))]}


def judge(c, o, rep, src):
    """c: {side, term, open, db}; o: observation of the real conversions"""
    bad = []

    def expect(field, what):
        r = o.get(field)
        if r is None:
            return
        if "panic" in r:
            bad.append("%s: panicked: %s" % (what, r["panic"][:200]))
        elif c["open"]:
            if "ok" in r:
                bad.append("%s: the term has a free variable but conversion succeeded, binding it to some binder: %s" % (what, cj(r["ok"])[:300]))
        else:
            if "err" in r:
                bad.append("%s: closed term rejected: %s" % (what, r["err"]))
            elif cj(r["ok"]) != cj(c["db"]):
                bad.append("%s: variables resolve to different binders" % what)

    if c["side"] == "named":
        expect("db", "name -> de Bruijn")
        expect("ndb", "name -> named de Bruijn")
        expect("prog_db", "Program::to_debruijn")
        expect("interned_db", "CodeGenInterner then to_debruijn")
    else:
        expect("back", "de Bruijn -> name -> de Bruijn")
        expect("back_ndb", "de Bruijn -> named de Bruijn -> name -> de Bruijn")
        r = o.get("named") or {}
        if c["open"] and "ok" in r:
            bad.append("de Bruijn -> name: an index that has no binder was bound to some binder instead of being rejected: %s" % cj(r["ok"])[:300])
        if "panic" in r:
            bad.append("de Bruijn -> name: panicked: %s" % r["panic"][:200])
    for b in bad:
        rep.violation(cj(c["term"]) + "|" + b.split(":")[0], {"case": c, "observed": o, "source": src}, b)
    return not bad


def run_cases(cases, rep, src):
    real = []
    for i, c in enumerate(cases):
        r = {"id": i, "side": c["side"], "term": c["term"]}
        if c["side"] == "named" and names_consistent(c["term"]):
            r["intern"] = True
        real.append(r)
    obs = vlib.run_harness("debruijn_conv", stdin_lines=real)
    if len(obs) != len(cases):
        raise vlib.ToolError("debruijn_conv returned %d results for %d cases" % (len(obs), len(cases)))
    for c, o in zip(cases, obs):
        if "harness_error" in o:
            raise vlib.ToolError("harness: " + o["harness_error"])
        judge(c, o, rep, src)
    return obs


def c11(tier):
    t0 = time.time()
    rep = vlib.Reporter("C11")
    n_named, n_db = (5, 5) if tier == "quick" else (6, 6)
    states = trans = 0
    allc = []
    for side, n in (("named", n_named), ("db", n_db)):
        cases, r = mc(side, n, [0, 1], ["a", "b"] if tier == "thorough" or n <= 5 else ["a"])
        states += r.distinct
        trans += r.generated
        # cross-check the python mirror against TLC's expectation (it is used beyond the bound)
        for c in cases[::7]:
            if side == "named":
                try:
                    d = to_db(c["term"], [])
                    ok = (not c["open"]) and cj(d) == cj(c["db"])
                except KeyError:
                    ok = c["open"]
            else:
                ok = db_open(c["term"], 0) == c["open"]
            if not ok:
                raise vlib.ToolError("python mirror of DeBruijn.tla disagrees with TLC on %s" % cj(c["term"]))
        run_cases(cases, rep, "MC_DeBruijn side=%s N=%d" % (side, n))
        allc += cases
        log("[c11] %s N=%d: %d terms" % (side, n, len(cases)))
    # comparator canary
    from vlib import Reporter
    class Dummy:
        def __init__(self): self.n = 0
        def violation(self, *a): self.n += 1
    d = Dummy()
    closed = next(c for c in allc if c["side"] == "named" and not c["open"] and '"var"' in cj(c["db"]))
    judge(closed, {"db": {"ok": {"k": "con", "c": {"t": "unit"}}}}, d, "canary")
    opn = next(c for c in allc if c["side"] == "named" and c["open"])
    judge(opn, {"db": {"ok": {"k": "con", "c": {"t": "unit"}}}}, d, "canary")
    if d.n != 2:
        raise vlib.ToolError("C11 comparator canary did not fire")
    # beyond the bound
    rng = random.Random(vlib.seed() + 11)
    nr = 4000 if tier == "quick" else 60000
    rc = []
    for _ in range(nr // 2):
        uniq = list(range(rng.choice([1, 2, 3, 6])))
        t = rand_named(rng, rng.randint(4, 40), uniq, ["x", "y", "z"][:rng.choice([1, 2, 3])])
        try:
            rc.append({"side": "named", "term": t, "open": False, "db": to_db(t, [])})
        except KeyError:
            rc.append({"side": "named", "term": t, "open": True, "db": None})
    for _ in range(nr // 2):
        t = rand_db(rng, rng.randint(4, 40), 0)
        rc.append({"side": "db", "term": t, "open": db_open(t, 0), "db": t})
    run_cases(rc, rep, "random terms (seed %d)" % vlib.seed())
    nontriv = set(vlib.canon_hash(c["term"]) for c in allc + rc if cj(c["term"]).count('"lam"') >= 1 and cj(c["term"]).count('"var"') >= 1)
    cov = {"states": states, "transitions": trans, "traces_validated_against_impl": len(allc) + len(rc),
           "samples": [allc[len(allc) // 3], allc[-5], rc[0]],
           "evaluations": len(allc) + len(rc), "distinct_nontrivial": len(nontriv),
           "rule": "MC_DeBruijn: all named terms <= N nodes over 2 uniques x 2 texts (shadowing, duplicate uniques with different "
                   "texts, binders under delay/constr/case, open and closed) and all index terms with indices 0..depth+1; TLC also "
                   "checks the transcribed scope-stack converter against the reference. Random larger terms beyond. non-trivial: "
                   "has a binder and a variable; distinct by canonical hash",
           "exhaustive": True, "open_terms": sum(1 for c in allc + rc if c["open"]), "closed_terms": sum(1 for c in allc + rc if not c["open"])}
    code = rep.finish()
    vlib.write_evidence("C11", tier, "model_checking", cov,
                        ["alpha-equivalence is decided by equality of de Bruijn forms (no name comparison)",
                         "the CodeGenInterner leg is only exercised on terms whose text is a function of the unique (its documented domain)"],
                        time.time() - t0, len(rep.violations))
    return code


def c11_replay(path):
    j = json.load(open(path))["case"]
    rep = vlib.Reporter("C11")
    run_cases([j["case"]], rep, "replay")
    return rep.finish()
