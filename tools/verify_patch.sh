#!/bin/bash
# usage: verify_patch.sh <seeded dir name>...  : in a scratch worktree (/tmp/mut2/repo) apply the patch, run the demo if it is a
# Rust test (must FAIL with the patch and PASS without) and the whole existing suite (must PASS with the patch).
W=/tmp/mut2/repo
mkdir -p /tmp/mut2
HEAD=$(git -C /repo rev-parse HEAD)
[ -d $W ] || git -C /repo worktree add --detach $W $HEAD >/dev/null 2>&1
for name in "$@"; do
  D=/verif/seeded/$name
  git -C $W reset -q --hard; git -C $W clean -fdq -e target; git -C $W checkout -q --detach $HEAD
  demo_without=na; demo_with=na
  if [ -f $D/demo.rs ]; then
    crate=$(grep -oh 'crates/[a-z-]*/tests' $D/agent_meta.json $D/meta.json 2>/dev/null | head -1 | cut -d/ -f2)
    [ -z "$crate" ] && crate=$(grep -oh 'cargo test -p [a-z-]*' $D/agent_meta.json 2>/dev/null | head -1 | awk '{print $4}')
    [ -z "$crate" ] && crate=uplc
    mkdir -p $W/crates/$crate/tests
    cp $D/demo.rs $W/crates/$crate/tests/verif_demo.rs
    (cd $W && cargo test -p $crate --test verif_demo --offline >/dev/null 2>&1); demo_without=$?
  fi
  # a demo that is an Aiken project: `aiken check` must succeed without the patch and fail with it
  proj=""; for c in $D/demo $D/demo_project; do [ -f $c/aiken.toml ] && proj=$c; done
  cli_without=na; cli_with=na
  shdemo=""; for c in $D/demo.sh $D/demo_cli.sh; do [ -f $c ] && shdemo=$c; done
  if [ -n "$shdemo" ]; then
    (cd $W && cargo build -p aiken --offline >/dev/null 2>&1 && rm -rf /tmp/mut2/sd && cp -r $D /tmp/mut2/sd && bash /tmp/mut2/sd/$(basename $shdemo) $W/target/debug/aiken >/dev/null 2>&1); cli_without=$?
  elif [ -n "$proj" ] && [ ! -f $D/demo.rs ]; then
    (cd $W && cargo build -p aiken --offline >/dev/null 2>&1 && rm -rf /tmp/mut2/proj && cp -r $proj /tmp/mut2/proj && target/debug/aiken check /tmp/mut2/proj >/dev/null 2>&1); cli_without=$?
  fi
  (git -C $W apply $D/patch.diff 2>/dev/null || (git -C $W apply --3way $D/patch.diff >/dev/null 2>&1 && git -C $W reset -q)) || { echo "$name PATCH-FAILED"; continue; }
  if [ -f $D/demo.rs ]; then
    (cd $W && cargo test -p $crate --test verif_demo --offline >/dev/null 2>&1); demo_with=$?
    rm -f $W/crates/$crate/tests/verif_demo.rs
  fi
  if [ -n "$shdemo" ]; then
    (cd $W && cargo build -p aiken --offline >/dev/null 2>&1 && rm -rf /tmp/mut2/sd && cp -r $D /tmp/mut2/sd && bash /tmp/mut2/sd/$(basename $shdemo) $W/target/debug/aiken >/dev/null 2>&1); cli_with=$?
  elif [ -n "$proj" ] && [ ! -f $D/demo.rs ]; then
    (cd $W && cargo build -p aiken --offline >/dev/null 2>&1 && rm -rf /tmp/mut2/proj && cp -r $proj /tmp/mut2/proj && target/debug/aiken check /tmp/mut2/proj >/dev/null 2>&1); cli_with=$?
  fi
  (cd $W && cargo test --workspace --no-fail-fast --offline > /verif/work/t/suite_$name.log 2>&1); suite=$?
  echo "$name demo_without=$demo_without demo_with=$demo_with cli_without=$cli_without cli_with=$cli_with suite_with=$suite"
done
git -C $W reset -q --hard; git -C $W clean -fdq -e target
