#!/bin/bash
# usage: verify_patch.sh <seeded dir name>...  : in a scratch worktree (/tmp/mut2/repo) apply the patch, run the demo if it is a
# Rust test (must FAIL with the patch and PASS without) and the whole existing suite (must PASS with the patch).
W=/tmp/mut2/repo
mkdir -p /tmp/mut2
HEAD=$(git -C /repo rev-parse HEAD)
[ -d $W ] || git -C /repo worktree add --detach $W $HEAD >/dev/null 2>&1
for name in "$@"; do
  D=/verif/seeded/$name
  git -C $W reset -q --hard; git -C $W clean -fdq -e target; git -C $W checkout -q --detach $HEAD
  demo_without=na; demo_with=na
  if [ -f $D/demo.rs ]; then
    crate=$(grep -o 'crates/[a-z-]*/tests/demo_m[0-9]*\.rs' $D/agent_meta.json $D/meta.json 2>/dev/null | head -1 | cut -d: -f2 | cut -d/ -f2)
    [ -z "$crate" ] && crate=uplc
    cp $D/demo.rs $W/crates/$crate/tests/verif_demo.rs
    (cd $W && cargo test -p $crate --test verif_demo --offline >/dev/null 2>&1); demo_without=$?
  fi
  (git -C $W apply $D/patch.diff 2>/dev/null || (git -C $W apply --3way $D/patch.diff >/dev/null 2>&1 && git -C $W reset -q)) || { echo "$name PATCH-FAILED"; continue; }
  if [ -f $D/demo.rs ]; then
    (cd $W && cargo test -p $crate --test verif_demo --offline >/dev/null 2>&1); demo_with=$?
    rm -f $W/crates/$crate/tests/verif_demo.rs
  fi
  (cd $W && cargo test --workspace --no-fail-fast --offline > /verif/work/t/suite_$name.log 2>&1); suite=$?
  echo "$name demo_without=$demo_without demo_with=$demo_with suite_with=$suite"
done
git -C $W reset -q --hard; git -C $W clean -fdq -e target
