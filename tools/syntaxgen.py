#!/usr/bin/env python3
"""Seeded generator of Aiken SOURCE TEXT over the surface grammar (C13): it does not need to type-check,
only to parse.  Layout is deliberately irregular (the formatter is what is being tested).  Comments are
numbered so that their order can be compared after formatting."""
import random

NAMES = ["a", "b", "c", "foo", "bar", "x1", "acc", "xs", "my_value"]
UPNAMES = ["Foo", "Bar", "Some", "None", "Point", "Leaf"]
TYPES = ["Int", "Bool", "ByteArray", "String", "Data", "Foo", "Option<Int>", "List<Int>", "(Int, Bool)", "Pair<Int, ByteArray>",
         "fn(Int) -> Bool", "List<Option<a>>", "a", "Void"]
BINOPS = ["||", "&&", "==", "!=", "<", "<=", ">", ">=", "+", "-", "*", "/", "%"]


class S:
    def __init__(self, seed, comments=True):
        self.r = random.Random(seed)
        self.nc = 0
        self.comments = comments

    def pick(self, xs):
        return self.r.choice(xs)

    def chance(self, p):
        return self.r.random() < p

    def name(self):
        return self.pick(NAMES)

    def comment(self, ind=""):
        """zero or more whole-line comments"""
        if not self.comments or not self.chance(0.12):
            return ""
        out = ""
        for _ in range(self.r.randint(1, 2)):
            self.nc += 1
            out += "%s// c%d %s\n" % (ind, self.nc, self.pick(["", "note", "x -> y", "{ odd }", "\"q\""]))
        return out

    def eol(self):
        """a comment at the end of a line"""
        if not self.comments or not self.chance(0.07):
            return ""
        self.nc += 1
        return " // c%d %s" % (self.nc, self.pick(["", "eol", "x -> y"]))

    # ---------------- literals
    def int_lit(self):
        k = self.r.randint(0, 9)
        n = self.pick([0, 1, 7, 42, 255, 1000, 65536, 1234567, 2 ** 64 + 1])
        if k == 0:
            return hex(n)
        if k == 1:
            return "0x" + ("%x" % n).upper()
        if k == 3 and n >= 1000:
            s = str(n)
            parts = []
            while s:
                parts.insert(0, s[-3:])
                s = s[:-3]
            return "_".join(parts)
        return str(n)

    def string_lit(self):
        return '@"%s"' % self.pick(["", "hello", "a b", "x\\ny", "q\\\"q", "café", "\\t|"])

    def bytes_lit(self):
        k = self.r.randint(0, 3)
        if k == 0:
            return '"%s"' % self.pick(["", "foo", "a b", "\\\"", "hé"])
        if k == 1:
            return '#"%s"' % self.pick(["", "00", "ff00", "abcdef", "AB12"])
        if k == 2:
            pool = self.pick([["0", "1", "255", "16"], ["0xff", "0x00", "0x0A", "0x7"]])
            return "#[%s]" % ", ".join(self.pick(pool) for _ in range(self.r.randint(0, 4)))
        return '#"%s"' % "".join(self.pick("0123456789abcdef") for _ in range(2 * self.r.randint(1, 40)))

    # ---------------- types
    def ty(self):
        return self.pick(TYPES)

    # ---------------- patterns
    def pat(self, d=2):
        k = self.r.randint(0, 13 if d > 0 else 4)
        if k == 0:
            return self.name()
        if k == 1:
            return "_" + self.pick(["", "x", "ignored"])
        if k == 2:          # negative literals too, in every base and grouping (`-0xff`, `-100_000`)
            return ("-" if self.chance(0.35) else "") + self.int_lit()
        if k == 3:
            return self.pick(UPNAMES)
        if k == 4:
            return self.bytes_lit()
        if k == 5:
            return "%s(%s%s)" % (self.pick(UPNAMES), ", ".join(self.pat(d - 1) for _ in range(self.r.randint(1, 3))), self.pick(["", ", .."]))
        if k == 6:
            fs = []
            for _ in range(self.r.randint(1, 3)):
                n = self.name()
                fs.append(n if self.chance(0.4) else "%s: %s" % (n, self.pat(d - 1)))
            if self.comments and self.chance(0.12):      # one field per line, a comment before one of them
                self.nc += 1
                k2 = self.r.randrange(len(fs))
                lines = []
                for i2, f in enumerate(fs):
                    if i2 == k2:
                        lines.append("// c%d in pattern" % self.nc)
                    lines.append(f + ",")
                return "%s {\n%s\n}" % (self.pick(UPNAMES), "\n".join(lines))
            return "%s { %s%s }" % (self.pick(UPNAMES), ", ".join(fs), self.pick(["", ", .."]))
        if k == 7:
            ps = [self.pat(d - 1) for _ in range(self.r.randint(0, 3))]
            tail = self.pick(["", "", "..", ".." + self.name(), ".._" + self.name()]) if ps else ""
            return "[%s%s]" % (", ".join(ps), (", " + tail) if tail else "")
        if k == 8:
            return "(%s)" % ", ".join(self.pat(d - 1) for _ in range(self.r.randint(2, 3)))
        if k == 9:
            return "Pair(%s, %s)" % (self.pat(d - 1), self.pat(d - 1))
        if k == 10:
            return "%s as %s" % (self.pat(d - 1), self.name())
        if k == 11:
            return "%s.%s" % (self.pick(["foo", "bar"]), self.pick(UPNAMES))
        if k == 12:
            return "%s.%s(%s)" % (self.pick(["foo", "bar"]), self.pick(UPNAMES), self.pat(d - 1))
        return "-" + self.pick(["1", "42"])

    # ---------------- expressions
    def args(self, d, holes=False):
        n = self.r.randint(2 if holes else 0, 3)      # `x |> f(_)` is sugar for `x |> f` and is printed so
        out = []
        hole_at = self.r.randrange(n) if holes and n else -1
        for i in range(n):
            v = "_" if i == hole_at else self.expr(d - 1)
            if self.chance(0.25):
                v = "%s: %s" % (self.name(), v)
            out.append(v)
        return ", ".join(out)

    def record(self, d, holes=False):
        n = self.r.randint(1, 3)
        fs = []
        hole_at = self.r.randrange(n) if holes else -1
        for i in range(n):
            nm = self.name()
            if i == hole_at:
                fs.append("%s: _" % nm)
            elif self.chance(0.3):
                fs.append(nm)                       # punning
            else:
                fs.append("%s: %s" % (nm, self.expr(d - 1)))
        if self.comments and self.chance(0.15):      # one field per line, comments before some of them
            lines = []
            for f in fs:
                if self.chance(0.4):
                    self.nc += 1
                    lines.append("// c%d field" % self.nc)
                lines.append(f + ",")
            return "%s {\n%s\n}" % (self.pick(UPNAMES), "\n".join(lines))
        return "%s { %s }" % (self.pick(UPNAMES), ", ".join(fs))

    def block(self, d, ind, bare=True):
        return "{\n" + self.body(d, ind + "  ", bare) + ind + "}"

    def atom(self, d, ind):
        k = self.r.randint(0, 9)
        if k <= 2:
            return self.name()
        if k == 3:
            return self.int_lit()
        if k == 4:
            return self.string_lit()
        if k == 5:
            return self.bytes_lit()
        if k == 6:
            return self.pick(UPNAMES)
        if k == 7:
            return self.pick(["True", "False", "Void", "[]"])
        if k == 8:
            return "%s.%s" % (self.name(), self.pick(["owner", "value", "1st", "2nd"]))
        return "%s.%s" % (self.pick(["foo", "bar"]), self.pick(["baz", "Quux"]))

    def expr(self, d, ind="  "):
        if d <= 0:
            return self.atom(d, ind)
        k = self.r.randint(0, 27)
        e = lambda: self.expr(d - 1, ind)
        if k <= 3:
            return self.atom(d, ind)
        if k <= 7:
            l, r = e(), e()
            if self.chance(0.35):
                l = "(%s)" % l
            if self.chance(0.35):
                r = "(%s)" % r
            return "%s %s %s" % (l, self.pick(BINOPS), r)
        if k == 8:
            v = e()
            return "%s%s" % (self.pick(["!", "-"]), v if self.chance(0.5) else "(%s)" % v)
        if k == 9:
            stages = [e() for _ in range(self.r.randint(2, 4))]
            if self.chance(0.4):
                return ("\n" + ind + "  |> ").join(stages)
            return " |> ".join(stages)
        if k == 10:
            return "%s(%s)" % (self.pick(["foo", "bar", "foo.baz", "Some", "list.map"]), self.args(d))
        if k == 11:
            return "%s(%s)" % (self.pick(["foo", "bar", "foo.baz"]), self.args(d, holes=True))
        if k == 12:
            return self.record(d)
        if k == 13:
            return self.record(d, holes=True)
        if k == 14:
            return "%s { ..%s, %s: %s }" % (self.pick(UPNAMES), self.name(), self.name(), e())
        if k == 15:
            xs = [e() for _ in range(self.r.randint(0, 4))]
            tail = (", .." + self.name()) if xs and self.chance(0.3) else ""
            return "[%s%s]" % (", ".join(xs), tail)
        if k == 16:
            return "(%s)" % ", ".join(e() for _ in range(self.r.randint(2, 3)))
        if k == 17:
            return "Pair(%s, %s)" % (e(), e())
        if k == 18:
            s = "if %s %s" % (e(), self.block(d - 1, ind))
            for _ in range(self.r.randint(0, 2)):
                s += " else if %s %s" % (e(), self.block(d - 1, ind))
            return s + " else " + self.block(d - 1, ind)
        if k == 19:
            s = "if %s is %s%s %s" % (self.pick([self.name(), e()]), self.pick(["", self.name() + ": ", "Some(x): ", "Foo { a, .. }: "]), self.pick(["Foo", "Option<Int>", "Int", "List<Foo>"]), self.block(d - 1, ind))
            return s + " else " + self.block(d - 1, ind)
        if k == 20:
            s = "when %s is {\n" % e()
            for _ in range(self.r.randint(1, 4)):
                s += self.comment(ind + "  ")
                pats = " | ".join(self.pat() for _ in range(1 if self.chance(0.8) else 2))
                rhs = self.expr(d - 1, ind + "    ") if self.chance(0.7) else self.block(d - 1, ind + "  ")
                if self.chance(0.1):
                    rhs = self.pick(["fail @\"no\"", "todo @\"later\""])
                s += "%s  %s -> %s%s\n" % (ind, pats, rhs, self.eol() if "\n" not in rhs else "")
            return s + ind + "}"
        if k == 21:
            return "%s { %s }" % (self.pick(["and", "or"]), ", ".join(e() for _ in range(self.r.randint(2, 3))))
        if k == 22:
            ps = []
            for _ in range(self.r.randint(0, 3)):
                p = self.pick([self.name(), "_", "_" + self.name()])
                if self.chance(0.4):
                    p += ": " + self.ty()
                ps.append(p)
            ret = (" -> " + self.ty()) if self.chance(0.3) else ""
            return "fn(%s)%s %s" % (", ".join(ps), ret, self.block(d - 1, ind))
        if k == 23:
            return "%s?" % self.pick([self.name(), "(%s)" % e(), "foo(%s)" % self.args(d)])
        if k == 24:
            return self.block(d - 1, ind, bare=False)     # a block used as a value: see known finding fmt:bare-fail-in-parentheses
        if k == 25:
            return self.pick(["(fail @\"boom\")", "(todo @\"wip\")"])   # an operand only between parentheses
        if k == 26:
            return "%s(%s).%s" % (self.name(), self.args(d), self.pick(["1st", "field"]))
        return self.pick(["<", "+", "==", "-", "&&", ">="]) if self.chance(0.0) else "foo(%s, %s)" % (e(), self.pick([">", "+", "==", "||"]))

    def stmt(self, d, ind):
        k = self.r.randint(0, 9)
        e = lambda: self.expr(d, ind)
        if k <= 2:
            ann = (": " + self.ty()) if self.chance(0.3) else ""
            return "let %s%s = %s" % (self.pat(1), ann, e())
        if k == 3:
            ann = (": " + self.ty()) if self.chance(0.3) else ""
            return "expect %s%s = %s" % (self.pat(2), ann, e())
        if k == 4:
            return "expect %s" % e()
        if k == 5:
            return "trace %s%s" % (self.pick([self.string_lit(), self.name(), "(%s)" % e(), "foo(%s)" % self.expr(d - 1, ind)]),
                                   self.pick(["", ": " + self.name(), ": %s, %s" % (self.name(), self.int_lit())]))
        if k == 6:
            return "let %s <- %s(%s)" % (self.pick([self.name(), "_", "(a, b)", "Foo { a, .. }"]), self.pick(["foo", "and_then"]), self.args(d))
        if k == 7:
            return "let %s =\n%s  %s" % (self.name(), ind, e())
        if k == 8:
            return "let %s, %s <- %s(%s)" % (self.name(), self.name(), "foo", self.args(d))
        return e()

    def body(self, d, ind, bare=True):
        out = ""
        for _ in range(self.r.randint(0, 3)):
            out += self.comment(ind)
            out += ind + self.stmt(d, ind) + self.eol() + "\n"
            if self.chance(0.15):
                out += "\n"
        out += self.comment(ind)
        last = self.expr(d, ind)
        if bare and self.chance(0.06):
            last = self.pick(["fail", "todo", "fail @\"boom\"", "todo @\"wip\"", "fail " + self.name()])             # bare: only where nothing follows that it could swallow
            return out + ind + last + "\n"
        out += ind + last + self.eol() + "\n"
        out += self.comment(ind)
        return out

    # ---------------- definitions
    def doc(self, ind=""):
        if not self.comments or not self.chance(0.25):
            return ""
        out = ""
        for _ in range(self.r.randint(1, 2)):
            self.nc += 1
            out += "%s/// d%d %s\n" % (ind, self.nc, self.pick(["", "doc", "`code`"]))
        return out

    def params(self, labels=True):
        ps = []
        for _ in range(self.r.randint(0, 3)):
            p = self.pick([self.name(), "_" + self.name(), "_"])
            if labels and self.chance(0.15) and not p.startswith("_"):
                p = self.pick(["lbl", "from"]) + " " + p
            if self.chance(0.6):
                p += ": " + self.ty()
            ps.append(p)
        return ", ".join(ps)

    def definition(self, d):
        k = self.r.randint(0, 11)
        c = self.comment() + self.doc()
        if k <= 3:
            ret = (" -> " + self.ty()) if self.chance(0.5) else ""
            return c + "%sfn %s(%s)%s {\n%s}\n" % (self.pick(["", "pub "]), self.name(), self.params(), ret, self.body(d, "  "))
        if k == 4:
            via = ""
            if self.chance(0.4):
                via = "%s via %s(%s)" % (self.name(), self.pick(["fuzz.int", "foo"]), self.args(1))
            return c + "test %s(%s) %s{\n%s}\n" % (self.name(), via, self.pick(["", "fail ", "fail once "]), self.body(d, "  "))
        if k == 5:
            ann = (": " + self.ty()) if self.chance(0.5) else ""
            return c + "%sconst %s%s = %s\n" % (self.pick(["", "pub "]), self.name(), ann, self.expr(1))
        if k == 6:
            return c + "%stype %s = %s\n" % (self.pick(["", "pub "]), self.pick(["Alias", "Id<a>"]), self.ty())
        if k in (7, 8):
            deco = self.pick(["", "", "@tag(%s)\n" % self.pick(["1", "0x10", "121"]), "@list\n"])
            s = c + deco + "%stype %s%s {\n" % (self.pick(["", "pub ", "pub opaque "]), self.pick(UPNAMES), self.pick(["", "<a>", "<a, b>"]))
            if self.chance(0.4):
                for _ in range(self.r.randint(1, 3)):
                    s += self.comment("  ") + self.doc("  ")
                    s += "  %s: %s,%s\n" % (self.name(), self.ty(), self.eol())
            else:
                for i in range(self.r.randint(1, 3)):
                    s += self.comment("  ") + self.doc("  ")
                    if self.chance(0.2):
                        s += "  @tag(%d)\n" % (i + 3)
                    kk = self.r.randint(0, 2)
                    cn = self.pick(UPNAMES) + str(i)
                    if kk == 0:
                        s += "  %s\n" % cn
                    elif kk == 1:
                        s += "  %s(%s)\n" % (cn, ", ".join(self.ty() for _ in range(self.r.randint(1, 3))))
                    else:
                        s += "  %s { %s }\n" % (cn, ", ".join("%s: %s" % (self.name(), self.ty()) for _ in range(self.r.randint(1, 3))))
            return s + "}\n"
        if k == 9:
            s = c + "validator %s%s {\n" % (self.name(), ("(%s)" % self.params(False)) if self.chance(0.5) else "")
            for h in self.r.sample(["spend", "mint", "withdraw", "publish", "vote", "propose"], self.r.randint(0, 2)):
                s += self.comment("  ")
                s += "  %s(%s) {\n%s  }\n\n" % (h, self.params(False), self.body(d, "    "))
            if self.chance(0.5):
                s += "  else(%s) {\n%s  }\n" % (self.pick(["_", "_ctx", "ctx: ScriptContext"]), self.body(1, "    "))
            return s + "}\n"
        if k == 10:
            c = ""        # imports are sorted by the formatter and take their comments with them
            return c + "use %s%s\n" % (self.pick(["aiken/list", "foo", "foo/bar", "aiken/collection/dict"]),
                                         self.pick(["", " as l", ".{map, Foo}", ".{Dict, insert as ins}", ".{Foo, bar}"]))
        return c + "bench %s(%s via %s(%s)) {\n%s}\n" % (self.name(), self.name(), "foo", self.args(1), self.body(d, "  "))

    def module(self, d=3, ndefs=None):
        out = ""
        if self.comments and self.chance(0.2):
            out += "//// module doc\n//// second line\n\n"
        defs = [self.definition(d) for _ in range(ndefs or self.r.randint(1, 5))]
        # imports come first
        defs = [x for x in defs if "\nuse " in "\n" + x] + [x for x in defs if "\nuse " not in "\n" + x]
        for x in defs:
            out += x + "\n"
        out += self.comment()
        return out


def gen(seed, d=3, comments=True):
    return S(seed, comments).module(d)


if __name__ == "__main__":
    import sys
    print(gen(int(sys.argv[1]) if len(sys.argv) > 1 else 0))
