"""C16: property tests are reproducible and their counterexamples are real (Shrink.tla & co)."""
import os, json, random, time, copy
import vlib
from vlib import log
from uplc_checks import cj, write_cfg, tla_set

FUZZERS = ["const", "byte", "pair", "list", "until", "picky", "branch"]
PROPS = ["never", "lt3", "even", "ne5", "le300"]
MODES = ["fail_immediately", "succeed_immediately", "succeed_eventually"]


def c16(tier):
    t0 = time.time()
    rep = vlib.Reporter("C16")
    states = trans = 0
    # ---- (1) the cache: every query history in the bound, replayed on the real Cache
    plans = [("list", "lt3", "fail_immediately", 2, 2, 3), ("picky", "even", "fail_immediately", 2, 2, 3), ("branch", "ne5", "succeed_eventually", 3, 2, 2),
             ("until", "lt3", "fail_immediately", 3, 1, 3)]
    if tier == "thorough":
        plans += [(f, p, "fail_immediately", 3, 2, 3) for f in ("list", "branch", "until", "picky") for p in ("lt3", "even")]
    hist_total = 0
    hist_sample = None
    for (f, p, mode, maxlen, alpha, h) in plans:
        cfg = write_cfg("MC_ShrinkCache_%s_%s_%d%d%d" % (f, p, maxlen, alpha, h),
                        {"F": '"%s"' % f, "P": '"%s"' % p, "Mode": '"%s"' % mode, "MaxLen": maxlen, "Alpha": alpha, "H": h},
                        ["AnswersAreTrue", "StoredAreTrue", "Emit"])
        r = vlib.tlc("MC_ShrinkCache", cfg=cfg, workers=6, timeout=2400, xmx="12g", metaname="MC_ShrinkCache_%s_%s" % (f, p))
        if not r.ok:
            raise vlib.ToolError("MC_ShrinkCache failed (a violated invariant here is a flaw of the cache DESIGN): %s\n%s" % (r.error, r.out[-1200:]))
        states += r.distinct
        trans += r.generated
        hs = r.tagged("REPLAY")
        if not hs:
            raise vlib.ToolError("MC_ShrinkCache printed no history")
        obs = vlib.run_harness("shrink_ops", stdin_lines=[{"id": i, "op": "cache", "f": x["f"], "p": x["p"], "mode": x["mode"], "hist": [q["c"] for q in x["hist"]]}
                                                          for i, x in enumerate(hs)])
        for x, o in zip(hs, obs):
            hist_total += 1
            if "panic" in o:
                rep.violation("cache-panic:" + cj(x), {"history": x, "panic": o["panic"]}, "the cache panicked: %s" % o["panic"][:200])
                continue
            for k, (q, a) in enumerate(zip(x["hist"], o["answers"])):
                if cj(q["a"]) != cj(a["a"]):
                    rep.violation("cache:" + cj([x["f"], x["p"], x["mode"], [z["c"] for z in x["hist"]]]),
                                  {"fuzzer": x["f"], "property": x["p"], "mode": x["mode"], "queries": [z["c"] for z in x["hist"]], "at": k,
                                   "expected": q["a"], "observed": a["a"]},
                                  "query %d of the history: the cache answers %s, the true status is %s" % (k + 1, cj(a["a"]), cj(q["a"])))
                    break
                if q["ran"] and not a["ran"]:
                    pass     # answering from the cache more often than the model is fine as long as the answer is true
        hist_sample = hs[len(hs) // 2]
        log("[c16] cache %s/%s: %d histories" % (f, p, len(hs)))
    # ---- (2) simplify(): every first failing case in the bound + random longer ones
    cfg = write_cfg("MC_Shrink", {"MaxLen": 3, "Alpha": 3 if tier == "quick" else 4, "Fs": tla_set(FUZZERS), "Ps": tla_set(["never", "lt3", "even", "ne5"]),
                                 "Ms": tla_set(MODES if tier == "thorough" else ["fail_immediately", "succeed_eventually"]), "Adversarial": "FALSE"},
                    ["BestIsReal", "NeverLongerThanFirst", "Emit"])
    r = vlib.tlc("MC_Shrink", cfg=cfg, workers=6, timeout=3000, xmx="12g", metaname="MC_Shrink")
    if not r.ok:
        raise vlib.ToolError("MC_Shrink failed: %s\n%s" % (r.error, r.out[-1200:]))
    states += r.distinct
    trans += r.generated
    inits = r.tagged("REPLAY")
    rng = random.Random(vlib.seed() + 16)
    extra = []
    for _ in range(1500 if tier == "quick" else 30000):
        n = rng.choice([2, 3, 4, 6, 8, 9, 12, 17, 24])
        extra.append({"f": rng.choice(FUZZERS), "p": rng.choice(PROPS), "mode": rng.choice(MODES),
                      "init": [rng.choice([0, 1, 2, 3, 5, 8, 100, 200, 255, rng.randint(0, 255)]) for _ in range(n)]})
    cases = inits + extra
    obs = vlib.run_harness("shrink_ops", stdin_lines=[dict(c, id=i, op="simplify") for i, c in enumerate(cases)], timeout=3600)
    events = []
    for c, o in zip(cases, obs):
        if o.get("harness_error"):
            continue        # the random initial sequence was not a counterexample
        if "panic" in o:
            rep.violation("simplify-panic:" + cj(c), {"case": c, "panic": o["panic"]}, "simplify panicked: %s" % o["panic"][:200])
            continue
        events.append({"id": len(events), "f": c["f"], "p": c["p"], "mode": c["mode"], "init": c["init"], "final": o["final"], "value": o["value"],
                       "queries": o["queries"][:400], "_nq": len(o["queries"])})
    canaries = []
    for e in events:
        if e["final"] and len(canaries) < 2:
            c = copy.deepcopy(e); c["value"] = e["value"] + 1; c["canary"] = e["id"]; canaries.append(c)
        elif len(e["init"]) >= 2 and 2 <= len(canaries) < 4:
            c = copy.deepcopy(e); c["final"] = e["init"] + [0]; c["canary"] = e["id"]; canaries.append(c)
    strip = lambda e: {k: v for k, v in e.items() if not k.startswith("_")}
    res = vlib.validate_observations("Obs_Shrink", [strip(e) for e in events] + [strip(c) for c in canaries], "c16", chunk=300, parallel=8)
    fired = set(e["canary"] for e, _ in res["bad"] if "canary" in e)
    if len(fired) < len(canaries) or not canaries:
        raise vlib.ToolError("Obs_Shrink canary: %d of %d corrupted events rejected" % (len(fired), len(canaries)))
    byid = {e["id"]: e for e in events}
    for e, why in res["bad"]:
        if "canary" in e:
            continue
        ev = byid[e["id"]]
        rep.violation("simplify:" + cj([ev["f"], ev["p"], ev["mode"], ev["init"]]),
                      {"fuzzer": ev["f"], "property": ev["p"], "mode": ev["mode"], "first_failing_case": ev["init"], "reported": ev["final"], "value": ev["value"]}, why)
    # reproducibility: the same run twice gives the same report
    again = vlib.run_harness("shrink_ops", stdin_lines=[dict(c, id=i, op="simplify") for i, c in enumerate(cases[:400])])
    for c, o1, o2 in zip(cases[:400], obs, again):
        if cj([o1.get("final"), o1.get("value")]) != cj([o2.get("final"), o2.get("value")]):
            rep.violation("nondet:" + cj(c), {"case": c, "first": o1.get("final"), "second": o2.get("final")}, "shrinking the same failing case twice gives different reports")
    # verdict layer: the truth table of the three expectations (spec: TestPasses) vs PropertyTestResult / is_success is
    # exercised end to end by the acceptance projects in C17's runs; here only the spec side is stated.
    # ---- end to end: the authored project corpus/c16_project (the catalogue's fuzzers and properties written in Aiken, three
    # expectations each) run by the real test runner; each property test is one event for Obs_Shrink (WhyE2E)
    e2e_events, e2e_ok = [], 0
    runs = {}
    for seed in ([42, 7] if tier == "quick" else [42, 7, 1, 2, 3, 99, 12345]):
        for rep_i in (0, 1):
            o = vlib.run_harness("project_check", stdin_lines=[{"id": 0, "root": os.path.join(vlib.ROOT, "corpus", "c16_project"), "seed": seed, "max_success": 60}], timeout=3600)[0]
            if "results" not in o or len(o["results"]) < 58:
                raise vlib.ToolError("C16: the authored project did not run: %s" % json.dumps(o)[:600])
            runs[(seed, rep_i)] = {r["name"]: r for r in o["results"]}
        a, b = runs[(seed, 0)], runs[(seed, 1)]
        for n in a:
            va = (a[n]["success"], a[n]["iterations"], a[n]["cex_state"], a[n]["cex"], cj(a[n]["labels"]))
            vb = (b[n]["success"], b[n]["iterations"], b[n]["cex_state"], b[n]["cex"], cj(b[n]["labels"]))
            if va != vb:
                rep.violation("e2e-nondet:%s:%d" % (n, seed), {"test": n, "seed": seed, "first": a[n], "second": b[n]}, "the same property test with the same seed reports differently the second time")
        for n, r in a.items():
            if n.startswith("t_"):
                _, f, p, mode = n.split("_", 3)
                if r["cex_state"] == "error":
                    rep.violation("e2e-error:%s:%d" % (n, seed), {"test": n, "seed": seed, "observed": r}, "a well-behaved fuzzer was reported as failing")
                    continue
                e2e_events.append({"id": len(e2e_events), "e2e": True, "f": f, "p": p, "mode": mode, "found": r["cex_state"] == "some",
                                   "value": r["cex"] if r["cex"] is not None else 0, "success": r["success"], "iterations": r["iterations"], "max": 60, "_seed": seed, "_name": n})
        # fuzzers whose evaluation fails: the error is reported, with the number of samples actually drawn
        for n in ("x_broken_plain", "x_broken_once"):
            r = a[n]
            if r["cex_state"] != "error" or r["success"] or r["iterations"] != 1:
                rep.violation("e2e-broken:%s:%d" % (n, seed), {"test": n, "seed": seed, "observed": r},
                              "a fuzzer that fails on its first sample must be reported as an error after 1 iteration, observed %s after %d" % (r["cex_state"], r["iterations"]))
        d, t = a["x_odd_or_die"], a["x_odd_twin"]
        if t["cex_state"] == "some" and (d["cex_state"] != "error" or d["iterations"] != t["iterations"]):
            rep.violation("e2e-abort-count:%d" % seed, {"seed": seed, "aborting": d, "twin": t},
                          "a fuzzer that fails on the first even byte was reported after %d iterations; the twin test that fails on the same draw reports %d" % (d["iterations"], t["iterations"]))
    evs = [{k: v for k, v in e.items() if not k.startswith("_")} for e in e2e_events]
    canary = dict(evs[next(i for i, e in enumerate(evs) if e["found"] and e["f"] == "byte" and e["p"] == "lt3" and e["mode"] == "fail_immediately")])
    canary["value"] = 1          # 1 < 3 holds: not a counterexample
    canary["id"] = len(evs)
    r2 = vlib.validate_observations("Obs_Shrink", evs + [canary], "c16e2e", chunk=500, parallel=4)
    badids = set(e["id"] for e, _ in r2["bad"])
    if canary["id"] not in badids:
        raise vlib.ToolError("C16 end-to-end canary (a non-counterexample) was accepted")
    for e, why in r2["bad"]:
        if e["id"] == canary["id"]:
            continue
        ev = e2e_events[e["id"]]
        rep.violation("e2e:%s:%d" % (ev["_name"], ev["_seed"]), {"test": ev["_name"], "seed": ev["_seed"], "observed": runs[(ev["_seed"], 0)][ev["_name"]]}, "property test %s (seed %d): %s" % (ev["_name"], ev["_seed"], why))
    e2e_ok = r2["ok"]
    improved = sum(1 for e in events if e["final"] != e["init"])
    if len(events) < 500 or improved < 100:
        raise vlib.ToolError("C16 vacuity: %d shrink runs, %d improved" % (len(events), improved))
    cov = {"states": states + res["states"], "transitions": trans + res["generated"],
           "traces_validated_against_impl": hist_total + res["ok"] + e2e_ok, "end_to_end_property_tests": len(e2e_events),
           "samples": [{"cache_history": hist_sample}, {k: events[7][k] for k in ("f", "p", "mode", "init", "final", "value")}],
           "evaluations": hist_total + len(events), "distinct_nontrivial": improved + hist_total,
           "rule": "cache: EVERY history of H queries over all sequences in the bound (TLC, MC_ShrinkCache) replayed on the real Cache, every "
                   "answer compared with the true status; simplify: every first failing case in the bound (MC_Shrink) plus random longer ones, "
                   "the real Counterexample::simplify driven by closure fuzzers mirroring Shrink.tla, the run (query log, final choices, value) "
                   "validated by Obs_Shrink. non-trivial = shrinking accepted at least one candidate / a cache history",
           "exhaustive": True, "cache_histories": hist_total, "shrink_runs": len(events), "shrink_runs_that_improved": improved,
           "max_queries_in_a_run": max(e["_nq"] for e in events)}
    rc = rep.finish()
    vlib.write_evidence("C16", tier, "model_checking", cov,
                        ["fuzzers are abstract (closures mirroring Shrink.tla's catalogue; the mirror is cross-checked by Obs_Shrink on every query); "
                         "end to end (compiled Aiken fuzzers through PropertyTest::run) only the byte / pair / constant fuzzers of the catalogue are authored; labels are compared for reproducibility only",
                         "MC_Shrink with Adversarial = TRUE documents that the acceptance rule alone is not an order (DESIGN.md)"],
                        time.time() - t0, len(rep.violations))
    return rc


def c16_replay(path):
    print(open(path).read()[:3000])
    return 0
