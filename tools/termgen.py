"""Seeded generator of closed UPLC terms (JSON interchange form, DESIGN.md appendix B).
Type-directed so that evaluation goes deep (builtins get saturated, branches are taken), with a
controlled rate of deliberately wrong shapes (ill-typed arguments, over/under application, missing
forces, case on constants) so that failure paths are exercised as well."""
import random

INT, BOOL, BS, STR, UNIT, DATA, LINT, LDATA, PAIR = "int", "bool", "bs", "str", "unit", "data", "lint", "ldata", "pair"
BASE = [INT, BOOL, BS, STR, UNIT, DATA, LINT, LDATA, PAIR]

TY = {
    INT: {"t": "int"}, BOOL: {"t": "bool"}, BS: {"t": "bs"}, STR: {"t": "str"}, UNIT: {"t": "unit"},
    DATA: {"t": "data"}, LINT: {"t": "list", "e": {"t": "int"}}, LDATA: {"t": "list", "e": {"t": "data"}},
    PAIR: {"t": "pair", "a": {"t": "int"}, "b": {"t": "bool"}},
}

# name, forces, argument types, result type
BUILTINS = [
    ("addInteger", 0, [INT, INT], INT), ("subtractInteger", 0, [INT, INT], INT),
    ("multiplyInteger", 0, [INT, INT], INT), ("divideInteger", 0, [INT, INT], INT),
    ("quotientInteger", 0, [INT, INT], INT), ("remainderInteger", 0, [INT, INT], INT),
    ("modInteger", 0, [INT, INT], INT), ("equalsInteger", 0, [INT, INT], BOOL),
    ("lessThanInteger", 0, [INT, INT], BOOL), ("lessThanEqualsInteger", 0, [INT, INT], BOOL),
    ("appendByteString", 0, [BS, BS], BS), ("consByteString", 0, [INT, BS], BS),
    ("sliceByteString", 0, [INT, INT, BS], BS), ("lengthOfByteString", 0, [BS], INT),
    ("indexByteString", 0, [BS, INT], INT), ("equalsByteString", 0, [BS, BS], BOOL),
    ("lessThanByteString", 0, [BS, BS], BOOL), ("lessThanEqualsByteString", 0, [BS, BS], BOOL),
    ("appendString", 0, [STR, STR], STR), ("equalsString", 0, [STR, STR], BOOL),
    ("encodeUtf8", 0, [STR], BS), ("decodeUtf8", 0, [BS], STR),
    ("fstPair", 2, [PAIR], INT), ("sndPair", 2, [PAIR], BOOL),
    ("headList", 1, [LINT], INT), ("tailList", 1, [LINT], LINT), ("nullList", 1, [LINT], BOOL),
    ("headList", 1, [LDATA], DATA), ("tailList", 1, [LDATA], LDATA), ("nullList", 1, [LDATA], BOOL),
    ("mkCons", 1, [INT, LINT], LINT), ("mkCons", 1, [DATA, LDATA], LDATA),
    ("dropList", 1, [INT, LINT], LINT),
    ("constrData", 0, [INT, LDATA], DATA), ("listData", 0, [LDATA], DATA), ("iData", 0, [INT], DATA),
    ("bData", 0, [BS], DATA), ("unListData", 0, [DATA], LDATA), ("unIData", 0, [DATA], INT),
    ("unBData", 0, [DATA], BS), ("equalsData", 0, [DATA, DATA], BOOL), ("mkNilData", 0, [UNIT], LDATA),
    ("integerToByteString", 0, [BOOL, INT, INT], BS), ("byteStringToInteger", 0, [BOOL, BS], INT),
    ("andByteString", 0, [BOOL, BS, BS], BS), ("orByteString", 0, [BOOL, BS, BS], BS),
    ("xorByteString", 0, [BOOL, BS, BS], BS), ("complementByteString", 0, [BS], BS),
    ("readBit", 0, [BS, INT], BOOL), ("writeBits", 0, [BS, LINT, BOOL], BS),
    ("replicateByte", 0, [INT, INT], BS), ("shiftByteString", 0, [BS, INT], BS),
    ("rotateByteString", 0, [BS, INT], BS), ("countSetBits", 0, [BS], INT), ("findFirstSetBit", 0, [BS], INT),
]
BY_RESULT = {}
for b in BUILTINS:
    BY_RESULT.setdefault(b[3], []).append(b)


def con(c):
    return {"k": "con", "c": c}


def app(f, *args):
    for a in args:
        f = {"k": "app", "f": f, "a": a}
    return f


def force(t, n=1):
    for _ in range(n):
        t = {"k": "force", "b": t}
    return t


def bi(name, forces=0):
    return force({"k": "bi", "f": name}, forces)


class Gen:
    def __init__(self, rng, wrong=0.04, sem="E"):
        self.r = rng
        self.wrong = wrong
        self.sem = sem

    def small_int(self):
        r = self.r
        return r.choice([0, 1, 2, 3, 7, 8, 9, 255, 256, -1, -2, -8, -256, r.randint(-40, 40), r.randint(0, 20)])

    def data(self, d=2):
        r = self.r
        k = r.choice("IBLCM" if d > 0 else "IB")
        if k == "I":
            return {"d": "I", "v": self.small_int()}
        if k == "B":
            return {"d": "B", "v": [r.randint(0, 255) for _ in range(r.randint(0, 3))]}
        if k == "L":
            return {"d": "L", "v": [self.data(d - 1) for _ in range(r.randint(0, 2))]}
        if k == "M":
            return {"d": "M", "v": [[self.data(d - 1), self.data(d - 1)] for _ in range(r.randint(0, 2))]}
        return {"d": "C", "tag": r.choice([0, 1, 2, 7, 130]), "fs": [self.data(d - 1) for _ in range(r.randint(0, 2))]}

    def const(self, ty):
        r = self.r
        if ty == INT:
            return {"t": "int", "v": self.small_int()}
        if ty == BOOL:
            return {"t": "bool", "v": r.random() < 0.5}
        if ty == BS:
            return {"t": "bs", "v": [r.choice([0, 1, 127, 128, 255, r.randint(0, 255)]) for _ in range(r.choice([0, 1, 2, 8, 9]))]}
        if ty == STR:
            return {"t": "str", "v": [r.choice([97, 98, 233, 0x20AC, 0x1F600, 10, 34]) for _ in range(r.randint(0, 3))]}
        if ty == UNIT:
            return {"t": "unit"}
        if ty == DATA:
            return {"t": "data", "v": self.data()}
        if ty == LINT:
            return {"t": "list", "et": TY[INT], "v": [self.const(INT) for _ in range(r.randint(0, 3))]}
        if ty == LDATA:
            return {"t": "list", "et": TY[DATA], "v": [self.const(DATA) for _ in range(r.randint(0, 2))]}
        if ty == PAIR:
            return {"t": "pair", "ft": TY[INT], "st": TY[BOOL], "f": self.const(INT), "s": self.const(BOOL)}
        raise ValueError(ty)

    def gen(self, ty, env, fuel):
        """env: list of types of bound variables, innermost LAST (de Bruijn index 1 = last)."""
        r = self.r
        if r.random() < self.wrong:
            return self.wrong_term(env, fuel)
        cands = [i for i, t in enumerate(env) if t == ty]
        if fuel <= 0:
            if cands and r.random() < 0.6:
                i = r.choice(cands)
                return {"k": "var", "i": len(env) - i}
            return con(self.const(ty)) if ty in BASE else self.leaf_fn(ty, env)
        c = r.random()
        if isinstance(ty, tuple):
            return self.gen_fn(ty, env, fuel)
        if c < 0.10 and cands:
            i = r.choice(cands)
            return {"k": "var", "i": len(env) - i}
        if c < 0.18:
            return con(self.const(ty))
        if c < 0.55 and ty in BY_RESULT:
            name, forces, args, _ = r.choice(BY_RESULT[ty])
            f = fuel - 1
            return app(bi(name, forces), *[self.gen(a, env, f // max(1, len(args))) for a in args])
        if c < 0.68:   # beta redex
            xt = r.choice(BASE + [("fn", INT, INT), ("delay", ty)])
            body = self.gen(ty, env + [xt], fuel // 2)
            return app({"k": "lam", "b": body}, self.gen(xt, env, fuel // 2))
        if c < 0.78:   # lazy if
            th = {"k": "delay", "b": self.gen(ty, env, fuel // 3)}
            el = {"k": "delay", "b": self.gen(ty, env, fuel // 3)}
            return force(app(bi("ifThenElse", 1), self.gen(BOOL, env, fuel // 3), th, el))
        if c < 0.83:   # strict if
            return app(bi("ifThenElse", 1), self.gen(BOOL, env, fuel // 3), self.gen(ty, env, fuel // 3),
                       self.gen(ty, env, fuel // 3))
        if c < 0.88:
            return force({"k": "delay", "b": self.gen(ty, env, fuel - 1)})
        if c < 0.92:
            return app(bi("trace", 1), self.gen(STR, env, fuel // 3), self.gen(ty, env, fuel // 2))
        if c < 0.97:   # constr / case
            nb = r.randint(1, 3)
            tag = r.randint(0, nb - 1)
            ftys = [r.choice(BASE) for _ in range(r.randint(0, 2))]
            fields = [self.gen(t, env, fuel // 4) for t in ftys]
            branches = []
            for b in range(nb):
                if b == tag:
                    e2 = list(env)
                    body_env = e2 + ftys
                    body = self.gen(ty, body_env, fuel // 3)
                    for _ in ftys:
                        body = {"k": "lam", "b": body}
                    branches.append(body)
                else:
                    branches.append(self.gen(ty, env, 1) if r.random() < 0.7 else {"k": "err"})
            return {"k": "case", "s": {"k": "constr", "tag": tag, "fs": fields}, "bs": branches}
        if c < 0.985 and self.sem == "E":   # case on a constant
            ct = r.choice([BOOL, UNIT, INT, LINT, PAIR])
            scrut = self.gen(ct, env, fuel // 3)
            if ct == BOOL:
                brs = [self.gen(ty, env, fuel // 3) for _ in range(r.choice([1, 2, 2, 3]))]
            elif ct == UNIT:
                brs = [self.gen(ty, env, fuel // 3) for _ in range(r.choice([1, 1, 2]))]
            elif ct == INT:
                brs = [self.gen(ty, env, fuel // 4) for _ in range(r.randint(1, 3))]
            elif ct == LINT:
                b0 = {"k": "lam", "b": {"k": "lam", "b": self.gen(ty, env + [INT, LINT], fuel // 3)}}
                brs = [b0] + ([self.gen(ty, env, fuel // 3)] if r.random() < 0.8 else [])
            else:
                brs = [{"k": "lam", "b": {"k": "lam", "b": self.gen(ty, env + [INT, BOOL], fuel // 3)}}]
            return {"k": "case", "s": scrut, "bs": brs}
        return con(self.const(ty))

    def leaf_fn(self, ty, env):
        return self.gen_fn(ty, env, 0)

    def gen_fn(self, ty, env, fuel):
        if ty[0] == "fn":
            return {"k": "lam", "b": self.gen(ty[2], env + [ty[1]], max(0, fuel - 1))}
        return {"k": "delay", "b": self.gen(ty[1], env, max(0, fuel - 1))}

    def wrong_term(self, env, fuel):
        r = self.r
        c = r.random()
        if c < 0.15:
            return {"k": "err"}
        if c < 0.35:  # wrongly typed constant
            return con(self.const(r.choice(BASE)))
        if c < 0.5:   # partial builtin application (a value)
            name, forces, args, _ = r.choice(BUILTINS)
            k = r.randint(0, max(0, len(args) - 1))
            return app(bi(name, r.choice([forces, forces, max(0, forces - 1), forces + 1])),
                       *[self.gen(a, env, fuel // 3) for a in args[:k]])
        if c < 0.6:   # over-application
            name, forces, args, _ = r.choice(BUILTINS)
            return app(bi(name, forces), *([self.gen(a, env, fuel // 4) for a in args] + [con(self.const(INT))]))
        if c < 0.7:
            return force(con(self.const(r.choice(BASE))))
        if c < 0.8:
            return app(con(self.const(INT)), con(self.const(INT)))
        if c < 0.9:
            return {"k": "lam", "b": self.gen(r.choice(BASE), env + [r.choice(BASE)], fuel // 2)}
        return {"k": "constr", "tag": r.randint(0, 3), "fs": [self.gen(r.choice(BASE), env, fuel // 3) for _ in range(r.randint(0, 3))]}


def random_terms(seed, n, fuel=(4, 40), wrong=0.04, sem="E"):
    rng = random.Random(seed)
    g = Gen(rng, wrong, sem)
    out = []
    for _ in range(n):
        ty = rng.choice(BASE + [("fn", INT, INT), ("delay", BOOL)])
        out.append(g.gen(ty, [], rng.randint(*fuel)))
    return out
