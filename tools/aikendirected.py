"""Directed (systematically enumerated) families of Aiken modules, built from the same AST as aikengen.py so
that Aiken.tla (through Obs_Aiken) judges every run.  They complement the random campaign with shapes that
need several things at once: a pattern form AND a list length, a cast AND an ill-formed datum, a binding used
only by a trace, one constant in first position three times, a Data parameter reached through a function
value.  Each module carries several entry functions:  m["entries"] = [(name, sig, [args...])]."""
import itertools
import aikengen as ag
from aikengen import INT, BOOL, BYTES, DATA, STRING, TList, TTuple, TPair, TAdt, TOption, TFn

V = lambda x: {"k": "var", "x": x}
I = lambda n: {"k": "int", "n": n} if n >= 0 else {"k": "neg", "e": {"k": "int", "n": -n}}
call = lambda f, *a: {"k": "call", "f": f, "args": list(a)}
binop = lambda op, l, r: {"k": "binop", "op": op, "l": l, "r": r}
DI = lambda n: {"d": "I", "v": n}
DC = lambda tag, *fs: {"d": "C", "tag": tag, "fs": list(fs)}
DL = lambda *xs: {"d": "L", "v": list(xs)}
DB = lambda *bs: {"d": "B", "v": list(bs)}


def todata(ty, e, implicit=False):
    n = {"k": "todata", "ty": ty, "e": e}
    if implicit:
        n["implicit"] = True
    return n


class Mod:
    """a module with the library and several entry functions"""

    def __init__(self, extra=None):
        import random
        self.g = ag.G(random.Random(0))
        self.g.library()
        self.entries = []
        # helpers used by the families
        self.g.add_fn("count_true", ["bs"], [TList(BOOL)], INT,
                      {"k": "when", "s": V("bs"), "cs": [
                          {"p": {"p": "list", "ps": [], "tail": "none"}, "b": I(0)},
                          {"p": {"p": "list", "ps": [{"p": "var", "x": "h"}], "tail": "var", "x": "t"},
                           "b": binop("+", {"k": "if", "c": V("h"), "t": I(1), "e": I(0)}, call("count_true", V("t")))}]})
        self.g.add_fn("color_code", ["c"], [TAdt("Color")], INT,
                      {"k": "when", "s": V("c"), "cs": [
                          {"p": {"p": "con", "ty": "Color", "i": 0, "args": []}, "b": I(10)},
                          {"p": {"p": "con", "ty": "Color", "i": 1, "args": []}, "b": I(20)},
                          {"p": {"p": "con", "ty": "Color", "i": 2, "args": []}, "b": I(30)}]})
        self.g.add_fn("via_param", ["f", "x"], [TFn([DATA], INT), INT], INT,
                      {"k": "apply", "f": V("f"), "args": [todata(INT, V("x"), implicit=True)]})

    def entry(self, sig, ret, body, args):
        name = "e%d" % len(self.entries)
        ps = ["arg%d" % i for i in range(len(sig))]
        self.g.add_fn(name, ps, sig, DATA, todata(ret, body))
        self.entries.append((name, sig, args))
        return name

    def done(self, family):
        return {"g": self.g, "src": ag.render_module(self.g), "spec": ag.spec_module(self.g), "entries": self.entries, "family": family,
                "sig": self.entries[0][1], "ret": DATA, "args": self.entries[0][2]}


def chunks(xs, n):
    for i in range(0, len(xs), n):
        yield xs[i:i + n]


def int_list(*ns):
    return DL(*[DI(n) for n in ns])


# ---------------------------------------------------------------- 1. expect <list pattern> = xs
def family_expect_list():
    lists = [int_list(), int_list(1), int_list(1, 2), int_list(1, 2, 3), int_list(1, 2, 3, 4), int_list(5, 6, 7, 8, 9)]
    shapes = []
    for k in (1, 2, 3):
        for elems in itertools.product(["var", "discard"], repeat=k):
            for tail in ("none", "discard", "var"):
                shapes.append((elems, tail))
    shapes.append(((), "none"))
    mods = []
    for group in chunks(shapes, 11):
        m = Mod()
        for elems, tail in group:
            names = []
            ps = []
            for i, e in enumerate(elems):
                if e == "var":
                    names.append("q%d" % i)
                    ps.append({"p": "var", "x": "q%d" % i})
                else:
                    ps.append({"p": "discard"})
            p = {"p": "list", "ps": ps, "tail": tail}
            body = I(100)
            for n in names:
                body = binop("+", body, V(n))
            if tail == "var":
                p["x"] = "rest"
                body = binop("+", body, call("len_list", V("rest"), I(0)))
            m.entry([TList(INT)], INT, {"k": "expect", "p": p, "ty": TList(INT), "e": V("arg0"), "body": body}, [[l] for l in lists])
        mods.append(m.done("expect-list"))
    return mods


# ---------------------------------------------------------------- 2. expect x: T = (d: Data), every T, well- and ill-formed d
DATA_POOL = [DI(0), DI(5), DI(-3), DB(), DB(1, 2), DL(), int_list(1), int_list(1, 2), DL(DC(0), DC(1)), DL(DC(1, DI(42))), DL(DC(7)), DL(DC(0), DI(1)),
             DC(0), DC(1), DC(2), DC(7), DC(1, DI(42)), DC(0, DI(1)), DC(0, DI(1), DC(1)), DC(0, DI(1), DI(2)), DC(1, DI(1), DI(2)), DC(0, DI(1), DI(2), DI(3)),
             DC(0, DB(1), DC(1), DL()), DC(0, DB(1), DC(0, DI(4)), int_list(7, 8)), DC(0, DC(0, DI(1))), DC(1, DC(1)), {"d": "M", "v": []},
             {"d": "M", "v": [[DI(1), DI(2)]]}, DL(DI(1), DC(1)), DL(DI(1), DC(1), DI(3)), DL(DI(1), DC(2)), DL(DI(1), DB(2)), DC(3), DC(121)]


def family_cast():
    X = V("x")
    uses = [
        (INT, INT, binop("+", X, I(1))),
        (BOOL, INT, {"k": "if", "c": X, "t": I(1), "e": I(0)}),
        (BYTES, BOOL, binop("==", X, {"k": "bytes", "bs": [1, 2]})),
        (TList(INT), INT, call("sum_list", X)),
        (TList(BOOL), INT, call("count_true", X)),
        (TOption(INT), INT, call("or_else", X, I(-1))),
        (TOption(BOOL), INT, {"k": "when", "s": X, "cs": [
            {"p": {"p": "con", "ty": "Option", "i": 0, "args": [{"p": "var", "x": "b"}]}, "b": {"k": "if", "c": V("b"), "t": I(2), "e": I(1)}},
            {"p": {"p": "con", "ty": "Option", "i": 1, "args": []}, "b": I(0)}]}),
        (TTuple(INT, BOOL), INT, {"k": "tupidx", "e": X, "i": 1, "ty": TTuple(INT, BOOL)}),
        (TTuple(INT, BOOL), BOOL, {"k": "tupidx", "e": X, "i": 2, "ty": TTuple(INT, BOOL)}),
        (TPair(INT, BYTES), INT, {"k": "tupidx", "e": X, "i": 1, "ty": TPair(INT, BYTES)}),
        (TAdt("Color"), INT, call("color_code", X)),
        (TAdt("Point"), INT, binop("+", {"k": "field", "e": X, "i": 1, "ty": TAdt("Point")}, {"k": "field", "e": X, "i": 2, "ty": TAdt("Point")})),
        (TAdt("Shape"), INT, {"k": "when", "s": X, "cs": [
            {"p": {"p": "con", "ty": "Shape", "i": 0, "args": [{"p": "var", "x": "r"}]}, "b": V("r")},
            {"p": {"p": "con", "ty": "Shape", "i": 1, "args": [{"p": "var", "x": "w"}, {"p": "var", "x": "h"}]}, "b": binop("*", V("w"), V("h"))},
            {"p": {"p": "con", "ty": "Shape", "i": 2, "args": []}, "b": I(0)}]}),
        (TAdt("Acct"), INT, call("sum_list", {"k": "field", "e": X, "i": 3, "ty": TAdt("Acct")})),
        (TAdt("Box", TOption(BOOL)), INT, {"k": "letp", "p": {"p": "con", "ty": "Box", "i": 0, "args": [{"p": "var", "x": "o"}]}, "ty": TAdt("Box", TOption(BOOL)),
                                           "e": X, "body": {"k": "when", "s": V("o"), "cs": [
                                               {"p": {"p": "con", "ty": "Option", "i": 0, "args": [{"p": "var", "x": "b"}]}, "b": {"k": "if", "c": V("b"), "t": I(2), "e": I(1)}},
                                               {"p": {"p": "con", "ty": "Option", "i": 1, "args": []}, "b": I(0)}]}}),
        (ag.TAdt("Rec5"), INT, {"k": "field", "e": X, "i": 1, "ty": ag.TAdt("Rec5")}),
        (ag.TAdt("RecL"), INT, binop("+", {"k": "field", "e": X, "i": 1, "ty": ag.TAdt("RecL")}, call("or_else", {"k": "field", "e": X, "i": 3, "ty": ag.TAdt("RecL")}, I(0)))),
    ]
    pool5 = DATA_POOL + [DL(DI(1), DB(2), DC(1)), DL(DI(1), DB(2), DC(0, DI(4))), DL(DI(1), DB(2)), DL(DI(1), DB(2), DC(1), DI(0)), DL(DB(2), DI(1), DC(1)),
                         DC(0, DI(1), DB(2), DC(1)), {"d": "C", "tag": 5, "fs": [DI(1), DC(1)]}, {"d": "C", "tag": 5, "fs": [DI(1), DC(2)]}, {"d": "C", "tag": 0, "fs": [DI(1), DC(1)]}]
    mods = []
    for group in chunks(uses, 9):
        m = Mod()
        for ty, ret, use in group:
            m.entry([DATA], ret, {"k": "cast", "x": "x", "ty": ty, "e": V("arg0"), "body": use}, [[d] for d in pool5])
        mods.append(m.done("cast"))
    return mods


# ---------------------------------------------------------------- 3. a binding that only a trace mentions
def family_trace_only():
    m = Mod()
    ints = [[DI(0)], [DI(1)], [DI(-1)], [DI(5)]]
    rhss = [binop("/", I(10), V("arg0")), binop("%", I(10), V("arg0")), call("guard_pos", V("arg0")),
            {"k": "cast", "x": "c", "ty": BOOL, "e": todata(INT, V("arg0")), "body": {"k": "if", "c": V("c"), "t": I(1), "e": I(0)}},
            {"k": "expect", "p": {"p": "list", "ps": [{"p": "var", "x": "h"}], "tail": "none"}, "ty": TList(INT),
             "e": {"k": "if", "c": binop(">", V("arg0"), I(0)), "t": {"k": "list", "es": [V("arg0")]}, "e": {"k": "list", "es": []}}, "body": V("h")}]
    for rhs in rhss:
        # let v = rhs   trace @"v": v   7
        m.entry([INT], INT, {"k": "let", "x": "v", "ty": INT, "e": rhs, "body": {"k": "trace", "msg": "v", "targs": ["v"], "body": I(7)}}, ints)
        # two traces, the binding used by the second only, inside a branch
        m.entry([INT], INT, {"k": "let", "x": "v", "ty": INT, "e": rhs,
                             "body": {"k": "trace", "msg": "start", "body": {"k": "if", "c": binop(">", V("arg0"), I(100)), "t": I(1),
                                                                           "e": {"k": "trace", "msg": "v is", "targs": ["v", "arg0"], "body": I(2)}}}}, ints)
        # control: the binding is also used by the result
        m.entry([INT], INT, {"k": "let", "x": "v", "ty": INT, "e": rhs, "body": {"k": "trace", "msg": "v", "targs": ["v"], "body": binop("+", V("v"), I(1))}}, ints)
    return [m.done("trace-only")]


# ---------------------------------------------------------------- 4. one constant, three times, in first / second position
def family_repeated_constant():
    grid = [[DI(a), DI(b), DI(c)] for a, b, c in [(1, 2, 3), (0, 5, 7), (-2, 13, 1), (7, 7, 7), (3, 0, 2), (10, 10, 1), (-1, -1, -1), (4, 9, 11)]]
    mods = []
    specs = []
    for c in (10, 0, -3, 1):
        for op in ("-", "/", "%"):
            for comb in ("+", "*"):
                specs.append(("first", c, op, comb))
                specs.append(("second", c, op, comb))
        for op in ("<", "<=", ">", ">="):
            specs.append(("first-cmp", c, op, "&&"))
            specs.append(("second-cmp", c, op, "||"))
    for group in chunks(specs, 12):
        m = Mod()
        for where, c, op, comb in group:
            A = [V("arg0"), V("arg1"), V("arg2")]
            if where.startswith("first"):
                ts = [binop(op, I(c), a) for a in A]
            else:
                ts = [binop(op, a, I(c)) for a in A]
            body = binop(comb, binop(comb, ts[0], ts[1]), ts[2])
            m.entry([INT, INT, INT], BOOL if "cmp" in where else INT, body, grid)
        mods.append(m.done("repeated-constant"))
    # byte-array builtins (all curried by the optimiser when partially applied to the same constant several times)
    bcall = lambda f, *a: {"k": "bcall", "f": f, "args": list(a)}
    B = lambda *bs: {"k": "bytes", "bs": list(bs)}
    bgrid = [[DB(*a), DB(*b), DB(*c)] for a, b, c in [((), (1,), (1, 2)), ((1, 2), (1, 2), (1, 3)), ((255,), (0,), (1, 2, 3)), ((1,), (1, 2, 3), ()), ((2,), (1, 255), (1, 2))]]
    m = Mod()
    A = [V("arg0"), V("arg1"), V("arg2")]
    for cst in (B(1, 2), B()):
        for f in ("less_than_bytearray", "less_than_equals_bytearray"):
            for first in (True, False):
                ts = [bcall(f, cst, a) if first else bcall(f, a, cst) for a in A]
                m.entry([BYTES, BYTES, BYTES], BOOL, binop("&&", binop("||", ts[0], ts[1]), binop("||", ts[1], ts[2])), bgrid)
        for first in (True, False):
            ts = [bcall("append_bytearray", cst, a) if first else bcall("append_bytearray", a, cst) for a in A]
            m.entry([BYTES, BYTES, BYTES], BYTES, bcall("append_bytearray", bcall("append_bytearray", ts[0], ts[1]), ts[2]), bgrid)
    mods.append(m.done("repeated-constant"))
    m = Mod()
    # index: the same byte array / the same index three times; cons: the same byte three times; slice: the same start three times
    igrid = [[DI(a), DI(b), DI(c)] for a, b, c in [(0, 1, 2), (2, 2, 2), (0, 3, 1), (-1, 0, 0), (1, 1, 0)]]
    AI = [V("arg0"), V("arg1"), V("arg2")]
    ts = [bcall("index_bytearray", B(10, 20, 30), a) for a in AI]
    m.entry([INT, INT, INT], INT, binop("+", binop("+", ts[0], ts[1]), ts[2]), igrid)
    ts = [bcall("index_bytearray", a, I(1)) for a in A]
    m.entry([BYTES, BYTES, BYTES], INT, binop("+", binop("+", ts[0], ts[1]), ts[2]), bgrid)
    ts = [bcall("cons_bytearray", I(65), a) for a in A]
    m.entry([BYTES, BYTES, BYTES], BYTES, bcall("append_bytearray", bcall("append_bytearray", ts[0], ts[1]), ts[2]), bgrid)
    ts = [bcall("cons_bytearray", a, B(7)) for a in AI]
    m.entry([INT, INT, INT], BYTES, bcall("append_bytearray", bcall("append_bytearray", ts[0], ts[1]), ts[2]), igrid + [[DI(255), DI(256), DI(0)]])
    ts = [bcall("slice_bytearray", I(1), a, B(1, 2, 3, 4)) for a in AI]
    m.entry([INT, INT, INT], BYTES, bcall("append_bytearray", bcall("append_bytearray", ts[0], ts[1]), ts[2]), igrid)
    ts = [bcall("slice_bytearray", a, I(2), B(1, 2, 3, 4)) for a in AI]
    m.entry([INT, INT, INT], BYTES, bcall("append_bytearray", bcall("append_bytearray", ts[0], ts[1]), ts[2]), igrid)
    # and / or / xor: three arguments (padding flag, bytes, bytes); the same constant bytes three times, the flag not a constant
    for f in ("and_bytearray", "or_bytearray", "xor_bytearray"):
        for pos in (1, 2):
            ts = []
            for a in A:
                flag = binop("==", bcall("length_of_bytearray", a), I(1))
                ts.append(bcall(f, flag, B(240, 15, 1), a) if pos == 1 else bcall(f, flag, a, B(240, 15, 1)))
            m.entry([BYTES, BYTES, BYTES], BYTES, bcall("append_bytearray", bcall("append_bytearray", ts[0], ts[1]), ts[2]), bgrid)
    ts = [bcall("length_of_bytearray", bcall("append_bytearray", B(9), a)) for a in A]
    m.entry([BYTES, BYTES, BYTES], INT, binop("*", binop("*", ts[0], ts[1]), ts[2]), bgrid)
    mods.append(m.done("repeated-constant"))
    return mods


# ---------------------------------------------------------------- 5. a Data parameter reached through a function value
def family_data_param():
    m = Mod()
    ints = [[DI(0)], [DI(5)], [DI(-4)]]
    lists = [[int_list()], [int_list(1, 2, 3)]]
    bools = [[DC(0)], [DC(1)]]
    fn_int = {"k": "fn", "ps": ["d"], "pts": [DATA], "ret": INT, "body": {"k": "cast", "x": "n", "ty": INT, "e": V("d"), "body": binop("+", V("n"), I(1))}}
    fn_list = {"k": "fn", "ps": ["d"], "pts": [DATA], "ret": INT, "body": {"k": "cast", "x": "xs", "ty": TList(INT), "e": V("d"), "body": call("sum_list", V("xs"))}}
    fn_bool = {"k": "fn", "ps": ["d"], "pts": [DATA], "ret": INT, "body": {"k": "cast", "x": "b", "ty": BOOL, "e": V("d"), "body": {"k": "if", "c": V("b"), "t": I(1), "e": I(0)}}}
    fn_wrong = {"k": "fn", "ps": ["d"], "pts": [DATA], "ret": INT, "body": {"k": "cast", "x": "b", "ty": BYTES, "e": V("d"), "body": I(3)}}
    # local lambda, argument upcast implicitly
    m.entry([INT], INT, {"k": "let", "x": "f", "ty": TFn([DATA], INT), "e": fn_int, "body": {"k": "apply", "f": V("f"), "args": [todata(INT, V("arg0"), True)]}}, ints)
    m.entry([TList(INT)], INT, {"k": "let", "x": "f", "ty": TFn([DATA], INT), "e": fn_list, "body": {"k": "apply", "f": V("f"), "args": [todata(TList(INT), V("arg0"), True)]}}, lists)
    m.entry([BOOL], INT, {"k": "let", "x": "f", "ty": TFn([DATA], INT), "e": fn_bool, "body": {"k": "apply", "f": V("f"), "args": [todata(BOOL, V("arg0"), True)]}}, bools)
    # the cast inside must still fail on the wrong shape
    m.entry([INT], INT, {"k": "let", "x": "f", "ty": TFn([DATA], INT), "e": fn_wrong, "body": {"k": "apply", "f": V("f"), "args": [todata(INT, V("arg0"), True)]}}, ints)
    # through a parameter of function type
    m.entry([INT], INT, call("via_param", fn_int, V("arg0")), ints)
    # immediately applied lambda
    m.entry([INT], INT, {"k": "apply", "f": fn_int, "args": [todata(INT, binop("*", V("arg0"), I(2)), True)]}, ints)
    # a tuple / a constructor passed where Data is expected
    fn_tup = {"k": "fn", "ps": ["d"], "pts": [DATA], "ret": INT, "body": {"k": "cast", "x": "t", "ty": TTuple(INT, BOOL), "e": V("d"),
                                                                           "body": {"k": "tupidx", "e": V("t"), "i": 1, "ty": TTuple(INT, BOOL)}}}
    m.entry([INT], INT, {"k": "let", "x": "f", "ty": TFn([DATA], INT), "e": fn_tup,
                         "body": {"k": "apply", "f": V("f"), "args": [todata(TTuple(INT, BOOL), {"k": "tuple", "es": [V("arg0"), {"k": "bool", "b": True}]}, True)]}}, ints)
    return [m.done("data-param")]


# ---------------------------------------------------------------- 6. recursive functions: parameters that stay, swap, are shadowed, are functions
def family_recursion():
    m = Mod()
    g = m.g
    IF = lambda c, t, e: {"k": "if", "c": c, "t": t, "e": e}
    le0 = lambda x: binop("<=", V(x), I(0))
    dec = lambda x: binop("-", V(x), I(1))
    g.add_fn("swap_rec", ["a", "b", "n"], [INT, INT, INT], INT, IF(le0("n"), binop("-", V("a"), V("b")), call("swap_rec", V("b"), V("a"), dec("n"))))
    g.add_fn("keep_rec", ["k", "n", "acc"], [INT, INT, INT], INT, IF(le0("n"), V("acc"), call("keep_rec", V("k"), dec("n"), binop("+", V("acc"), V("k")))))
    g.add_fn("shadow_rec", ["k", "n"], [INT, INT], INT,
             IF(le0("n"), V("k"), {"k": "let", "x": "k", "ty": INT, "e": binop("+", V("k"), I(1)), "body": call("shadow_rec", V("k"), dec("n"))}))
    g.add_fn("hof_rec", ["f", "n", "x"], [TFn([INT], INT), INT, INT], INT,
             IF(le0("n"), V("x"), call("hof_rec", V("f"), dec("n"), {"k": "apply", "f": V("f"), "args": [V("x")]})))
    g.add_fn("two_static", ["a", "b", "n"], [INT, INT, INT], INT, IF(le0("n"), binop("+", binop("*", V("a"), I(10)), V("b")), call("two_static", V("a"), V("b"), dec("n"))))
    g.add_fn("part_static", ["a", "b", "n"], [INT, INT, INT], INT,
             IF(le0("n"), binop("+", binop("*", V("a"), I(10)), V("b")), call("part_static", V("a"), binop("+", V("b"), I(1)), dec("n"))))
    g.add_fn("rot_rec", ["a", "b", "c", "n"], [INT, INT, INT, INT], INT,
             IF(le0("n"), binop("+", binop("*", V("a"), I(100)), binop("+", binop("*", V("b"), I(10)), V("c"))), call("rot_rec", V("b"), V("c"), V("a"), dec("n"))))
    g.add_fn("weighted", ["xs", "k"], [TList(INT), INT], INT,
             {"k": "when", "s": V("xs"), "cs": [
                 {"p": {"p": "list", "ps": [], "tail": "none"}, "b": I(0)},
                 {"p": {"p": "list", "ps": [{"p": "var", "x": "h"}], "tail": "var", "x": "t"},
                  "b": binop("+", binop("*", V("h"), V("k")), call("weighted", V("t"), V("k")))}]})
    g.add_fn("const_first", ["k", "xs"], [INT, TList(INT)], INT,
             {"k": "when", "s": V("xs"), "cs": [
                 {"p": {"p": "list", "ps": [], "tail": "none"}, "b": V("k")},
                 {"p": {"p": "list", "ps": [{"p": "discard"}], "tail": "var", "x": "t"}, "b": call("const_first", binop("+", V("k"), I(0)), V("t"))}]})
    grid3 = [[DI(a), DI(b), DI(n)] for a, b, n in [(1, 2, 0), (1, 2, 1), (1, 2, 2), (5, 3, 3), (7, 7, 4), (-2, 9, 5)]]
    A, B, N = V("arg0"), V("arg1"), V("arg2")
    m.entry([INT, INT, INT], INT, call("swap_rec", A, B, N), grid3)
    m.entry([INT, INT, INT], INT, call("swap_rec", B, A, N), grid3)
    m.entry([INT, INT, INT], INT, call("keep_rec", A, N, B), grid3)
    m.entry([INT, INT, INT], INT, {"k": "call", "f": "keep_rec", "args": [A, N, B], "pipe": True}, grid3)
    m.entry([INT, INT, INT], INT, call("shadow_rec", A, N), grid3)
    m.entry([INT, INT, INT], INT, call("hof_rec", {"k": "fn", "ps": ["z"], "pts": [INT], "ret": INT, "body": binop("+", V("z"), B)}, N, A), grid3)
    m.entry([INT, INT, INT], INT, call("hof_rec", call("make_adder", binop("+", I(1), binop("*", A, A))), N, B), grid3)
    m.entry([INT, INT, INT], INT, call("two_static", A, B, N), grid3)
    m.entry([INT, INT, INT], INT, call("part_static", A, B, N), grid3)
    m.entry([INT, INT, INT], INT, binop("-", call("two_static", A, B, N), call("two_static", B, A, N)), grid3)
    m.entry([INT, INT, INT], INT, call("rot_rec", A, B, binop("+", A, B), N), grid3)
    lgrid = [[int_list(), DI(3)], [int_list(1, 2, 3), DI(2)], [int_list(5), DI(-1)], [int_list(1, 1, 1, 1), DI(0)]]
    m.entry([TList(INT), INT], INT, call("weighted", V("arg0"), V("arg1")), lgrid)
    m.entry([TList(INT), INT], INT, call("const_first", V("arg1"), V("arg0")), lgrid)
    m.entry([TList(INT), INT], INT, binop("+", call("weighted", V("arg0"), V("arg1")), call("weighted", V("arg0"), binop("+", V("arg1"), I(1)))), lgrid)
    return [m.done("recursion")]


# ---------------------------------------------------------------- 7. strictness: what must run, in which order
def family_strictness():
    m = Mod()
    g = m.g
    IF = lambda c, t, e: {"k": "if", "c": c, "t": t, "e": e}
    LET = lambda x, e, body, ty=INT: {"k": "let", "x": x, "ty": ty, "e": e, "body": body}
    g.add_fn("crash0", [], [], INT, {"k": "fail"})
    g.add_fn("seven0", [], [], INT, I(7))
    g.add_fn("div0", [], [], INT, binop("/", call("seven0"), binop("-", call("seven0"), I(7))))
    ints = [[DI(0)], [DI(1)], [DI(-3)], [DI(150)], [DI(250)]]
    A = V("arg0")
    for f in ("crash0", "div0", "seven0"):
        # bound, used only on a path that is not taken; a second call site elsewhere
        m.entry([INT], INT, LET("v", call(f), LET("w", IF(binop(">", A, I(200)), call(f), I(1)), IF(binop(">", A, I(100)), binop("+", V("v"), V("w")), V("w")))), ints)
        # bound and used by the result
        m.entry([INT], INT, LET("v", call(f), binop("+", V("v"), IF(binop(">", A, I(200)), call(f), I(1)))), ints)
        # called in the branch only
        m.entry([INT], INT, IF(binop(">", A, I(100)), binop("+", call(f), call(f)), I(5)), ints)
    # guards: and / or blocks and infix chains, an aborting operand behind a guard, in every position
    div = lambda k: binop(">", binop("/", I(k), A), I(1))
    ne0 = binop("!=", A, I(0))
    eq0 = binop("==", A, I(0))
    pos = binop(">", A, I(0))
    m.entry([INT], BOOL, {"k": "and", "es": [ne0, div(10)]}, ints)
    m.entry([INT], BOOL, {"k": "and", "es": [ne0, pos, div(10)]}, ints)
    m.entry([INT], BOOL, {"k": "and", "es": [pos, ne0, div(300)]}, ints)
    m.entry([INT], BOOL, {"k": "and", "es": [div(10), ne0]}, ints)
    m.entry([INT], BOOL, {"k": "or", "es": [eq0, div(10)]}, ints)
    m.entry([INT], BOOL, {"k": "or", "es": [eq0, binop("<", A, I(0)), div(300)]}, ints)
    m.entry([INT], BOOL, {"k": "or", "es": [div(10), eq0]}, ints)
    m.entry([INT], BOOL, binop("&&", ne0, binop("&&", pos, div(10))), ints)
    m.entry([INT], BOOL, binop("||", eq0, binop("||", binop("<", A, I(0)), div(10))), ints)
    m.entry([INT], BOOL, {"k": "and", "es": [{"k": "or", "es": [eq0, div(10)]}, {"k": "or", "es": [pos, div(5)]}]}, ints)
    # Bool comparisons with literals, both sides
    for op in ("==", "!="):
        for lit in (True, False):
            m.entry([INT], BOOL, binop(op, pos, {"k": "bool", "b": lit}), ints)
            m.entry([INT], BOOL, binop(op, {"k": "bool", "b": lit}, pos), ints)
    m.entry([INT], BOOL, binop("!=", pos, ne0), ints)
    # `?` on a negation / comparison / conjunction
    m.entry([INT], BOOL, {"k": "traceif", "e": {"k": "not", "e": pos}}, ints)
    m.entry([INT], BOOL, {"k": "not", "e": {"k": "traceif", "e": pos}}, ints)
    m.entry([INT], BOOL, {"k": "traceif", "e": binop("&&", pos, ne0)}, ints)
    m.entry([INT], BOOL, binop("&&", {"k": "traceif", "e": {"k": "not", "e": eq0}}, {"k": "traceif", "e": div(10)}), ints)
    mods = [m.done("strictness")]
    # expect on a discard: the right-hand side still runs
    m = Mod()
    rhss = [call("guard_pos", A), binop("/", I(10), A), IF(binop(">", A, I(100)), {"k": "fail"}, I(1))]
    for rhs in rhss:
        m.entry([INT], INT, {"k": "expect", "p": {"p": "discard"}, "ty": INT, "e": rhs, "body": I(3)}, ints)
        m.entry([INT], INT, {"k": "expect", "p": {"p": "discard", "name": "_unused"}, "ty": INT, "e": rhs, "body": I(4)}, ints)
        m.entry([INT], INT, {"k": "letp", "p": {"p": "tuple", "ps": [{"p": "discard"}, {"p": "var", "x": "y"}]}, "ty": TTuple(INT, INT),
                             "e": {"k": "tuple", "es": [rhs, I(9)]}, "body": V("y")}, ints)
    m.entry([TOption(INT)], INT, {"k": "expect", "p": {"p": "con", "ty": "Option", "i": 0, "args": [{"p": "discard"}]}, "ty": TOption(INT), "e": A, "body": I(5)},
            [[DC(0, DI(1))], [DC(1)]])
    mods.append(m.done("strictness"))
    return mods


# ---------------------------------------------------------------- 8. generic functions at several instantiations in one program
def family_generics():
    m = Mod()
    g = m.g
    a, b = ag.TVar("a"), ag.TVar("b")
    g.add_fn("singleton", ["x"], [a], TList(a), {"k": "list", "es": [V("x")]})
    g.add_fn("pair_up", ["x", "y"], [a, b], TTuple(a, b), {"k": "tuple", "es": [V("x"), V("y")]})
    g.add_fn("choose", ["c", "x", "y"], [BOOL, a, a], a, {"k": "if", "c": V("c"), "t": V("x"), "e": V("y")})
    g.add_fn("wrap_opt", ["x"], [a], TOption(a), {"k": "con", "ty": "Option", "i": 0, "args": [V("x")]})
    g.add_fn("second_of", ["x", "y"], [a, b], b, {"k": "letu", "x": "ignored", "ty": a, "e": V("x"), "body": V("y")})
    g.add_fn("count", ["xs"], [TList(a)], INT,
             {"k": "when", "s": V("xs"), "cs": [
                 {"p": {"p": "list", "ps": [], "tail": "none"}, "b": I(0)},
                 {"p": {"p": "list", "ps": [{"p": "discard"}], "tail": "var", "x": "t"}, "b": binop("+", I(1), call("count", V("t")))}]})
    grid = [[DI(3), DB(1, 2)], [DI(-1), DB()], [DI(0), DB(255)]]
    A, B = V("arg0"), V("arg1")
    TP = TTuple
    idx = lambda e, i, ty: {"k": "tupidx", "e": e, "i": i, "ty": ty}
    # both permutations of a two-parameter generic in one program
    m.entry([INT, BYTES], TP(INT, BYTES), {"k": "tuple", "es": [idx(call("pair_up", A, B), 1, TP(INT, BYTES)), idx(call("pair_up", B, A), 1, TP(BYTES, INT))]}, grid)
    m.entry([INT, BYTES], TP(BYTES, INT), {"k": "tuple", "es": [idx(call("pair_up", A, B), 2, TP(INT, BYTES)), idx(call("pair_up", B, A), 2, TP(BYTES, INT))]}, grid)
    m.entry([INT, BYTES], TP(INT, INT), {"k": "tuple", "es": [idx(call("pair_up", A, A), 2, TP(INT, INT)), idx(call("pair_up", B, A), 2, TP(BYTES, INT))]}, grid)
    m.entry([INT, BYTES], TP(BYTES, INT), {"k": "tuple", "es": [call("second_of", A, B), call("second_of", B, A)]}, grid)
    # one-parameter generics at scalar, list, pair-list (a map) and option instantiations
    pairs_ty = TList(TPair(INT, BYTES))
    m.entry([INT, BYTES], INT, binop("+", call("count", call("singleton", A)), call("count", call("singleton", {"k": "pair", "a": A, "b": B}))), grid)
    m.entry([INT, BYTES], pairs_ty, call("singleton", {"k": "pair", "a": A, "b": B}), grid)
    m.entry([INT, BYTES], TP(TList(INT), pairs_ty), {"k": "tuple", "es": [call("singleton", A), call("singleton", {"k": "pair", "a": A, "b": B})]}, grid)
    m.entry([INT, BYTES], TP(pairs_ty, TList(INT)), {"k": "tuple", "es": [call("singleton", {"k": "pair", "a": A, "b": B}), call("singleton", A)]}, grid)
    m.entry([INT, BYTES], TP(TList(TList(INT)), TList(BYTES)), {"k": "tuple", "es": [call("singleton", call("singleton", A)), call("singleton", B)]}, grid)
    m.entry([INT, BYTES], TP(TOption(INT), TOption(BYTES)), {"k": "tuple", "es": [call("wrap_opt", A), call("wrap_opt", B)]}, grid)
    m.entry([INT, BYTES], TP(TOption(TOption(INT)), TOption(TList(BYTES))), {"k": "tuple", "es": [call("wrap_opt", call("wrap_opt", A)), call("wrap_opt", call("singleton", B))]}, grid)
    m.entry([INT, BYTES], TP(INT, BYTES), {"k": "tuple", "es": [call("choose", binop(">", A, I(0)), A, I(9)), call("choose", binop(">", A, I(0)), B, {"k": "bytes", "bs": [7]})]}, grid)
    m.entry([INT, BYTES], TP(TList(INT), TP(INT, BYTES)), {"k": "tuple", "es": [call("choose", binop(">", A, I(0)), call("singleton", A), {"k": "list", "es": []}),
                                                                               call("choose", binop("<", A, I(0)), call("pair_up", A, B), call("pair_up", I(0), B))]}, grid)
    # the type variable itself instantiated to a list and to a pair-list (a map) in one program, in both orders
    ints = {"k": "list", "es": [A, I(2)]}
    prs = {"k": "list", "es": [{"k": "pair", "a": A, "b": B}]}
    m.entry([INT, BYTES], TP(TOption(TList(INT)), TOption(pairs_ty)), {"k": "tuple", "es": [call("wrap_opt", ints), call("wrap_opt", prs)]}, grid)
    m.entry([INT, BYTES], TP(TOption(pairs_ty), TOption(TList(INT))), {"k": "tuple", "es": [call("wrap_opt", prs), call("wrap_opt", ints)]}, grid)
    m.entry([INT, BYTES], TP(TList(TList(INT)), TList(pairs_ty)), {"k": "tuple", "es": [call("singleton", ints), call("singleton", prs)]}, grid)
    m.entry([INT, BYTES], TP(TList(pairs_ty), TList(TList(INT))), {"k": "tuple", "es": [call("singleton", prs), call("singleton", ints)]}, grid)
    m.entry([INT, BYTES], TP(TList(INT), pairs_ty), {"k": "tuple", "es": [call("choose", binop(">", A, I(0)), ints, {"k": "list", "es": []}), call("choose", binop(">", A, I(0)), prs, {"k": "list", "es": []})]}, grid)
    m.entry([INT, BYTES], TP(TP(TList(INT), pairs_ty), TP(pairs_ty, TList(INT))), {"k": "tuple", "es": [call("pair_up", ints, prs), call("pair_up", prs, ints)]}, grid)
    m.entry([INT, BYTES], INT, binop("+", call("count", ints), call("count", prs)), grid)
    return [m.done("generics")]


# ---------------------------------------------------------------- 9. strings stored in Data-encoded containers and read back
def family_strings():
    m = Mod()
    S = lambda t: {"k": "str", "cs": [ord(c) for c in t]}
    bcall = lambda f, *a: {"k": "bcall", "f": f, "args": list(a)}
    named = lambda l, w: {"k": "con", "ty": "Named", "i": 0, "args": [l, w]}
    NT = TAdt("Named")
    grid = [[DB(), DI(1)], [DB(97), DI(2)], [DB(104, 105), DI(0)], [DB(97, 34, 98), DI(-5)]]
    A, W = bcall("decode_utf8", V("arg0")), V("arg1")      # a bare String does not travel as Data: it comes in as bytes and leaves as bytes
    out = lambda e: bcall("encode_utf8", e)
    lab = lambda e: {"k": "field", "e": e, "i": 1, "ty": NT}
    E = lambda ret, body: m.entry([BYTES, INT], ret, body, grid)
    # record field read back, used as a string
    E(BYTES, out(bcall("append_string", lab(named(A, W)), S("!"))))
    E(BOOL, binop("==", lab(named(bcall("append_string", A, S("x")), W)), S("ax")))
    E(BYTES, out(lab(named(A, W))))
    # through a let-bound record, a list, a tuple, an option, a pattern
    E(BYTES, out({"k": "let", "x": "r", "ty": NT, "e": named(A, W), "body": bcall("append_string", lab(V("r")), lab(V("r")))}))
    E(BYTES, out({"k": "when", "s": {"k": "list", "es": [A, S("z")]}, "sty": TList(STRING), "cs": [
        {"p": {"p": "list", "ps": [{"p": "var", "x": "h"}], "tail": "discard"}, "b": bcall("append_string", V("h"), S("?"))},
        {"p": {"p": "discard"}, "b": S("")}]}))
    E(BYTES, out({"k": "tupidx", "e": {"k": "tuple", "es": [bcall("append_string", A, A), W]}, "i": 1, "ty": TTuple(STRING, INT)}))
    E(BYTES, out({"k": "when", "s": {"k": "con", "ty": "Option", "i": 0, "args": [A]}, "sty": TOption(STRING), "cs": [
        {"p": {"p": "con", "ty": "Option", "i": 0, "args": [{"p": "var", "x": "s"}]}, "b": bcall("append_string", S("<"), V("s"))},
        {"p": {"p": "con", "ty": "Option", "i": 1, "args": []}, "b": S("none")}]}))
    E(BYTES, out({"k": "letp", "p": {"p": "con", "ty": "Named", "i": 0, "args": [{"p": "var", "x": "l"}, {"p": "var", "x": "w"}]}, "ty": NT,
                  "e": named(A, W), "body": {"k": "if", "c": binop(">", V("w"), I(0)), "t": V("l"), "e": bcall("append_string", V("l"), S("-"))}}))
    # containers with strings travel as Data: cast from Data and back
    E(BYTES, out({"k": "cast", "x": "c", "ty": NT, "e": todata(NT, named(A, W)), "body": bcall("append_string", lab(V("c")), S("."))}))
    E(TList(STRING), {"k": "cast", "x": "c", "ty": TList(STRING), "e": todata(TList(STRING), {"k": "list", "es": [A, S("b")]}), "body": V("c")})
    E(NT, named(bcall("append_string", A, S("+")), binop("+", W, I(1))))
    E(TTuple(STRING, INT), {"k": "tuple", "es": [A, W]})
    E(INT, bcall("length_of_bytearray", bcall("encode_utf8", bcall("append_string", lab(named(A, W)), S("abc")))))
    return [m.done("strings")]


# ---------------------------------------------------------------- 10. points of BLS12-381 (constants the optimiser collects and shares)
def family_points():
    """G1 / G2 points as multiples of the generator: the generator, its negation and the point at infinity as literals, each several times in
    one program (the optimiser's `bls381_compressor` replaces equal point constants by one shared binding), combined with neg / add /
    scalar_mul on integer arguments and compared with `equal`.  In Aiken.tla a point is the integer multiple it is of the generator."""
    bcall = lambda f, *a: {"k": "bcall", "f": f, "args": list(a)}
    grid = [[DI(a), DI(b)] for a, b in [(0, 1), (1, 0), (2, 3), (3, 2), (-1, 0), (0, -1), (5, 5), (1, -1), (-2, -1), (0, 0)]]
    mods = []
    for g in ("g1", "g2"):
        P = lambda n: {"k": "point", "g": g, "n": n}
        f = lambda name, *a: bcall("bls12_381_%s_%s" % (g, name), *a)
        m = Mod()
        A, B = V("arg0"), V("arg1")
        E = lambda ret, body: m.entry([INT, INT], ret, body, grid)
        # the generator and its negation side by side (same x coordinate, opposite y)
        E(BOOL, f("equal", f("neg", P(1)), P(-1)))
        E(BOOL, f("equal", P(1), P(-1)))
        E(BOOL, binop("||", f("equal", P(1), P(-1)), f("equal", f("add", P(1), P(-1)), P(0))))
        E(BOOL, f("equal", f("scalar_mul", A, P(1)), f("add", P(-1), f("scalar_mul", B, P(1)))))            # a = b - 1
        E(BOOL, f("equal", f("scalar_mul", A, P(-1)), f("add", P(1), f("scalar_mul", B, P(-1)))))           # -a = 1 - b
        E(BOOL, f("equal", f("add", f("scalar_mul", A, P(1)), f("scalar_mul", B, P(-1))), P(0)))             # a - b = 0
        E(BOOL, f("equal", f("add", f("scalar_mul", A, P(1)), f("scalar_mul", B, P(-1))), f("add", P(1), P(1))))   # a - b = 2, the generator four times
        E(BOOL, f("equal", f("add", f("add", P(-1), P(-1)), f("scalar_mul", A, P(1))), f("add", P(1), f("scalar_mul", B, P(-1)))))   # a - 2 = 1 - b
        E(BOOL, binop("&&", f("equal", f("scalar_mul", A, P(0)), P(0)), f("equal", f("add", P(0), f("scalar_mul", B, P(1))), f("neg", f("scalar_mul", B, P(-1))))))
        # the same through local bindings and through a function of the module (hoisted code holding point constants)
        E(BOOL, {"k": "let", "x": "p", "e": f("scalar_mul", A, P(1)), "body":
                 {"k": "let", "x": "q", "e": f("add", V("p"), P(-1)), "body": f("equal", f("add", V("q"), P(1)), f("scalar_mul", B, P(1)))}})
        E(INT, {"k": "if", "c": f("equal", f("scalar_mul", A, P(1)), P(-1)), "t": I(1), "e":
                {"k": "if", "c": f("equal", f("scalar_mul", A, P(1)), P(1)), "t": I(2), "e": {"k": "if", "c": f("equal", f("scalar_mul", A, P(1)), P(0)), "t": I(3), "e": I(4)}}})
        mods.append(m.done("points"))
    # both groups in one program
    m = Mod()
    A, B = V("arg0"), V("arg1")
    P1 = lambda n: {"k": "point", "g": "g1", "n": n}
    P2 = lambda n: {"k": "point", "g": "g2", "n": n}
    m.entry([INT, INT], BOOL, binop("&&", bcall("bls12_381_g1_equal", bcall("bls12_381_g1_scalar_mul", A, P1(1)), bcall("bls12_381_g1_add", P1(-1), bcall("bls12_381_g1_scalar_mul", B, P1(1)))),
                                    bcall("bls12_381_g2_equal", bcall("bls12_381_g2_scalar_mul", A, P2(-1)), bcall("bls12_381_g2_add", P2(1), bcall("bls12_381_g2_scalar_mul", B, P2(-1))))), grid)
    m.entry([INT, INT], BOOL, binop("||", bcall("bls12_381_g1_equal", P1(1), bcall("bls12_381_g1_scalar_mul", A, P1(-1))),
                                    bcall("bls12_381_g2_equal", P2(-1), bcall("bls12_381_g2_scalar_mul", B, P2(1)))), grid)
    mods.append(m.done("points"))
    return mods


def all_families():
    return family_points() + family_expect_list() + family_cast() + family_trace_only() + family_repeated_constant() + family_data_param() + family_recursion() + \
        family_strictness() + family_generics() + family_strings()


# ---------------------------------------------------------------- ill-typed table (C06): a value of T1 where T2 is required
VALUES = {
    "Int": "42", "Bool": "True", "ByteArray": '#"00"', "List<Int>": "[1, 2]", "Option<Int>": "Some(1)", "Point": "Point { x: 1, y: 2 }",
    "(Int, Bool)": "(1, True)", "Color": "Red",
}
POSITIONS = [
    ("argument", "fn g(a: {T2}) -> {T2} {{ a }}\npub fn f() -> {T2} {{\n  g({v1})\n}}\n"),
    ("return", "pub fn f() -> {T2} {{\n  {v1}\n}}\n"),
    ("let annotation", "pub fn f() -> Int {{\n  let a: {T2} = {v1}\n  let _b = a\n  1\n}}\n"),
    ("if branches", "pub fn f(c: Bool, o: {T2}) -> {T2} {{\n  if c {{ o }} else {{ {v1} }}\n}}\n"),
    ("list element", "pub fn f(o: {T2}) -> List<{T2}> {{\n  [o, {v1}]\n}}\n"),
    ("generic record field", "pub type GBox<a> {{\n  value: a,\n}}\n\npub fn f(b: GBox<{T1}>) -> {T2} {{\n  b.value\n}}\n"),
    ("generic record update", "pub type GBox<a> {{\n  value: a,\n  n: Int,\n}}\n\npub fn f(b: GBox<{T2}>) -> GBox<{T2}> {{\n  GBox {{ ..b, value: {v1} }}\n}}\n"),
    ("generic constructor", "pub fn f() -> Box<{T2}> {{\n  Box({v1})\n}}\n"),
    ("alternative patterns", "pub type Alt {{\n  A({T2})\n  B({T1})\n}}\n\npub fn f(a: Alt) -> {T2} {{\n  when a is {{\n    A(x) | B(x) -> x\n  }}\n}}\n"),
    ("alternative patterns, Data first", "pub type Alt {{\n  A(Data)\n  B({T1})\n}}\n\npub fn f(a: Alt) -> Data {{\n  when a is {{\n    A(x) | B(x) -> x\n  }}\n}}\n"),
    ("when clauses", "pub fn f(c: Bool, o: {T2}) -> {T2} {{\n  when c is {{\n    True -> o\n    False -> {v1}\n  }}\n}}\n"),
    ("pipe", "fn g(a: {T2}) -> {T2} {{ a }}\npub fn f() -> {T2} {{\n  {v1} |> g\n}}\n"),
    ("lambda argument", "pub fn f() -> {T2} {{\n  let g = fn(a: {T2}) -> {T2} {{ a }}\n  g({v1})\n}}\n"),
    ("equality", "pub fn f(o: {T2}) -> Bool {{\n  o == {v1}\n}}\n"),
    ("tuple element", "pub fn f() -> ({T2}, Int) {{\n  ({v1}, 1)\n}}\n"),
    ("option payload", "pub fn f() -> Option<{T2}> {{\n  Some({v1})\n}}\n"),
    ("generic function, one variable at two types", "fn same(x: a, _y: a) -> a {{ x }}\npub fn f(o: {T2}) -> {T2} {{\n  same(o, {v1})\n}}\n"),
    ("pattern of another type in when", "pub fn f(o: {T2}) -> Int {{\n  when o is {{\n    {p1} -> 1\n    _ -> 0\n  }}\n}}\n"),
    ("pattern of another type in expect", "pub fn f(o: {T2}) -> Int {{\n  expect {p1} = o\n  1\n}}\n"),
    ("pattern of another type in let", "pub fn f(o: List<{T2}>) -> Int {{\n  when o is {{\n    [{p1}, ..] -> 1\n    _ -> 0\n  }}\n}}\n"),
    ("higher-order argument", "fn app(g: fn({T2}) -> Int, x: {T2}) -> Int {{ g(x) }}\npub fn f(o: {T2}) -> Int {{\n  app(fn(_y: {T1}) {{ 1 }}, o)\n}}\n"),
    ("returned lambda", "pub fn f() -> fn({T2}) -> Int {{\n  fn(_y: {T1}) {{ 1 }}\n}}\n"),
    ("record update of a generic record at another instance", "pub type GPair<a> {{\n  l: a,\n  r: a,\n}}\n\npub fn f(b: GPair<{T2}>) -> GPair<{T2}> {{\n  GPair {{ ..b, l: {v1} }}\n}}\n"),
    ("list tail", "pub fn f(o: List<{T2}>) -> List<{T2}> {{\n  [{v1}, ..o]\n}}\n"),
    ("pair component", "pub fn f() -> Pair<{T2}, Int> {{\n  Pair({v1}, 1)\n}}\n"),
    ("expect annotation on a typed value", "pub fn f(o: {T2}) -> Int {{\n  expect _x: {T1} = o\n  1\n}}\n"),
]
PATTERNS = {
    "Int": "7", "Bool": "True", "ByteArray": '#"00"', "List<Int>": "[1, ..]", "Option<Int>": "Some(_)", "Point": "Point { x: _, y: _ }",
    "(Int, Bool)": "(_, True)", "Color": "Red",
}


def ill_typed_table():
    """(source, description): every one must be rejected by the type checker"""
    T = ag.render_types()
    out = []
    tys = list(VALUES)
    for name, tmpl in POSITIONS:
        for t1 in tys:
            for t2 in tys:
                if t1 == t2:
                    continue
                if (tys.index(t1) * 7 + tys.index(t2) * 3 + len(name)) % 4 != 0:     # a quarter of the pairs per position
                    continue
                out.append((T + "\n" + tmpl.format(T1=t1, T2=t2, v1=VALUES[t1], p1=PATTERNS[t1]), "%s: %s where %s is required" % (name, t1, t2)))
    return out


MISUSE = [
    ("if on a non-Bool", "pub fn f(o: {T}) -> Int {{\n  if o {{ 1 }} else {{ 2 }}\n}}\n", {"Bool"}),
    ("not on a non-Bool", "pub fn f(o: {T}) -> Bool {{\n  !o\n}}\n", {"Bool"}),
    ("negation of a non-Int", "pub fn f(o: {T}) -> Int {{\n  -o\n}}\n", {"Int"}),
    ("arithmetic on a non-Int", "pub fn f(o: {T}) -> Int {{\n  o + 1\n}}\n", {"Int"}),
    ("comparison of non-Int", "pub fn f(o: {T}) -> Bool {{\n  o < o\n}}\n", {"Int"}),
    ("and block with a non-Bool", "pub fn f(o: {T}) -> Bool {{\n  and {{\n    True,\n    o,\n  }}\n}}\n", {"Bool"}),
    ("trace-if-false on a non-Bool", "pub fn f(o: {T}) -> Bool {{\n  o?\n}}\n", {"Bool"}),
    ("calling a non-function", "pub fn f(o: {T}) -> Int {{\n  o(1)\n}}\n", set()),
    ("tuple index on a non-tuple", "pub fn f(o: {T}) -> Int {{\n  o.1st\n}}\n", {"(Int, Bool)"}),
    ("field access without such a field", "pub fn f(o: {T}) -> Int {{\n  o.x\n}}\n", {"Point"}),
    ("third component of a pair tuple", "pub fn f(o: (Int, Bool)) -> Int {{\n  o.3rd\n}}\n", None),
    ("spread of a non-list", "pub fn f(o: {T}) -> List<Int> {{\n  [1, ..o]\n}}\n", {"List<Int>"}),
]


def ill_typed_misuse():
    T = ag.render_types()
    out = []
    for name, tmpl, ok in MISUSE:
        if ok is None:
            out.append((T + "\n" + tmpl, name))
            continue
        for t in VALUES:
            if t not in ok:
                out.append((T + "\n" + tmpl.format(T=t), "%s: %s" % (name, t)))
    return out


def well_typed_misuse_controls():
    T = ag.render_types()
    return [(T + "\n" + tmpl.format(T=t), "%s at %s" % (name, t)) for name, tmpl, ok in MISUSE if ok for t in ok]


def well_typed_controls():
    """the same positions with T1 = T2: must be ACCEPTED (guards the table against templates that are rejected for another reason)"""
    T = ag.render_types()
    out = []
    for name, tmpl in POSITIONS:
        if "Data first" in name:       # ill-typed whatever T1 is (that is its point)
            continue
        for t in ("Int", "ByteArray", "Option<Int>"):
            out.append((T + "\n" + tmpl.format(T1=t, T2=t, v1=VALUES[t], p1=PATTERNS[t]), "%s at %s" % (name, t)))
    return out


# ---------------------------------------------------------------- constants beyond a machine word (C02: compared stage by stage, no specification value)
def big_constant_module():
    """Data constants holding integers around +-2^63 / +-2^64 and beyond, cast back to Int and used; byte strings of 64 / 65 bytes"""
    ns = []
    for k in (62, 63, 64, 65, 70, 128):
        for d in (-1, 0, 1):
            ns += [2 ** k + d, -(2 ** k) + d]
    fns, out = [], []
    for i, n in enumerate(sorted(set(ns))):
        name = "k%d" % i
        fns.append(name)
        out.append("pub fn %s() -> Data {\n  let d: Data = %d\n  expect n: Int = d\n  let r: Int = n + 1\n  let as_data: Data = r\n  as_data\n}\n" % (name, n))
        name = "c%d" % i
        fns.append(name)
        out.append("const big_%d: Data = %d\n\npub fn %s() -> Data {\n  expect n: Int = big_%d\n  let r: Bool = n %% 7 == %d\n  let as_data: Data = r\n  as_data\n}\n" % (i, n, name, i, n % 7))
    return {"src": "\n".join(out), "fns": fns}
