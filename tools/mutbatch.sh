#!/bin/bash
# usage: mutbatch.sh <seeded-dir-name>:<check ids comma separated> ...   -> appends to work/t/mutbatch.log
for spec in "$@"; do
  name=${spec%%:*}; checks=${spec#*:}
  echo "=== $name" >> /verif/work/t/mutbatch.log
  python3 /verif/tools/mutrun.py /verif/seeded/$name/patch.diff ${checks//,/ } >> /verif/work/t/mutbatch.log 2>&1
done
echo "=== DONE" >> /verif/work/t/mutbatch.log
