"""Typed random generator of Aiken modules as JSON ASTs (the shape Aiken.tla evaluates) and the
renderer AST -> Aiken source.  The renderer is trusted only as far as the real type checker accepts
what it prints under the annotated types."""
import random

# --------------------------------------------------------------------------- types
INT, BOOL, BYTES, VOID, DATA = {"t": "Int"}, {"t": "Bool"}, {"t": "ByteArray"}, {"t": "Void"}, {"t": "Data"}
STRING = {"t": "String"}


def TList(e): return {"t": "List", "e": e}
def TTuple(*es): return {"t": "Tuple", "es": list(es)}
def TPair(a, b): return {"t": "Pair", "a": a, "b": b}
def TAdt(n, *a): return {"t": "adt", "n": n, "as": list(a)}
def TVar(x): return {"t": "var", "x": x}
def TFn(args, ret): return {"t": "fn", "args": list(args), "ret": ret}
def TOption(e): return TAdt("Option", e)


# the catalogue; "ls" are field labels (None = positional constructor)
TYPES = {
    "Option": {"ps": ["a"], "cs": [{"n": "Some", "fs": [TVar("a")], "ls": None}, {"n": "None", "fs": [], "ls": None}], "builtin": True},
    "Color": {"ps": [], "cs": [{"n": "Red", "fs": [], "ls": None}, {"n": "Green", "fs": [], "ls": None}, {"n": "Blue", "fs": [], "ls": None}]},
    "Point": {"ps": [], "cs": [{"n": "Point", "fs": [INT, INT], "ls": ["x", "y"]}]},
    "Shape": {"ps": [], "cs": [{"n": "Circle", "fs": [INT], "ls": None}, {"n": "Rect", "fs": [INT, INT], "ls": ["w", "h"]},
                               {"n": "Empty", "fs": [], "ls": None}]},
    "Box": {"ps": ["a"], "cs": [{"n": "Box", "fs": [TVar("a")], "ls": None}]},
    "Either": {"ps": ["a", "b"], "cs": [{"n": "Left", "fs": [TVar("a")], "ls": None}, {"n": "Right", "fs": [TVar("b")], "ls": None}]},
    "Tree": {"ps": [], "cs": [{"n": "Leaf", "fs": [], "ls": None},
                              {"n": "Node", "fs": [TAdt("Tree"), INT, TAdt("Tree")], "ls": None}]},
    "Acct": {"ps": [], "cs": [{"n": "Acct", "fs": [BYTES, TAdt("Option", INT), TList(INT)], "ls": ["owner", "limit", "hist"]}]},
    # decorated constructor tags (incl. one beyond the compact CBOR tag range) and two-level generics
    "Tagged": {"ps": [], "cs": [{"n": "Noop", "fs": [], "ls": None}, {"n": "Halt", "fs": [INT], "ls": None, "tag": 200},
                                {"n": "Go", "fs": [BYTES], "ls": None, "tag": 7}]},
    "Rec5": {"ps": [], "cs": [{"n": "Rec5", "fs": [INT, BOOL], "ls": ["a", "b"], "tag": 5}], "type_tag": True},
    "Named": {"ps": [], "cs": [{"n": "Named", "fs": [STRING, INT], "ls": ["label", "weight"]}]},
    # ONE explicitly written constructor carrying its own tag (not the record shorthand with the tag on the type)
    "Solo": {"ps": [], "cs": [{"n": "Mk", "fs": [INT], "ls": ["amount"], "tag": 3}]},
    "Solo2": {"ps": [], "cs": [{"n": "Mk2", "fs": [INT, BYTES], "ls": None, "tag": 9}]},
    "RecL": {"ps": [], "cs": [{"n": "RecL", "fs": [INT, BYTES, TOption(INT)], "ls": ["a", "b", "c"]}], "type_list": True},
    "Inner": {"ps": ["b"], "cs": [{"n": "Inner", "fs": [TList(TVar("b"))], "ls": ["inner"]}]},
    "Wrap": {"ps": ["a"], "cs": [{"n": "Wrap", "fs": [TAdt("Inner", TVar("a")), INT], "ls": ["w", "n"]}]},
}


def spec_types(types=TYPES):
    """the catalogue in the shape Aiken.tla wants"""
    return {n: dict({"ps": d["ps"], "cs": [dict({"n": c["n"], "fs": c["fs"]}, **({"tag": c["tag"]} if "tag" in c else {})) for c in d["cs"]]},
                    **({"enc": "list"} if d.get("type_list") else {}))
            for n, d in types.items()}


def subst(ty, m):
    t = ty["t"]
    if t == "var":
        return m.get(ty["x"], ty)
    if t == "List":
        return TList(subst(ty["e"], m))
    if t == "Tuple":
        return TTuple(*[subst(e, m) for e in ty["es"]])
    if t == "Pair":
        return TPair(subst(ty["a"], m), subst(ty["b"], m))
    if t == "adt":
        return TAdt(ty["n"], *[subst(a, m) for a in ty["as"]])
    return ty


def field_types(ty, ci, types=TYPES):
    d = types[ty["n"]]
    m = dict(zip(d["ps"], ty["as"]))
    return [subst(f, m) for f in d["cs"][ci]["fs"]]


def ty_str(ty):
    t = ty["t"]
    if t in ("Int", "Bool", "ByteArray", "String", "Void", "Data"):
        return t
    if t == "List":
        return "List<%s>" % ty_str(ty["e"])
    if t == "Tuple":
        return "(%s)" % ", ".join(ty_str(e) for e in ty["es"])
    if t == "Pair":
        return "Pair<%s, %s>" % (ty_str(ty["a"]), ty_str(ty["b"]))
    if t == "adt":
        return ty["n"] + ("<%s>" % ", ".join(ty_str(a) for a in ty["as"]) if ty["as"] else "")
    if t == "fn":
        return "fn(%s) -> %s" % (", ".join(ty_str(a) for a in ty["args"]), ty_str(ty["ret"]))
    if t == "var":
        return ty["x"]
    raise ValueError(ty)


def teq(a, b):
    return ty_str(a) == ty_str(b)


# --------------------------------------------------------------------------- values (python side, input generation only)
def rand_value(rng, ty, depth=2):
    t = ty["t"]
    if t == "Int":
        return {"v": "int", "n": rng.choice([0, 1, 2, 3, -1, -2, 5, 7, -7, 10, rng.randint(-20, 20)])}
    if t == "Bool":
        return {"v": "bool", "b": rng.random() < 0.5}
    if t == "ByteArray":
        return {"v": "bytes", "bs": [rng.randint(0, 255) for _ in range(rng.choice([0, 1, 2, 3]))]}
    if t == "String":
        return {"v": "str", "cs": rng.choice([[], [97], [97, 98], [104, 105, 33], [32], [97, 34, 98]])}
    if t == "Void":
        return {"v": "void"}
    if t == "Data":
        return {"v": "data", "d": rand_data(rng, 2)}
    if t == "List":
        n = rng.choice([0, 1, 2, 3]) if depth > 0 else 0
        return {"v": "list", "xs": [rand_value(rng, ty["e"], depth - 1) for _ in range(n)]}
    if t == "Tuple":
        return {"v": "tuple", "xs": [rand_value(rng, e, depth - 1) for e in ty["es"]]}
    if t == "Pair":
        return {"v": "pair", "a": rand_value(rng, ty["a"], depth - 1), "b": rand_value(rng, ty["b"], depth - 1)}
    if t == "adt":
        d = TYPES[ty["n"]]
        cis = list(range(len(d["cs"])))
        if depth <= 0:
            cis = [i for i in cis if not any(f == TAdt(ty["n"]) for f in d["cs"][i]["fs"])] or cis
        ci = rng.choice(cis)
        return {"v": "con", "ty": ty["n"], "i": ci, "fs": [rand_value(rng, f, depth - 1) for f in field_types(ty, ci)]}
    raise ValueError(ty)


def rand_data(rng, depth):
    k = rng.choice("IBLCM" if depth > 0 else "IB")
    if k == "I":
        return {"d": "I", "v": rng.randint(-9, 9)}
    if k == "B":
        return {"d": "B", "v": [rng.randint(0, 255) for _ in range(rng.randint(0, 2))]}
    if k == "L":
        return {"d": "L", "v": [rand_data(rng, depth - 1) for _ in range(rng.randint(0, 2))]}
    if k == "M":
        return {"d": "M", "v": [[rand_data(rng, depth - 1), rand_data(rng, depth - 1)] for _ in range(rng.randint(0, 2))]}
    return {"d": "C", "tag": rng.choice([0, 1, 2, 3]), "fs": [rand_data(rng, depth - 1) for _ in range(rng.randint(0, 2))]}


def to_data(ty, v):
    t = ty["t"]
    if t == "Int":
        return {"d": "I", "v": v["n"]}
    if t == "ByteArray":
        return {"d": "B", "v": v["bs"]}
    if t == "String":
        return {"d": "B", "v": v["cs"]}
    if t == "Bool":
        return {"d": "C", "tag": 1 if v["b"] else 0, "fs": []}
    if t == "Void":
        return {"d": "C", "tag": 0, "fs": []}
    if t == "Data":
        return v["d"]
    if t == "List":
        if ty["e"]["t"] == "Pair":
            return {"d": "M", "v": [[to_data(ty["e"]["a"], x["a"]), to_data(ty["e"]["b"], x["b"])] for x in v["xs"]]}
        return {"d": "L", "v": [to_data(ty["e"], x) for x in v["xs"]]}
    if t == "Tuple":
        return {"d": "L", "v": [to_data(e, x) for e, x in zip(ty["es"], v["xs"])]}
    if t == "Pair":
        return {"d": "L", "v": [to_data(ty["a"], v["a"]), to_data(ty["b"], v["b"])]}
    if t == "adt" and TYPES[ty["n"]].get("type_list"):
        return {"d": "L", "v": [to_data(f, x) for f, x in zip(field_types(ty, 0), v["fs"])]}
    if t == "adt":
        return {"d": "C", "tag": TYPES[ty["n"]]["cs"][v["i"]].get("tag", v["i"]),
                "fs": [to_data(f, x) for f, x in zip(field_types(ty, v["i"]), v["fs"])]}
    raise ValueError(ty)


# --------------------------------------------------------------------------- free variables (for the let-erasure rule)
def pat_vars(p):
    k = p["p"]
    if k == "var":
        return {p["x"]}
    if k == "as":
        return pat_vars(p["q"]) | {p["x"]}
    if k == "con":
        return set().union(*[pat_vars(a) for a in p["args"]]) if p["args"] else set()
    if k in ("tuple", "alt"):
        return set().union(*[pat_vars(a) for a in p["ps"]]) if p["ps"] else set()
    if k == "pair":
        return pat_vars(p["a"]) | pat_vars(p["b"])
    if k == "list":
        s = set().union(*[pat_vars(a) for a in p["ps"]]) if p["ps"] else set()
        if p["tail"] == "var":
            s.add(p["x"])
        return s
    return set()


# compressed generators of BLS12-381's G1 and G2; the negation of a point with y # 0 differs in the sign bit (0x20 of the first byte) only;
# the point at infinity is 0xc0 followed by zeros
_G1 = "97f1d3a73197d7942695638c4fa9ac0fc3688c4f9774b905a14e3a3f171bac586c55e83ff97a1aeffb3af00adb22c6bb"
_G2 = ("93e02b6052719f607dacd3a088274f65596bd0d09920b61ab5da61bbdc7f5049334cf11213945d57e5ac7d055d042b7e"
       "024aa2b2f08f0a91260805272dc51051c6e47ad4fa403b02b4510b647ae3d1770bac0326a805bbefd48056c8c121bdb8")
POINTS = {("g1", 1): _G1, ("g1", -1): "b7" + _G1[2:], ("g1", 0): "c0" + "00" * 47,
          ("g2", 1): _G2, ("g2", -1): "b3" + _G2[2:], ("g2", 0): "c0" + "00" * 95}


def free_vars(e):
    k = e["k"]
    if k == "var":
        return {e["x"]}
    if k in ("int", "bool", "bytes", "str", "point", "void", "fail", "todo", "fnref"):
        return set()
    if k in ("neg", "not", "traceif", "todata", "field", "tupidx"):
        return free_vars(e["e"])
    if k == "binop":
        return free_vars(e["l"]) | free_vars(e["r"])
    if k in ("and", "or", "tuple"):
        return set().union(*[free_vars(x) for x in e["es"]]) if e["es"] else set()
    if k == "list":
        s = set().union(*[free_vars(x) for x in e["es"]]) if e["es"] else set()
        return s | (free_vars(e["tail"]) if "tail" in e else set())
    if k == "if":
        return free_vars(e["c"]) | free_vars(e["t"]) | free_vars(e["e"])
    if k in ("let", "cast"):
        return free_vars(e["e"]) | (free_vars(e["body"]) - {e["x"]})
    if k == "letu":
        return free_vars(e["e"]) | free_vars(e["body"])
    if k in ("letp", "expect"):
        return free_vars(e["e"]) | (free_vars(e["body"]) - pat_vars(e["p"]))
    if k == "when":
        s = free_vars(e["s"])
        for c in e["cs"]:
            s |= free_vars(c["b"]) - pat_vars(c["p"])
        return s
    if k in ("call", "con", "bcall"):
        return set().union(*[free_vars(x) for x in e["args"]]) if e["args"] else set()
    if k == "apply":
        return free_vars(e["f"]) | (set().union(*[free_vars(x) for x in e["args"]]) if e["args"] else set())
    if k == "fn":
        return free_vars(e["body"]) - set(e["ps"])
    if k == "pair":
        return free_vars(e["a"]) | free_vars(e["b"])
    if k == "update":
        return free_vars(e["e"]) | (set().union(*[free_vars(x) for x in e["vals"]]) if e["vals"] else set())
    if k == "trace":
        return free_vars(e["body"]) | set(e.get("targs", []))
    raise ValueError(k)


# --------------------------------------------------------------------------- generator
SER = None  # serialisable type pool, filled below


def ser_pool():
    base = [INT, BOOL, BYTES, TList(INT), TOption(INT), TAdt("Color"), TAdt("Point"), TAdt("Shape"), TAdt("Tree"),
            TTuple(INT, BOOL), TTuple(INT, TAdt("Color"), BYTES), TPair(INT, BYTES), TAdt("Box", INT), TAdt("Either", INT, BOOL),
            TList(TAdt("Point")), TList(TPair(INT, INT)), TOption(TAdt("Shape")), TAdt("Acct"), DATA, VOID,
            TList(TList(INT)), TAdt("Box", TAdt("Option", BOOL)), TAdt("Named"), TList(STRING), TTuple(STRING, INT), TOption(STRING)]   # a bare String does not cast to Data
    return base


class G:
    def __init__(self, rng, abort_rate=0.03, trace_rate=0.08):
        self.r = rng
        self.n = 0
        self.abort_rate = abort_rate
        self.trace_rate = trace_rate
        self.fns = {}        # name -> {"ps": [...], "pts": [types], "ret": type, "body": expr}
        self.order = []

    def fresh(self, p="v"):
        self.n += 1
        return "%s%d" % (p, self.n)

    # ---- library functions (hand-written ASTs: recursion, higher-order, generics)
    def library(self):
        V = lambda x: {"k": "var", "x": x}
        I = lambda n: {"k": "int", "n": n}
        call = lambda f, *a: {"k": "call", "f": f, "args": list(a)}
        self.add_fn("sum_list", ["xs"], [TList(INT)], INT,
                    {"k": "when", "s": V("xs"), "cs": [
                        {"p": {"p": "list", "ps": [], "tail": "none"}, "b": I(0)},
                        {"p": {"p": "list", "ps": [{"p": "var", "x": "h"}], "tail": "var", "x": "t"},
                         "b": {"k": "binop", "op": "+", "l": V("h"), "r": call("sum_list", V("t"))}}]})
        self.add_fn("len_list", ["xs", "acc"], [TList(INT), INT], INT,
                    {"k": "when", "s": V("xs"), "cs": [
                        {"p": {"p": "list", "ps": [], "tail": "none"}, "b": V("acc")},
                        {"p": {"p": "list", "ps": [{"p": "discard"}], "tail": "var", "x": "t"},
                         "b": call("len_list", V("t"), {"k": "binop", "op": "+", "l": V("acc"), "r": I(1)})}]})
        self.add_fn("map_int", ["xs", "f"], [TList(INT), TFn([INT], INT)], TList(INT),
                    {"k": "when", "s": V("xs"), "cs": [
                        {"p": {"p": "list", "ps": [], "tail": "none"}, "b": {"k": "list", "es": []}},
                        {"p": {"p": "list", "ps": [{"p": "var", "x": "h"}], "tail": "var", "x": "t"},
                         "b": {"k": "list", "es": [{"k": "apply", "f": V("f"), "args": [V("h")]}], "tail": call("map_int", V("t"), V("f"))}}]})
        self.add_fn("twice", ["f", "x"], [TFn([INT], INT), INT], INT,
                    {"k": "apply", "f": V("f"), "args": [{"k": "apply", "f": V("f"), "args": [V("x")]}]})
        self.add_fn("tree_sum", ["t"], [TAdt("Tree")], INT,
                    {"k": "when", "s": V("t"), "cs": [
                        {"p": {"p": "con", "ty": "Tree", "i": 0, "args": []}, "b": I(0)},
                        {"p": {"p": "con", "ty": "Tree", "i": 1, "args": [{"p": "var", "x": "l"}, {"p": "var", "x": "n"}, {"p": "var", "x": "r"}]},
                         "b": {"k": "binop", "op": "+", "l": {"k": "binop", "op": "+", "l": call("tree_sum", V("l")), "r": V("n")},
                               "r": call("tree_sum", V("r"))}}]})
        self.add_fn("tree_insert", ["t", "x"], [TAdt("Tree"), INT], TAdt("Tree"),
                    {"k": "when", "s": V("t"), "cs": [
                        {"p": {"p": "con", "ty": "Tree", "i": 0, "args": []},
                         "b": {"k": "con", "ty": "Tree", "i": 1, "args": [{"k": "con", "ty": "Tree", "i": 0, "args": []}, V("x"),
                                                                          {"k": "con", "ty": "Tree", "i": 0, "args": []}]}},
                        {"p": {"p": "con", "ty": "Tree", "i": 1, "args": [{"p": "var", "x": "l"}, {"p": "var", "x": "n"}, {"p": "var", "x": "r"}]},
                         "b": {"k": "if", "c": {"k": "binop", "op": "<", "l": V("x"), "r": V("n")},
                               "t": {"k": "con", "ty": "Tree", "i": 1, "args": [call("tree_insert", V("l"), V("x")), V("n"), V("r")]},
                               "e": {"k": "con", "ty": "Tree", "i": 1, "args": [V("l"), V("n"), call("tree_insert", V("r"), V("x"))]}}}]})
        self.add_fn("is_even", ["n"], [INT], BOOL,
                    {"k": "if", "c": {"k": "binop", "op": "<=", "l": V("n"), "r": I(0)}, "t": {"k": "bool", "b": True},
                     "e": call("is_odd", {"k": "binop", "op": "-", "l": V("n"), "r": I(1)})})
        self.add_fn("is_odd", ["n"], [INT], BOOL,
                    {"k": "if", "c": {"k": "binop", "op": "<=", "l": V("n"), "r": I(0)}, "t": {"k": "bool", "b": False},
                     "e": call("is_even", {"k": "binop", "op": "-", "l": V("n"), "r": I(1)})})
        # functions that RETURN closures after a let that may abort: the binding must run when the maker is called,
        # whether or not the closure is ever applied
        self.add_fn("guard_pos", ["n"], [INT], INT,
                    {"k": "if", "c": {"k": "binop", "op": ">", "l": V("n"), "r": I(0)}, "t": V("n"), "e": {"k": "fail"}})
        self.add_fn("make_adder", ["n"], [INT], TFn([INT], INT),
                    {"k": "let", "x": "x", "ty": INT, "e": call("guard_pos", V("n")),
                     "body": {"k": "fn", "ps": ["b"], "pts": [INT], "ret": INT, "body": {"k": "binop", "op": "+", "l": V("x"), "r": V("b")}}})
        self.add_fn("make_scaler", ["n", "k"], [INT, INT], TFn([INT], INT),
                    {"k": "let", "x": "x", "ty": INT, "e": {"k": "binop", "op": "/", "l": V("k"), "r": V("n")},
                     "body": {"k": "fn", "ps": ["b"], "pts": [INT], "ret": INT, "body": {"k": "binop", "op": "*", "l": V("x"), "r": V("b")}}})
        self.add_fn("apply2", ["f", "a", "b"], [TFn([INT, INT], INT), INT, INT], INT,
                    {"k": "apply", "f": V("f"), "args": [V("a"), V("b")]})
        self.add_fn("ssum", ["k", "n"], [INT, INT], INT,
                    {"k": "if", "c": {"k": "binop", "op": "<=", "l": V("n"), "r": I(0)}, "t": I(0),
                     "e": {"k": "binop", "op": "+", "l": {"k": "binop", "op": "+", "l": V("k"), "r": call("ssum", V("k"), {"k": "binop", "op": "-", "l": V("n"), "r": I(1)})},
                           "r": call("apply2", {"k": "fnref", "f": "ssum"}, V("k"), I(0))}})
        self.add_fn("unbox", ["b"], [TAdt("Box", INT)], INT,
                    {"k": "letp", "p": {"p": "con", "ty": "Box", "i": 0, "args": [{"p": "var", "x": "inner"}]}, "e": V("b"), "body": V("inner")})
        self.add_fn("or_else", ["o", "d"], [TOption(INT), INT], INT,
                    {"k": "when", "s": V("o"), "cs": [
                        {"p": {"p": "con", "ty": "Option", "i": 0, "args": [{"p": "var", "x": "x"}]}, "b": V("x")},
                        {"p": {"p": "con", "ty": "Option", "i": 1, "args": []}, "b": V("d")}]})

    def add_fn(self, name, ps, pts, ret, body):
        self.fns[name] = {"ps": ps, "pts": pts, "ret": ret, "body": body}
        self.order.append(name)

    def callable_fns(self, ret):
        return [n for n in self.order if teq(self.fns[n]["ret"], ret)]

    # ---- expressions
    def lit(self, ty):
        r = self.r
        t = ty["t"]
        if t == "Int":
            return {"k": "int", "n": r.choice([0, 1, 2, 3, 5, 7, 10, 255, r.randint(0, 30)])}
        if t == "Bool":
            return {"k": "bool", "b": r.random() < 0.5}
        if t == "ByteArray":
            return {"k": "bytes", "bs": [r.randint(0, 255) for _ in range(r.choice([0, 1, 2, 4]))]}
        if t == "String":
            return {"k": "str", "cs": r.choice([[], [97], [97, 98], [104, 105, 33], [32], [97, 34, 98]])}
        if t == "Void":
            return {"k": "void"}
        if t == "List":
            return {"k": "list", "es": [self.lit(ty["e"]) for _ in range(r.choice([0, 1, 2]))]}
        if t == "Tuple":
            return {"k": "tuple", "es": [self.lit(e) for e in ty["es"]]}
        if t == "Pair":
            return {"k": "pair", "a": self.lit(ty["a"]), "b": self.lit(ty["b"])}
        if t == "adt":
            d = TYPES[ty["n"]]
            cis = [i for i in range(len(d["cs"])) if not any(teq(f, TAdt(ty["n"])) for f in d["cs"][i]["fs"])]
            ci = r.choice(cis)
            return {"k": "con", "ty": ty["n"], "i": ci, "args": [self.lit(f) for f in field_types(ty, ci)]}
        if t == "Data":
            ty2 = r.choice([INT, BYTES, TList(INT), TAdt("Color"), TTuple(INT, BOOL)])
            return {"k": "todata", "ty": ty2, "e": self.lit(ty2)}
        if t == "fn":
            ps = [self.fresh("a") for _ in ty["args"]]
            return {"k": "fn", "ps": ps, "pts": ty["args"], "ret": ty["ret"], "body": self.lit(ty["ret"])}
        raise ValueError(ty)

    def gen_na(self, ty, env, fuel):
        """like gen, but the node itself is not a bare fail/todo (positions where the checker needs the type)"""
        save = self.abort_rate
        self.abort_rate = 0.0
        try:
            for _ in range(20):
                e = self.gen1(ty, env, fuel, False)
                if not self.untyped(e):
                    return e
            return self.lit(ty)
        finally:
            self.abort_rate = save

    def untyped(self, e):
        k = e["k"]
        if k in ("fail", "todo"):
            return True
        if k == "if":
            return self.untyped(e["t"]) and self.untyped(e["e"])
        if k == "when":
            return all(self.untyped(c["b"]) for c in e["cs"])
        if k in ("let", "letu", "letp", "expect", "cast", "trace"):
            return self.untyped(e["body"])
        return False

    def gen(self, ty, env, fuel, tail=False):
        return self.gen1(ty, env, fuel, tail)

    def gent(self, ty, env, fuel):
        """a position that is rendered as the last statement of a block (fail / todo allowed)"""
        return self.gen1(ty, env, fuel, True)

    def gen1(self, ty, env, fuel, tail=False):
        """env: list of (name, type), innermost last"""
        r = self.r
        if fuel <= 0:
            vs = [n for n, t in env if teq(t, ty)]
            if vs and r.random() < 0.7:
                return {"k": "var", "x": r.choice(vs)}
            return self.lit(ty)
        c = r.random()
        t = ty["t"]
        if tail and c < self.abort_rate * 3 and t != "fn":
            return {"k": r.choice(["fail", "fail", "todo"]), "ty": ty}
        # statements / control, any type
        if c < 0.10:
            vs = [n for n, t2 in env if teq(t2, ty)]
            if vs:
                return {"k": "var", "x": r.choice(vs)}
        if c < 0.22 and t != "fn":
            return self.gen_let(ty, env, fuel)
        if c < 0.32:
            return {"k": "if", "c": self.gen(BOOL, env, fuel // 3), "t": self.gent(ty, env, fuel // 2), "e": self.gent(ty, env, fuel // 2)}
        if c < 0.46 and t != "fn":
            return self.gen_when(ty, env, fuel)
        if c < 0.46 + self.trace_rate and t != "fn":
            return {"k": "trace", "msg": r.choice(["here", "x", "branch taken"]), "body": self.gent(ty, env, fuel - 1)}
        if c < 0.62:
            fs = self.callable_fns(ty)
            if fs:
                f = r.choice(fs)
                args = [self.gen(pt, env, fuel // (len(self.fns[f]["pts"]) + 1)) for pt in self.fns[f]["pts"]]
                return {"k": "call", "f": f, "args": args, "pipe": r.random() < 0.3 and len(args) >= 1}
        if c < 0.66 and t != "fn":     # immediately applied lambda / function value
            at = r.choice([INT, BOOL, TList(INT), TAdt("Point")])
            x = self.fresh("a")
            fn = {"k": "fn", "ps": [x], "pts": [at], "ret": ty, "body": self.gent(ty, env + [(x, at)], fuel // 2)}
            f = self.fresh("f")
            return {"k": "let", "x": f, "ty": TFn([at], ty), "e": fn,
                    "body": {"k": "apply", "f": {"k": "var", "x": f}, "args": [self.gen(at, env, fuel // 3)]}}
        return self.gen_typed(ty, env, fuel)

    def gen_typed(self, ty, env, fuel):
        r = self.r
        t = ty["t"]
        c = r.random()
        if t == "Int":
            if c < 0.45:
                op = r.choice(["+", "-", "+", "-", "*", "/", "%"])
                l = self.gen(INT, env, fuel // 2)
                rr = self.gen(INT, env, fuel // 2)
                if op == "*":
                    rr = {"k": "int", "n": r.choice([0, 1, 2, 3])}
                if op in ("/", "%") and r.random() < 0.8:
                    rr = {"k": "int", "n": r.choice([1, 2, 3, 5, 7])} if r.random() < 0.7 else {"k": "neg", "e": {"k": "int", "n": r.choice([1, 2, 3])}}
                return {"k": "binop", "op": op, "l": l, "r": rr}
            if c < 0.47:
                return {"k": "bcall", "f": "length_of_bytearray", "args": [self.gen(BYTES, env, fuel // 2)]} if r.random() < 0.6 else \
                    {"k": "bcall", "f": "index_bytearray", "args": [self.gen(BYTES, env, fuel // 2), {"k": "int", "n": r.choice([0, 0, 1, 2])}]}
            if c < 0.5:
                return {"k": "neg", "e": self.gen(INT, env, fuel - 1)}
            if c < 0.6:
                return {"k": "field", "e": self.gen_na(TAdt("Point"), env, fuel // 2), "i": r.choice([1, 2]), "ty": TAdt("Point")}
            if c < 0.7:
                tt = TTuple(INT, BOOL)
                return {"k": "tupidx", "e": self.gen_na(tt, env, fuel // 2), "i": 1, "ty": tt}
            if c < 0.78:
                tt = TPair(INT, BYTES)
                return {"k": "tupidx", "e": self.gen_na(tt, env, fuel // 2), "i": 1, "ty": tt}
            return self.lit(ty) if r.random() < 0.5 else self.gen(ty, env, fuel // 2)
        if t == "Bool" and c < 0.06:
            return {"k": "bcall", "f": r.choice(["less_than_bytearray", "less_than_equals_bytearray"]), "args": [self.gen(BYTES, env, fuel // 2), self.gen(BYTES, env, fuel // 2)]}
        if t == "Bool":
            if c < 0.3:
                return {"k": "binop", "op": r.choice(["<", "<=", ">", ">=", "==", "!="]), "l": self.gen(INT, env, fuel // 2),
                        "r": self.gen(INT, env, fuel // 2)}
            if c < 0.45:
                et = r.choice([BOOL, BYTES, TAdt("Color"), TList(INT), TOption(INT), TAdt("Point"), TTuple(INT, BOOL), TAdt("Shape"), DATA,
                               TPair(INT, BYTES), TAdt("Tree"), STRING, TAdt("Named"), TList(STRING)])
                return {"k": "binop", "op": r.choice(["==", "!="]), "l": self.gen_na(et, env, fuel // 2), "r": self.gen_na(et, env, fuel // 2), "ety": et}
            if c < 0.65:
                return {"k": "binop", "op": r.choice(["&&", "||"]), "l": self.gen(BOOL, env, fuel // 2), "r": self.gen(BOOL, env, fuel // 2)}
            if c < 0.72:
                return {"k": "not", "e": self.gen(BOOL, env, fuel - 1)}
            if c < 0.8:
                return {"k": r.choice(["and", "or"]), "es": [self.gen(BOOL, env, fuel // 3) for _ in range(r.choice([2, 3]))]}
            if c < 0.85:
                return {"k": "traceif", "e": self.gen(BOOL, env, fuel - 1)}
            return self.lit(ty)
        if t == "List":
            if c < 0.35:
                es = [self.gen(ty["e"], env, fuel // 3) for _ in range(r.choice([0, 1, 2, 3]))]
                e = {"k": "list", "es": es}
                if es and r.random() < 0.4:
                    e["tail"] = self.gen(ty, env, fuel // 3)
                return e
            if c < 0.5 and teq(ty["e"], INT):
                x = self.fresh("a")
                fn = {"k": "fn", "ps": [x], "pts": [INT], "ret": INT, "body": self.gent(INT, env + [(x, INT)], fuel // 3)}
                if r.random() < 0.4:
                    fn = self.gen(TFn([INT], INT), env, fuel // 3)
                return {"k": "call", "f": "map_int", "args": [self.gen(ty, env, fuel // 2), fn], "pipe": r.random() < 0.4}
            return self.lit(ty) if r.random() < 0.4 else self.gen(ty, env, fuel // 2)
        if t == "Tuple":
            if c < 0.6:
                return {"k": "tuple", "es": [self.gen(e, env, fuel // len(ty["es"])) for e in ty["es"]]}
            return self.lit(ty)
        if t == "Pair":
            if c < 0.6:
                return {"k": "pair", "a": self.gen(ty["a"], env, fuel // 2), "b": self.gen(ty["b"], env, fuel // 2)}
            return self.lit(ty)
        if t == "adt":
            d = TYPES[ty["n"]]
            if c < 0.15 and len(d["cs"]) == 1 and d["cs"][0]["ls"]:
                n = len(d["cs"][0]["fs"])
                ixs = sorted(r.sample(range(1, n + 1), r.randint(1, n)))
                fts = field_types(ty, 0)
                return {"k": "update", "ty": ty, "e": self.gen_na(ty, env, fuel // 2), "ixs": ixs,
                        "vals": [self.gen(fts[i - 1], env, fuel // 3) for i in ixs]}
            if c < 0.75:
                ci = r.randrange(len(d["cs"]))
                if fuel < 3:
                    cis = [i for i in range(len(d["cs"])) if not any(teq(f, TAdt(ty["n"])) for f in d["cs"][i]["fs"])]
                    ci = r.choice(cis)
                fts = field_types(ty, ci)
                return {"k": "con", "ty": ty["n"], "i": ci, "args": [self.gen(f, env, fuel // (len(fts) + 1)) for f in fts]}
            return self.lit(ty)
        if t == "String":
            if c < 0.3:
                return {"k": "bcall", "f": "append_string", "args": [self.gen(STRING, env, fuel // 2), self.gen(STRING, env, fuel // 2)]}
            if c < 0.45:
                return {"k": "field", "e": self.gen_na(TAdt("Named"), env, fuel // 2), "i": 1, "ty": TAdt("Named")}
            if c < 0.55:
                tt = TTuple(STRING, INT)
                return {"k": "tupidx", "e": self.gen_na(tt, env, fuel // 2), "i": 1, "ty": tt}
            return self.lit(ty) if r.random() < 0.6 else self.gen(ty, env, fuel // 2)
        if t == "ByteArray" and c >= 0.92:
            return {"k": "bcall", "f": "encode_utf8", "args": [self.gen(STRING, env, fuel // 2)]}
        if t == "ByteArray":
            if c < 0.22:
                return {"k": "bcall", "f": "append_bytearray", "args": [self.gen(BYTES, env, fuel // 2), self.gen(BYTES, env, fuel // 2)]}
            if c < 0.30:
                return {"k": "bcall", "f": "cons_bytearray", "args": [{"k": "int", "n": r.choice([0, 65, 255, 255, 256])}, self.gen(BYTES, env, fuel // 2)]}
            if c < 0.40:
                return {"k": "bcall", "f": "slice_bytearray", "args": [{"k": "int", "n": r.choice([0, 1, 2])}, {"k": "int", "n": r.choice([0, 1, 5])}, self.gen(BYTES, env, fuel // 2)]}
            return self.lit(ty) if r.random() < 0.6 else self.gen(ty, env, fuel // 2)
        if t == "Data":
            ty2 = r.choice([t2 for t2 in ser_pool() if t2["t"] not in ("Data",)])
            return {"k": "todata", "ty": ty2, "e": self.gen(ty2, env, fuel - 1)}
        if t == "fn":
            makers = self.callable_fns(ty)
            if makers and r.random() < 0.5:
                f = r.choice(makers)
                return {"k": "call", "f": f, "args": [self.gen(pt, env, fuel // 3) for pt in self.fns[f]["pts"]]}
            ps = [self.fresh("a") for _ in ty["args"]]
            return {"k": "fn", "ps": ps, "pts": ty["args"], "ret": ty["ret"],
                    "body": self.gent(ty["ret"], env + list(zip(ps, ty["args"])), fuel // 2)}
        return self.lit(ty)

    def gen_let(self, ty, env, fuel):
        r = self.r
        c = r.random()
        if c < 0.5:
            xt = r.choice([INT, BOOL, TList(INT), TAdt("Point"), TOption(INT), TAdt("Shape"), TTuple(INT, BOOL), BYTES, STRING, TAdt("Named")])
            x = self.fresh("x")
            e1 = self.gen(xt, env, fuel // 2)
            body = self.gent(ty, env + [(x, xt)], fuel // 2)
            if x in free_vars(body):
                return {"k": "let", "x": x, "ty": xt, "e": e1, "body": body}
            return {"k": "letu", "x": x, "ty": xt, "e": e1, "body": body}
        if c < 0.62:    # irrefutable destructuring
            xt = r.choice([TAdt("Point"), TTuple(INT, BOOL), TPair(INT, BYTES), TAdt("Box", INT)])
            p, binds = self.pattern_full(xt)
            body = self.gent(ty, env + binds, fuel // 2)
            used = free_vars(body) & set(n for n, _ in binds)
            if used:
                return {"k": "letp", "p": p, "ty": xt, "e": self.gen(xt, env, fuel // 2), "body": body}
            return body
        if c < 0.82:    # expect: refutable pattern, aborts on mismatch
            xt = r.choice([TOption(INT), TList(INT), TAdt("Shape"), TAdt("Either", INT, BOOL), TAdt("Tree")])
            p, binds = self.pattern_refutable(xt)
            body = self.gent(ty, env + binds, fuel // 2)
            return {"k": "expect", "p": p, "ty": xt, "e": self.gen(xt, env, fuel // 2), "body": body}
        # cast from Data
        xt = r.choice([INT, BYTES, TList(INT), TAdt("Color"), TAdt("Point"), TOption(INT), TTuple(INT, BOOL), TAdt("Shape"), BOOL,
                       TList(TPair(INT, INT)), TPair(INT, BYTES), TAdt("Tree"), TAdt("Acct"), TAdt("Named"), TList(STRING), TTuple(STRING, INT)])
        x = self.fresh("c")
        if r.random() < 0.8:
            src_ty = xt if r.random() < 0.8 else r.choice([INT, TList(INT), TAdt("Shape"), TTuple(INT, BOOL)])
            de = {"k": "todata", "ty": src_ty, "e": self.gen(src_ty, env, fuel // 2)}
        else:
            de = self.gen_na(DATA, env, fuel // 2)
        body = self.gent(ty, env + [(x, xt)], fuel // 2)
        if x not in free_vars(body):
            body2 = body
        else:
            body2 = body
        return {"k": "cast", "x": x, "ty": xt, "e": de, "body": body2}

    # patterns that always match a value of the type, binding every component
    def pattern_full(self, ty):
        t = ty["t"]
        if t == "adt":
            fts = field_types(ty, 0)
            names = [self.fresh("p") for _ in fts]
            return ({"p": "con", "ty": ty["n"], "i": 0, "args": [{"p": "var", "x": n} for n in names]}, list(zip(names, fts)))
        if t == "Tuple":
            names = [self.fresh("p") for _ in ty["es"]]
            return ({"p": "tuple", "ps": [{"p": "var", "x": n} for n in names]}, list(zip(names, ty["es"])))
        if t == "Pair":
            a, b = self.fresh("p"), self.fresh("p")
            return ({"p": "pair", "a": {"p": "var", "x": a}, "b": {"p": "var", "x": b}}, [(a, ty["a"]), (b, ty["b"])])
        raise ValueError(ty)

    def pattern_refutable(self, ty):
        r = self.r
        t = ty["t"]
        if t == "List":
            k = r.choice([1, 1, 2])
            names = [self.fresh("p") for _ in range(k)]
            tail = r.choice(["none", "discard", "var"])
            p = {"p": "list", "ps": [{"p": "var", "x": n} for n in names], "tail": tail}
            binds = [(n, ty["e"]) for n in names]
            if tail == "var":
                p["x"] = self.fresh("p")
                binds.append((p["x"], ty))
            return p, binds
        d = TYPES[ty["n"]]
        ci = r.randrange(len(d["cs"]))
        fts = field_types(ty, ci)
        names = [self.fresh("p") for _ in fts]
        return ({"p": "con", "ty": ty["n"], "i": ci, "args": [{"p": "var", "x": n} for n in names]}, list(zip(names, fts)))

    # random pattern for `when`; returns (pattern, bindings)
    def pattern(self, ty, depth):
        r = self.r
        t = ty["t"]
        c = r.random()
        if depth <= 0 or c < 0.25:
            if r.random() < 0.5:
                return {"p": "discard"}, []
            x = self.fresh("p")
            return {"p": "var", "x": x}, [(x, ty)]
        if t == "Int":
            return {"p": "int", "n": r.choice([0, 1, 2, 3, 7])}, []
        if t == "Bool":
            return {"p": "bool", "b": r.random() < 0.5}, []
        if t == "ByteArray":
            return {"p": "bytes", "bs": r.choice([[], [0], [255, 1]])}, []
        if t == "List":
            k = r.choice([0, 1, 1, 2])
            subs = [self.pattern(ty["e"], depth - 1) for _ in range(k)]
            tail = r.choice(["none", "discard", "var"]) if k > 0 else "none"
            p = {"p": "list", "ps": [s[0] for s in subs], "tail": tail}
            binds = [b for s in subs for b in s[1]]
            if tail == "var":
                p["x"] = self.fresh("p")
                binds.append((p["x"], ty))
            return p, binds
        if t == "Tuple":
            subs = [self.pattern(e, depth - 1) for e in ty["es"]]
            return {"p": "tuple", "ps": [s[0] for s in subs]}, [b for s in subs for b in s[1]]
        if t == "Pair":
            a, b = self.pattern(ty["a"], depth - 1), self.pattern(ty["b"], depth - 1)
            return {"p": "pair", "a": a[0], "b": b[0]}, a[1] + b[1]
        if t == "adt":
            d = TYPES[ty["n"]]
            ci = r.randrange(len(d["cs"]))
            fts = field_types(ty, ci)
            subs = [self.pattern(f, depth - 1) for f in fts]
            p = {"p": "con", "ty": ty["n"], "i": ci, "args": [s[0] for s in subs]}
            binds = [b for s in subs for b in s[1]]
            if r.random() < 0.15:
                x = self.fresh("p")
                return {"p": "as", "q": p, "x": x}, binds + [(x, ty)]
            return p, binds
        x = self.fresh("p")
        return {"p": "var", "x": x}, [(x, ty)]

    def gen_when(self, ty, env, fuel):
        r = self.r
        st = r.choice([INT, BOOL, TList(INT), TOption(INT), TAdt("Color"), TAdt("Shape"), TAdt("Point"), TTuple(INT, BOOL),
                       TAdt("Either", INT, BOOL), TAdt("Tree"), TPair(INT, BYTES), TOption(TAdt("Shape")), TList(TAdt("Color")), BYTES,
                       TTuple(TAdt("Color"), TOption(INT))])
        scrut = self.gen_na(st, env, fuel // 3)
        clauses = []
        seen = set()
        import json as _j
        if st["t"] == "adt" and r.random() < 0.4:       # one clause per constructor, no wildcard
            d = TYPES[st["n"]]
            order = list(range(len(d["cs"])))
            r.shuffle(order)
            for ci in order:
                fts = field_types(st, ci)
                names = [self.fresh("p") for _ in fts]
                args = [{"p": "var", "x": n} if r.random() < 0.8 else {"p": "discard"} for n in names]
                binds = [(n, ft) for n, ft, a in zip(names, fts, args) if a["p"] == "var"]
                clauses.append({"p": {"p": "con", "ty": st["n"], "i": ci, "args": args},
                                "b": self.gent(ty, env + binds, fuel // (len(order) + 1))})
            return {"k": "when", "s": scrut, "sty": st, "cs": clauses}
        uni = universe(st, 3 if st["t"] in ("List",) else 2)
        left = list(range(len(uni)))
        for _ in range(r.choice([1, 2, 3])):
            p, binds = self.pattern(st, 2)
            hit = set(i for i in left if pmatch(p, uni[i]))
            if not hit or p["p"] in ("discard", "var"):
                continue        # would be redundant
            left = [i for i in left if i not in hit]
            clauses.append({"p": p, "b": self.gent(ty, env + binds, fuel // 4)})
            if not left:
                break
        # catch-all keeps the match exhaustive (only when something is left to catch)
        if left or not clauses:
            if r.random() < 0.5:
                x = self.fresh("p")
                clauses.append({"p": {"p": "var", "x": x}, "b": self.gent(ty, env + [(x, st)], fuel // 4)})
            else:
                clauses.append({"p": {"p": "discard"}, "b": self.gent(ty, env, fuel // 4)})
        return {"k": "when", "s": scrut, "sty": st, "cs": clauses}


# ---- finite value universe + matching (python mirror of Aiken.tla Match; generator-side only) ----
def universe(ty, depth):
    import itertools
    t = ty["t"]
    if t == "Int":
        return [{"v": "int", "n": n} for n in (99, 0, 1, 2, 3, 7)]
    if t == "Bool":
        return [{"v": "bool", "b": True}, {"v": "bool", "b": False}]
    if t == "ByteArray":
        return [{"v": "bytes", "bs": b} for b in ([9, 9, 9], [], [0], [255, 1])]
    if t == "String":
        return [{"v": "str", "cs": c} for c in ([], [97])]
    if t in ("Void", "Data"):
        return [{"v": "void"}]
    if t == "List":
        if depth <= 0:
            return [{"v": "list", "xs": []}]
        es = universe(ty["e"], depth - 1)[:4]
        out = [{"v": "list", "xs": []}] + [{"v": "list", "xs": [a]} for a in es]
        out += [{"v": "list", "xs": [a, b]} for a in es for b in es] + [{"v": "list", "xs": [a, b, a]} for a in es[:2] for b in es[:2]]
        return out
    if t == "Tuple":
        return [{"v": "tuple", "xs": list(c)} for c in itertools.product(*[universe(e, depth - 1)[:14] for e in ty["es"]])]
    if t == "Pair":
        return [{"v": "pair", "a": a, "b": b} for a in universe(ty["a"], depth - 1)[:14] for b in universe(ty["b"], depth - 1)[:14]]
    if t == "adt":
        out = []
        for ci, c in enumerate(TYPES[ty["n"]]["cs"]):
            fts = field_types(ty, ci)
            if depth <= 0 and any(teq(f, ty) for f in fts):
                continue
            pools = [universe(f, depth - 1)[:7] for f in fts]
            for combo in itertools.product(*pools):
                out.append({"v": "con", "ty": ty["n"], "i": ci, "fs": list(combo)})
        return out
    return []


def pmatch(p, v):
    k = p["p"]
    if k in ("discard", "var"):
        return True
    if k == "as":
        return pmatch(p["q"], v)
    if k == "int":
        return v["n"] == p["n"]
    if k == "bytes":
        return v["bs"] == p["bs"]
    if k == "bool":
        return v["b"] == p["b"]
    if k == "con":
        return v["i"] == p["i"] and all(pmatch(a, x) for a, x in zip(p["args"], v["fs"]))
    if k == "tuple":
        return all(pmatch(a, x) for a, x in zip(p["ps"], v["xs"]))
    if k == "pair":
        return pmatch(p["a"], v["a"]) and pmatch(p["b"], v["b"])
    if k == "list":
        n = len(p["ps"])
        if p["tail"] == "none":
            return len(v["xs"]) == n and all(pmatch(a, x) for a, x in zip(p["ps"], v["xs"]))
        return len(v["xs"]) >= n and all(pmatch(a, x) for a, x in zip(p["ps"], v["xs"]))
    if k == "alt":
        return any(pmatch(a, v) for a in p["ps"])
    raise ValueError(k)


def strip_names(p):
    if isinstance(p, dict):
        return {k: strip_names(v) for k, v in p.items() if k != "x" or p.get("p") not in ("var", "as", "list")}
    if isinstance(p, list):
        return [strip_names(x) for x in p]
    return p


def gen_module(rng, fuel=24, n_helpers=2):
    """returns dict(module=<spec module>, entry, sig, ret, src-ready fns)"""
    g = G(rng)
    g.library()
    pool = [t for t in ser_pool() if t["t"] != "Void"]
    for i in range(n_helpers):
        pts = [rng.choice([INT, BOOL, TList(INT), TAdt("Point"), TOption(INT), TAdt("Shape")]) for _ in range(rng.choice([1, 2]))]
        ps = ["h%d_%d" % (i, j) for j in range(len(pts))]
        ret = rng.choice([INT, BOOL, TList(INT), TAdt("Shape"), TOption(INT)])
        body = g.gent(ret, list(zip(ps, pts)), fuel // 2)
        g.add_fn("helper%d" % i, ps, pts, ret, body)
    sig = [rng.choice(pool) for _ in range(rng.choice([1, 2, 2, 3]))]
    ps = ["arg%d" % i for i in range(len(sig))]
    ret = rng.choice([t for t in pool if t["t"] != "Data"] + [INT, BOOL])
    body = g.gen_na(ret, list(zip(ps, sig)), fuel)
    g.add_fn("entry", ps, sig, DATA, {"k": "todata", "ty": ret, "e": body})
    return g, sig, ret


# --------------------------------------------------------------------------- renderer
def hexs(bs):
    return "".join("%02x" % b for b in bs)


def render_pat(p):
    k = p["p"]
    if k == "discard":
        return p.get("name", "_")
    if k == "var":
        return p["x"]
    if k == "as":
        return "%s as %s" % (render_pat(p["q"]), p["x"])
    if k == "int":
        return str(p["n"])
    if k == "bytes":
        return '#"%s"' % hexs(p["bs"])
    if k == "bool":
        return "True" if p["b"] else "False"
    if k == "con":
        c = TYPES[p["ty"]]["cs"][p["i"]]
        if not p["args"]:
            return c["n"]
        if c["ls"] and p.get("labelled", True):
            return "%s { %s }" % (c["n"], ", ".join("%s: %s" % (l, render_pat(a)) for l, a in zip(c["ls"], p["args"])))
        return "%s(%s)" % (c["n"], ", ".join(render_pat(a) for a in p["args"]))
    if k == "tuple":
        return "(%s)" % ", ".join(render_pat(a) for a in p["ps"])
    if k == "pair":
        return "Pair(%s, %s)" % (render_pat(p["a"]), render_pat(p["b"]))
    if k == "list":
        items = [render_pat(a) for a in p["ps"]]
        if p["tail"] == "discard":
            items.append("..")
        elif p["tail"] == "var":
            items.append(".." + p["x"])
        return "[%s]" % ", ".join(items)
    if k == "alt":
        return " | ".join(render_pat(a) for a in p["ps"])
    raise ValueError(k)


ORD = ["1st", "2nd", "3rd", "4th"]


def is_block(e):
    if e["k"] == "todata" and e.get("implicit"):
        return False
    return e["k"] in ("let", "letu", "letp", "expect", "cast", "trace", "todata")


def render(e, ind=1):
    """expression -> source text usable in any expression position (blocks are wrapped in braces)"""
    pad = "  " * ind
    k = e["k"]
    if is_block(e):
        return "{\n" + render_stmts(e, ind + 1) + "\n" + pad + "}"
    if k == "todata":          # implicit upcast: the type checker inserts it
        return render(e["e"], ind)
    if k == "int":
        return str(e["n"])
    if k == "bool":
        return "True" if e["b"] else "False"
    if k == "bytes":
        return '#"%s"' % hexs(e["bs"])
    if k == "str":
        return '@"%s"' % "".join("\\\"" if c == 34 else "\\\\" if c == 92 else chr(c) for c in e["cs"])
    if k == "point":           # the multiple n of the generator of G1 / G2, for n in -1, 0, 1 (the compressed forms one knows by heart)
        return '#<Bls12_381, %s>"%s"' % (e["g"].upper(), POINTS[(e["g"], e["n"])])
    if k == "void":
        return "Void"
    if k == "var":
        return e["x"]
    if k == "neg":
        return "-(%s)" % render(e["e"], ind) if e["e"]["k"] != "int" else "-%d" % e["e"]["n"]
    if k == "not":
        return "!(%s)" % render(e["e"], ind)
    if k == "traceif":
        return "(%s)?" % render(e["e"], ind)
    if k == "binop":
        return "(%s %s %s)" % (render(e["l"], ind), e["op"], render(e["r"], ind))
    if k in ("and", "or"):
        return "%s {\n%s\n%s}" % (k, "\n".join("%s  %s," % (pad, render(x, ind + 1)) for x in e["es"]), pad)
    if k == "if":
        return "if %s {\n%s\n%s} else {\n%s\n%s}" % (render(e["c"], ind), render_stmts(e["t"], ind + 1), pad, render_stmts(e["e"], ind + 1), pad)
    if k == "when":
        cs = []
        for c in e["cs"]:
            cs.append("%s  %s -> {\n%s\n%s  }" % (pad, render_pat(c["p"]), render_stmts(c["b"], ind + 2), pad))
        return "when %s is {\n%s\n%s}" % (render(e["s"], ind), "\n".join(cs), pad)
    if k == "call":
        args = [render(a, ind) for a in e["args"]]
        if e.get("pipe") and args:
            return "(%s |> %s(%s))" % (args[0], e["f"], ", ".join(args[1:]))
        return "%s(%s)" % (e["f"], ", ".join(args))
    if k == "bcall":
        return "builtin.%s(%s)" % (e["f"], ", ".join(render(a, ind) for a in e["args"]))
    if k == "apply":
        f = render(e["f"], ind)
        if e["f"]["k"] != "var":
            f = "(%s)" % f
        return "%s(%s)" % (f, ", ".join(render(a, ind) for a in e["args"]))
    if k == "fn":
        ps = ", ".join("%s: %s" % (p, ty_str(t)) for p, t in zip(e["ps"], e["pts"]))
        return "fn(%s) -> %s {\n%s\n%s}" % (ps, ty_str(e["ret"]), render_stmts(e["body"], ind + 1), pad)
    if k == "fnref":
        return e["f"]
    if k == "list":
        items = [render(x, ind) for x in e["es"]]
        if "tail" in e:
            items.append(".." + render(e["tail"], ind))
        return "[%s]" % ", ".join(items)
    if k == "tuple":
        return "(%s)" % ", ".join(render(x, ind) for x in e["es"])
    if k == "pair":
        return "Pair(%s, %s)" % (render(e["a"], ind), render(e["b"], ind))
    if k == "con":
        c = TYPES[e["ty"]]["cs"][e["i"]]
        if not e["args"]:
            return c["n"]
        if c["ls"] and e.get("labelled", True):
            return "%s { %s }" % (c["n"], ", ".join("%s: %s" % (l, render(a, ind)) for l, a in zip(c["ls"], e["args"])))
        return "%s(%s)" % (c["n"], ", ".join(render(a, ind) for a in e["args"]))
    if k == "field":
        c = TYPES[e["ty"]["n"]]["cs"][0]
        inner = render(e["e"], ind)
        return "%s.%s" % (inner if e["e"]["k"] in ("var",) else "(%s)" % inner, c["ls"][e["i"] - 1])
    if k == "tupidx":
        inner = render(e["e"], ind)
        return "%s.%s" % (inner if e["e"]["k"] in ("var",) else "(%s)" % inner, ORD[e["i"] - 1])
    if k == "update":
        c = TYPES[e["ty"]["n"]]["cs"][0]
        return "%s { ..%s, %s }" % (c["n"], render(e["e"], ind) if e["e"]["k"] == "var" else "(%s)" % render(e["e"], ind),
                                    ", ".join("%s: %s" % (c["ls"][i - 1], render(v, ind)) for i, v in zip(e["ixs"], e["vals"])))
    if k == "fail":
        return 'fail @"boom"'
    if k == "todo":
        return 'todo @"later"'
    raise ValueError(k)


def render_stmts(e, ind):
    """expression -> a sequence of statements (the body of a block)"""
    pad = "  " * ind
    k = e["k"]
    if k in ("let", "letu"):
        ann = ": %s" % ty_str(e["ty"]) if "ty" in e else ""
        return "%slet %s%s = %s\n%s" % (pad, e["x"], ann, render(e["e"], ind), render_stmts(e["body"], ind))
    if k == "letp":
        return "%slet %s = %s\n%s" % (pad, render_pat(e["p"]), render(e["e"], ind), render_stmts(e["body"], ind))
    if k == "expect":
        return "%sexpect %s = %s\n%s" % (pad, render_pat(e["p"]), render(e["e"], ind), render_stmts(e["body"], ind))
    if k == "cast":
        return "%sexpect %s: %s = %s\n%s" % (pad, e["x"], ty_str(e["ty"]), render(e["e"], ind), render_stmts(e["body"], ind))
    if k == "trace":
        targs = (": " + ", ".join(e["targs"])) if e.get("targs") else ""
        return '%strace @"%s"%s\n%s' % (pad, e["msg"], targs, render_stmts(e["body"], ind))
    if k == "todata" and e.get("implicit"):
        return pad + render(e["e"], ind)
    if k == "todata":
        return "%slet typed: %s = %s\n%slet as_data: Data = typed\n%sas_data" % (pad, ty_str(e["ty"]), render(e["e"], ind), pad, pad)
    return pad + render(e, ind)


def render_types(types=TYPES):
    out = []
    for n, d in types.items():
        if d.get("builtin"):
            continue
        ps = "<%s>" % ", ".join(d["ps"]) if d["ps"] else ""
        if d.get("type_list"):     # record encoded as a plain list
            c = d["cs"][0]
            out.append("@list\npub type %s%s {\n%s\n}\n" % (n, ps, "\n".join("  %s: %s," % (l, ty_str(f)) for l, f in zip(c["ls"], c["fs"]))))
            continue
        if d.get("type_tag"):      # record shorthand with the tag on the type
            c = d["cs"][0]
            out.append("@tag(%d)\npub type %s%s {\n%s\n}\n" % (c["tag"], n, ps, "\n".join("  %s: %s," % (l, ty_str(f)) for l, f in zip(c["ls"], c["fs"]))))
            continue
        cs = []
        for c in d["cs"]:
            if "tag" in c:
                cs.append("  @tag(%d)" % c["tag"])
            if not c["fs"]:
                cs.append("  " + c["n"])
            elif c["ls"]:
                cs.append("  %s { %s }" % (c["n"], ", ".join("%s: %s" % (l, ty_str(f)) for l, f in zip(c["ls"], c["fs"]))))
            else:
                cs.append("  %s(%s)" % (c["n"], ", ".join(ty_str(f) for f in c["fs"])))
        out.append("pub type %s%s {\n%s\n}\n" % (n, ps, "\n".join(cs)))
    return "\n".join(out)


def render_module(g):
    out = ["use aiken/builtin\n", render_types()]
    for n in g.order:
        f = g.fns[n]
        ps = ", ".join("%s: %s" % (p, ty_str(t)) for p, t in zip(f["ps"], f["pts"]))
        out.append("pub fn %s(%s) -> %s {\n%s\n}\n" % (n, ps, ty_str(f["ret"]), render_stmts(f["body"], 1)))
    return "\n".join(out)


def clean(e):
    """drop renderer-only annotations so that the spec sees only what it evaluates"""
    if isinstance(e, dict):
        drop = {"pipe", "labelled", "pts", "ret", "sty", "ety", "targs", "implicit", "name"}
        out = {}
        for k, v in e.items():
            if k in drop:
                continue
            if k == "ty" and e.get("k") in ("let", "letu", "letp", "expect", "field", "tupidx", "fail", "todo", "update"):
                continue
            out[k] = clean(v)
        return out
    if isinstance(e, list):
        return [clean(x) for x in e]
    return e


def spec_module(g):
    return {"types": spec_types(), "fns": {n: {"ps": g.fns[n]["ps"], "body": clean(g.fns[n]["body"])} for n in g.order}}
