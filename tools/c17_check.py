"""C17: parallel test runs are isolated and schedule-independent (RcRace.tla + audit hook)."""
import json, os, shutil, time, glob
import vlib
from vlib import log
from uplc_checks import cj

ACC = "/repo/examples/acceptance_tests"


def dep_free_projects():
    out = []
    for d in sorted(glob.glob(os.path.join(ACC, "*"))):
        t = os.path.join(d, "aiken.toml")
        if os.path.exists(t) and "dependencies" not in open(t).read():
            out.append(d)
    return out


def rcrace(shared, workers=("t1", "t2", "t3"), ops=2):
    d = vlib.workdir("cfg")
    p = os.path.join(d, "RcRace_%d.cfg" % len(shared))
    with open(p, "w") as f:
        f.write("SPECIFICATION Spec\nCONSTANTS\n  Workers = {%s}\n  Shared = {%s}\n  Ops = %d\nINVARIANTS CountsExact NoUseAfterFree\nCHECK_DEADLOCK FALSE\n"
                % (", ".join('"%s"' % w for w in workers), ", ".join('"%s"' % s for s in shared), ops))
    return vlib.tlc("RcRace", cfg=p, workers=4, timeout=900, xmx="4g", metaname="RcRace_%d" % len(shared))


def run_projects(roots, env=None):
    cases = [{"id": i, "root": r, "seed": 42, "max_success": 30} for i, r in enumerate(roots)]
    return vlib.run_harness("project_check", stdin_lines=cases, env=env, timeout=7200)


def c17(tier):
    t0 = time.time()
    rep = vlib.Reporter("C17")
    scratch = os.path.join(vlib.WORK, "c17_%d" % os.getpid())
    shutil.rmtree(scratch, ignore_errors=True)
    os.makedirs(scratch)
    srcs = [os.path.join(vlib.ROOT, "corpus", "c17_project")] + (dep_free_projects()[:20] if tier == "quick" else dep_free_projects())
    roots = []
    for i, s in enumerate(srcs):
        d = os.path.join(scratch, "p%d_%s" % (i, os.path.basename(s)))
        shutil.copytree(s, d, ignore=shutil.ignore_patterns("build", "plutus.json", "aiken.lock"))
        roots.append(d)
    # (1) the design: all interleavings of the two-step count updates
    r_ok = rcrace([])
    if not r_ok.ok:
        raise vlib.ToolError("RcRace with disjoint reach sets should hold: %s" % r_ok.out[-800:])
    r_bad = rcrace(["s"], workers=("t1", "t2"))
    if "CountsExact" not in " ".join(r_bad.invariant_violated) and "NoUseAfterFree" not in " ".join(r_bad.invariant_violated):
        raise vlib.ToolError("RcRace canary: a shared allocation must admit a corrupting schedule, TLC found none")
    # (2) the observed ownership graph, right before the tests are handed to rayon
    base = run_projects(roots)
    tests_total = allocs_total = 0
    audited = 0
    samples = []
    for root, o in zip(roots, base):
        name = os.path.basename(root)
        if isinstance(o["status"], dict) and "panic" in o["status"]:
            rep.violation("panic:" + name, {"project": name, "status": o["status"]}, "checking the project panicked: %s" % o["status"]["panic"][:200])
            continue
        for a in o["audits"]:
            audited += 1
            tests_total += a["tests"]
            allocs_total += a["allocations"]
            if a["assertions_left"]:
                rep.violation("assertion:" + name, {"project": name, "audit": a}, "%d unit tests still carry their (Rc-based, module-shared) assertion when handed to the parallel runner" % a["assertions_left"])
            if a["shared_count"] or a["external_count"]:
                trace = "\n".join(l for l in r_bad.out.splitlines() if l.startswith(("State", "/\\")))[:3000]
                rep.violation("sharing:" + name, {"project": name, "shared": a["shared"], "external": a["external"], "shared_count": a["shared_count"],
                                                 "external_count": a["external_count"], "corrupting_schedule_from_RcRace": trace},
                              "%d allocations are reachable from more than one test and %d are also held outside the tests: RcRace.tla has a schedule that corrupts such a count"
                              % (a["shared_count"], a["external_count"]))
        if len(samples) < 2 and o["audits"]:
            samples.append({"project": name, "audit": {k: o["audits"][0][k] for k in ("tests", "allocations", "shared_count", "external_count", "assertions_left")}})
    if audited < 5 or tests_total < 60:
        raise vlib.ToolError("C17 vacuity: %d audits over %d tests (is the hook still called?)" % (audited, tests_total))
    # (3) schedule independence of the results
    compared = 0
    for n in (["1", "2", "16"] if tier == "quick" else ["1", "2", "3", "8", "16"]):
        res = run_projects(roots, env={"RAYON_NUM_THREADS": n})
        for root, o0, o1 in zip(roots, base, res):
            compared += 1
            # the order across modules is the iteration order of a hash map (it differs between two runs on ONE thread as well) and every
            # reporter groups the results by module, sorted (telemetry::group_by_module): compare what the user sees - the results per
            # module, in the order they come
            view = lambda rs: sorted(((m, [r for r in rs if r.get("module") == m]) for m in set(r.get("module") for r in rs)), key=lambda x: str(x[0]))
            stat = lambda st: sorted(st["err"].split(" | ")) if isinstance(st, dict) and isinstance(st.get("err"), str) else st
            if cj(view(o0["results"])) != cj(view(o1["results"])) or cj(stat(o0["status"])) != cj(stat(o1["status"])):
                a, b = [r for _, rs in view(o0["results"]) for r in rs], [r for _, rs in view(o1["results"]) for r in rs]
                diff = next(((x, y) for x, y in zip(a, b) if cj(x) != cj(y)), (len(a), len(b)))
                rep.violation("schedule:" + os.path.basename(root) + n, {"project": os.path.basename(root), "threads": n, "first_difference": diff},
                              "running the tests on %s threads gives different results (or a different order) than the default run" % n)
    shutil.rmtree(scratch, ignore_errors=True)
    cov = {"states": r_ok.distinct + r_bad.distinct, "transitions": r_ok.generated + r_bad.generated,
           "traces_validated_against_impl": audited + compared, "samples": samples,
           "evaluations": audited + compared, "distinct_nontrivial": audited,
           "rule": "RcRace.tla: every interleaving of 3 workers x 2 two-step count updates, disjoint reach sets (holds) and one shared "
                   "allocation (TLC finds the lost update). Observed: the audit hook walks every Rc (term, name, constant, type) reachable "
                   "from every unit / property / benchmark program right before into_par_iter, records owners and strong counts; a project "
                   "is fine iff no allocation is reachable from two tests, none is also held outside the tests, and no unit test still "
                   "carries its assertion. Then the same projects under RAYON_NUM_THREADS 1/2/16: identical result sequences",
           "exhaustive": True, "projects": len(roots), "tests_audited": tests_total, "allocations_walked": allocs_total, "thread_count_comparisons": compared}
    rc = rep.finish()
    vlib.write_evidence("C17", tier, "model_checking", cov,
                        ["Rc<tipo::Type> held by a property test's Fuzzer (type_info) is not walked: it is only read after the parallel section",
                         "the schedule space is explored on the model, not by racing real threads"], time.time() - t0, len(rep.violations))
    return rc


def c17_replay(path):
    print(open(path).read()[:4000])
    return 0
