#!/usr/bin/env python3
"""Run checks against a seeded change in an ISOLATED copy (a scratch worktree of /repo plus a copy of
/verif whose harness points at it), so that /repo and /verif stay usable meanwhile.
usage: mutrun.py <patch.diff> <check id>... [--tier quick]
Prints one line per check: <id> exit=<rc> <first VIOLATION / KNOWN-FINDING / TOOL-ERROR line>."""
import os, subprocess, sys, shutil, time

MUT = os.environ.get("MUT_DIR", "/tmp/mut")
REPO = os.path.join(MUT, "repo")
VERIF = os.path.join(MUT, "verif")


def sh(cmd, **kw):
    return subprocess.run(cmd, shell=True, stdout=subprocess.PIPE, stderr=subprocess.STDOUT, text=True, **kw)


def prepare():
    os.makedirs(MUT, exist_ok=True)
    head = sh("git -C /repo rev-parse HEAD").stdout.strip()
    if not os.path.isdir(REPO):
        r = sh("git -C /repo worktree add --detach %s %s" % (REPO, head))
        if r.returncode != 0:
            sys.exit("worktree: " + r.stdout)
    else:
        sh("git -C %s reset -q --hard && git -C %s clean -fdq -e target && git -C %s checkout -q --detach %s && git -C %s reset -q --hard %s" % (REPO, REPO, REPO, head, REPO, head))
    os.makedirs(VERIF, exist_ok=True)
    sh("rsync -a --delete --exclude work --exclude harness/target --exclude .git --exclude evidence /verif/ %s/" % VERIF)
    os.makedirs(os.path.join(VERIF, "evidence"), exist_ok=True)
    p = os.path.join(VERIF, "harness", "Cargo.toml")
    s = open(p).read().replace('path = "/repo/', 'path = "%s/' % REPO)
    open(p, "w").write(s)


def main():
    args = [a for a in sys.argv[1:] if not a.startswith("--")]
    tier = "quick"
    if "--tier" in sys.argv:
        tier = sys.argv[sys.argv.index("--tier") + 1]
        args = [a for a in args if a != tier]
    patch, checks = args[0], args[1:]
    prepare()
    if patch != "none":
        r = sh("git -C %s apply %s || (git -C %s apply --3way %s && git -C %s reset -q)" % (REPO, patch, REPO, patch, REPO))
        if r.returncode != 0:
            print("PATCH-FAILED", r.stdout[-500:])
            return 3
    for c in checks:
        t0 = time.time()
        r = sh("./check %s --tier %s" % (c, tier), cwd=VERIF, timeout=7200)
        lines = [l for l in r.stdout.splitlines() if l.startswith(("VIOLATION", "KNOWN-FINDING", "TOOL-ERROR"))]
        detail = [l for l in r.stdout.splitlines() if l.strip().startswith("->")]
        diff = sh("git -C %s diff --stat | tail -1" % REPO).stdout.strip()
        viol = [l for l in lines if l.startswith("VIOLATION")]
        print("%s exit=%d %.0fs [%s] %s %s" % (c, r.returncode, time.time() - t0, diff, (viol[0] if viol else (lines[0][:80] if lines else "")), (detail[0][:200] if detail else "")), flush=True)
        if r.returncode == 2:
            print(r.stdout[-1500:])
    sh("git -C %s reset -q --hard && git -C %s clean -fdq -e target" % (REPO, REPO))
    return 0


if __name__ == "__main__":
    sys.exit(main())
