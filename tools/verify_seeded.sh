#!/bin/bash
# usage: verify_seeded.sh <worktree> <mutant dir name> -> prints CONFIRMED / REJECTED with reasons
# confirms: patch applies, builds, demo FAILS with it, existing suite PASSES with it, demo PASSES without it
WT=$1; M=$2; D=$WT/seeded/$M
cd $WT || exit 2
git checkout -q -- . ; rm -f crates/uplc/tests/demo_*.rs crates/aiken-lang/tests/demo_*.rs crates/aiken-project/tests/demo_*.rs
DEMO_DST=$(python3 -c "
import json,re,sys
m=json.load(open('$D/meta.json'))
s=json.dumps(m)
r=re.search(r'crates/[a-z-]+/tests/demo_\w+\.rs',s)
print(r.group(0) if r else 'crates/uplc/tests/demo_$M.rs')")
CRATE=$(echo $DEMO_DST | cut -d/ -f2)
TEST=$(basename $DEMO_DST .rs)
[ -f $D/demo.rs ] || { echo "$WT $M REJECTED no demo.rs"; exit 1; }
cp $D/demo.rs $DEMO_DST
cargo test -p $CRATE --test $TEST --offline > $D/my_demo_without.log 2>&1; W=$?
git apply $D/patch.diff || { echo "$WT $M REJECTED patch does not apply"; rm -f $DEMO_DST; exit 1; }
cargo test -p $CRATE --test $TEST --offline > $D/my_demo_with.log 2>&1; X=$?
rm -f $DEMO_DST
cargo test --workspace --no-fail-fast --offline > $D/my_suite_with.log 2>&1; S=$?
git checkout -q -- .
if [ $W -eq 0 ] && [ $X -ne 0 ] && [ $S -eq 0 ]; then echo "$WT $M CONFIRMED demo_without=$W demo_with=$X suite_with=$S"; else echo "$WT $M REJECTED demo_without=$W demo_with=$X suite_with=$S"; fi
