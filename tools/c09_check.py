"""C09: builds are deterministic (CodeGenReuse.tla histories + repeated project builds)."""
import json, os, time, hashlib
import vlib
from vlib import log
from uplc_checks import cj, write_cfg

ITEMS = [{"kind": "fn", "name": "item1"}, {"kind": "fn", "name": "item2"}, {"kind": "fn", "name": "item3"}, {"kind": "fn", "name": "item4"},
         {"kind": "validator", "name": "item5"}, {"kind": "fn", "name": "item6"}, {"kind": "fn", "name": "item7"}, {"kind": "fn", "name": "item8"},
         {"kind": "fn", "name": "item9"}, {"kind": "fn", "name": "item10"}, {"kind": "fn", "name": "item11"}, {"kind": "fn", "name": "item12"}, {"kind": "fn", "name": "item13"}, {"kind": "fn", "name": "item14"}]


def c09(tier):
    t0 = time.time()
    rep = vlib.Reporter("C09")
    src = open(os.path.join(vlib.ROOT, "corpus", "c09_module.ak")).read()
    h = 3
    cfg = write_cfg("CodeGenReuse", {"NItems": 14, "H": h}, ["HistoryIndependent", "CountersReset", "Emit"])
    r = vlib.tlc("CodeGenReuse", cfg=cfg, workers=6, timeout=2400, xmx="8g", metaname="CodeGenReuse")
    if not r.ok:
        raise vlib.ToolError("CodeGenReuse failed (a violated invariant is a flaw of the reuse DESIGN): %s\n%s" % (r.error, r.out[-1200:]))
    hs = r.tagged("REPLAY")
    if not hs:
        raise vlib.ToolError("CodeGenReuse printed no history")
    hists = [[[e["op"], e["i"]] for e in x["hist"]] for x in hs]
    outs = []
    gens = 0
    for tr in (["all", "silent"], ["all", "verbose"]):
        chunks = [hists[i:i + 400] for i in range(0, len(hists), 400)]
        res = vlib.run_harness("codegen_hist", stdin_lines=[{"id": i, "src": src, "items": ITEMS, "histories": c, "tracing": tr} for i, c in enumerate(chunks)],
                               timeout=7200)
        for c, o in zip(chunks, res):
            if "harness_error" in o:
                raise vlib.ToolError("codegen_hist: " + o["harness_error"])
            fresh = o["fresh"]
            for f in fresh:
                if not isinstance(f, str):
                    rep.violation("fresh:" + cj(f), {"fresh": f}, "a fresh generator failed on an item: %s" % cj(f)[:200])
            for hist, ho in zip(c, o["histories"]):
                if isinstance(ho, dict):
                    rep.violation("panic:" + cj(hist), {"history": hist, "tracing": tr, "observed": ho}, "generating this history panicked: %s" % ho.get("panic", "")[:200])
                    continue
                for k, (op, out) in enumerate(zip(hist, ho)):
                    if op[0] in ("g", "f"):
                        gens += 1
                        if out != fresh[op[1] - 1]:
                            rep.violation("reuse:" + cj([hist, tr]), {"history": hist, "tracing": tr, "step": k + 1, "item": ITEMS[op[1] - 1],
                                                                     "fresh_sha": hashlib.sha256(str(fresh[op[1] - 1]).encode()).hexdigest()[:16],
                                                                     "reused_sha": hashlib.sha256(str(out).encode()).hexdigest()[:16]},
                                          "step %d of the history: item %s compiled by a re-used generator differs from a fresh generator's output" % (k + 1, ITEMS[op[1] - 1]["name"]))
                            break
        outs.append(res[0]["fresh"])
    # project level: the same sources built repeatedly (fresh hash-map seeds), in other processes, with other thread counts
    vsrc = src
    # several validator modules defining validators of the same name, and messages that differ by white space only
    extra = {}
    for mod, msg in (("alpha", "ab"), ("beta", "a b"), ("gamma", "a  b"), ("delta", "ab")):
        # the same constant name in every module, with another value; the modules also share two library functions through a cycle
        extra["validators/%s.ak" % mod] = ("use shared/lib.{ping, pong}\n\nconst limit: Int = %d\n\nconst names: List<ByteArray> = [\"%s\", \"x\"]\n\n"
                                           "validator main(p: ByteArray) {\n  mint(_r: Data, _p: ByteArray, _tx: Data) {\n    expect p == \"%s\"\n    ping(limit, names) > pong(limit, [p])\n  }\n\n  else(_) {\n    fail\n  }\n}\n"
                                           % (len(mod) * 7 + len(msg), msg, msg))
    extra["lib/shared/lib.ak"] = ("use aiken/builtin\n\nfn weigh(bs: ByteArray) -> Int {\n  builtin.length_of_bytearray(bs)\n}\n\nfn total(xs: List<ByteArray>) -> Int {\n  when xs is {\n    [] -> 0\n    [x, ..rest] -> weigh(x) + total(rest)\n  }\n}\n\n"
                                  "pub fn ping(n: Int, xs: List<ByteArray>) -> Int {\n  if n <= 0 {\n    total(xs) + weigh(#\"00\")\n  } else {\n    pong(n - 1, xs) + weigh(#\"0102\")\n  }\n}\n\n"
                                  "pub fn pong(n: Int, xs: List<ByteArray>) -> Int {\n  if n <= 0 {\n    weigh(#\"03\") - total(xs)\n  } else {\n    ping(n - 1, xs) + total([#\"04\"]) + tick(n, 0)\n  }\n}\n\n"
                                  "fn stretch(n: Int, k: Int) -> Int {\n  if n > k {\n    n * 2 + k\n  } else {\n    k * 2 + n\n  }\n}\n\nfn squash(n: Int, k: Int) -> Int {\n  if n < k {\n    n - 3 * k\n  } else {\n    k - 3 * n\n  }\n}\n\n"
                                  "fn tick(n: Int, acc: Int) -> Int {\n  if n <= 0 {\n    acc\n  } else {\n    tock(n - 1, stretch(acc, n) + stretch(n, acc))\n  }\n}\n\n"
                                  "fn tock(n: Int, acc: Int) -> Int {\n  if n <= 0 {\n    acc\n  } else {\n    tick(n - 1, squash(acc, n) + squash(n, acc))\n  }\n}\n")
    # public types of library modules (exported with --include-all-types): pairs alone and inside lists, in different modules
    extra["lib/shared/pairs_a.ak"] = "pub type Entry {\n  key: Pair<ByteArray, Int>,\n  note: ByteArray,\n}\n"
    extra["lib/shared/pairs_b.ak"] = "pub type Ledger {\n  rows: List<Pair<ByteArray, Int>>,\n  total: Int,\n}\n"
    extra["lib/shared/pairs_c.ak"] = "pub type Book {\n  pages: List<Pair<Int, List<Pair<ByteArray, Int>>>>,\n  first: Pair<Int, Int>,\n}\n"
    all_types = []
    for run in range(4):
        cases = [{"id": i, "dir": os.path.join(vlib.WORK, "bp", "c09_%d_all_%d_%d" % (os.getpid(), run, i)), "src": vsrc, "ops": [], "extra_files": extra, "all_types": True}
                 for i in range(3 if tier == "quick" else 6)]
        for o in vlib.run_harness("blueprint_ops", stdin_lines=cases):
            if o.get("build") != "ok":
                raise vlib.ToolError("C09: project does not build with all types exported: %s" % json.dumps(o.get("build"))[:500])
            all_types.append(json.dumps(o["blueprint"], sort_keys=False))
    if len(set(all_types)) != 1:
        rep.violation("blueprint-all-types-nondeterminism", {"distinct": len(set(all_types)), "sha": sorted(set(hashlib.sha256(b.encode()).hexdigest()[:12] for b in all_types))},
                      "building the same sources %d times with every type exported produced %d different blueprints" % (len(all_types), len(set(all_types))))
    blueprints = []
    for run, env in enumerate([{}, {}, {"RAYON_NUM_THREADS": "1"}, {"RAYON_NUM_THREADS": "4"}, {"RAYON_NUM_THREADS": "16"}]):
        cases = [{"id": i, "dir": os.path.join(vlib.WORK, "bp", "c09_%d_%d_%d" % (os.getpid(), run, i)), "src": vsrc, "ops": [], "extra_files": extra, "verbose": True}
                 for i in range(3 if tier == "quick" else 8)]
        res = vlib.run_harness("blueprint_ops", stdin_lines=cases, env=env)
        for o in res:
            if o.get("build") != "ok":
                raise vlib.ToolError("C09: project does not build: %s" % json.dumps(o.get("build"))[:500])
            blueprints.append(json.dumps(o["blueprint"], sort_keys=False))
    # each validator built with the others must be the validator built alone (a generator shared across a build keeps nothing)
    together = {v["title"]: v for v in json.loads(blueprints[0])["validators"]} if blueprints else {}
    vals = sorted((k, v) for k, v in extra.items() if k.startswith("validators/"))
    libs = {k: v for k, v in extra.items() if not k.startswith("validators/")}
    alone_cases = [{"id": i, "dir": os.path.join(vlib.WORK, "bp", "c09_%d_alone_%d" % (os.getpid(), i)), "src": "", "ops": [], "extra_files": dict(libs, **{k: v}), "verbose": True}
                   for i, (k, v) in enumerate(vals)]
    for (k, v), o in zip(vals, vlib.run_harness("blueprint_ops", stdin_lines=alone_cases)):
        if o.get("build") != "ok":
            raise vlib.ToolError("C09: module %s does not build alone: %s" % (k, json.dumps(o.get("build"))[:500]))
        for val in o["blueprint"]["validators"]:
            t = together.get(val["title"])
            if t is None or t.get("compiledCode") != val.get("compiledCode"):
                rep.violation("alone-vs-together:" + val["title"], {"title": val["title"], "alone": val.get("hash"), "together": (t or {}).get("hash")},
                              "validator %s compiled together with the other modules differs from the same validator compiled alone" % val["title"])
    if len(set(blueprints)) != 1:
        rep.violation("blueprint-nondeterminism", {"distinct": len(set(blueprints)), "sha": sorted(set(hashlib.sha256(b.encode()).hexdigest()[:12] for b in blueprints))},
                      "building the same sources %d times (in-process repeats, separate processes, 1/4/16 threads) produced %d different blueprints" % (len(blueprints), len(set(blueprints))))
    cov = {"states": r.distinct, "transitions": r.generated, "traces_validated_against_impl": 2 * len(hists) + len(blueprints),
           "samples": [{"history": hists[len(hists) // 2]}, {"history": hists[-7]}],
           "evaluations": gens + len(blueprints), "distinct_nontrivial": 2 * len(hists),
           "rule": "CodeGenReuse: EVERY history of %d operations over 5 items (4 functions / tests referring to 0-3 shared module constants in "
                   "different orders, a 3-handler validator) x {generate, generate on a dropped clone, continue on a clone}, under silent and "
                   "verbose tracing, replayed on one real CodeGenerator; each generated program must equal a fresh generator's, byte for byte. "
                   "Plus %d builds of the project (in-process repeats, 5 processes, RAYON_NUM_THREADS 1/4/16): identical blueprints" % (h, len(blueprints)),
           "exhaustive": True, "generations_compared": gens, "project_builds_compared": len(blueprints)}
    rc = rep.finish()
    vlib.write_evidence("C09", tier, "model_checking", cov,
                        ["hash-map seed space, file discovery order and OS scheduling are sampled (repeated builds), not enumerated",
                         "module registration order permutations are not covered"], time.time() - t0, len(rep.violations))
    return rc


def c09_replay(path):
    print(open(path).read()[:3000])
    return 0
