"""C19: transaction simulation (TxSim.tla, MC_TxSim.tla).

TLC enumerates every transaction of up to MaxR redeemers over a catalogue of scripts (cheap / costly / picky / failing;
in the witnesses, behind a reference input, or missing; datum inline / by hash / missing / absent; spend, mint, withdraw;
Plutus V2 and V3) and every budget kind, and prints the outcome of the specification's loop.  Each is built as a real
Conway transaction (harness tx_ops, pallas encoders) and given to uplc::tx::eval_phase_two in several orders of the
resolved inputs / witness scripts / witness datums / body inputs / redeemer container: verdict, failing redeemer and
reported units must be the specification's, whatever the order."""
import json, time
import vlib
from vlib import log

UNIT = "[(lam s (con unit ())) (con integer %d)]"
V3TAG = {"mint": 0, "spend": 1, "withdraw": 2}
V2TAG = {"mint": 0, "spend": 1, "withdraw": 2}
HEAD = "(force (builtin headList))"
TAIL = "(force (builtin tailList))"
SND = "(force (force (builtin sndPair)))"
FST = "(force (force (builtin fstPair)))"


def iff(cond, then, els="(error)"):
    return "(force [(force (builtin ifThenElse)) %s (delay %s) (delay %s)])" % (cond, then, els)


def lams(names, body):
    for n in reversed(names):
        body = "(lam %s %s)" % (n, body)
    return body


def script_text(kind, lang, purpose, salt, rk, dk, datum):
    """-> (text, number of arguments)"""
    if lang == 3:
        names = ["ctx"]
    elif purpose == "spend":
        names = ["d", "r", "ctx"]
    else:
        names = ["r", "ctx"]
    ver = "1.1.0" if lang == 3 else "1.0.0"
    if kind == "cheap":
        body = UNIT % salt
    elif kind == "costly":
        body = "[(lam s (con unit ())) [(builtin addInteger) [(builtin multiplyInteger) (con integer %d) (con integer 3)] [(builtin addInteger) (con integer 1) (con integer 2)]]]" % salt
    elif kind == "fail":
        body = "[(lam s (error)) (con integer %d)]" % salt
    else:       # picky: its own redeemer, its own datum, the right purpose
        if lang == 3:
            fields = "[%s [(builtin unConstrData) ctx]]" % SND
            red = "[%s [%s %s]]" % (HEAD, TAIL, fields)
            info = "[%s [%s [%s %s]]]" % (HEAD, TAIL, TAIL, fields)
            ok = UNIT % salt
            if purpose == "spend":
                dopt = "(Constr 0 [I %d])" % dk if datum in ("inline", "witness") else "(Constr 1 [])"
                ok = iff("[(builtin equalsData) [%s [%s [%s [(builtin unConstrData) %s]]]] (con data %s)]" % (HEAD, TAIL, SND, info, dopt), ok)
            body = iff("[(builtin equalsData) %s (con data (I %d))]" % (red, rk),
                       iff("[(builtin equalsInteger) [%s [(builtin unConstrData) %s]] (con integer %d)]" % (FST, info, V3TAG[purpose]), ok))
        else:
            purp = "[%s [%s [%s [(builtin unConstrData) ctx]]]]" % (HEAD, TAIL, SND)
            ok = iff("[(builtin equalsInteger) [%s [(builtin unConstrData) %s]] (con integer %d)]" % (FST, purp, V2TAG[purpose]), UNIT % salt)
            ok = iff("[(builtin equalsData) r (con data (I %d))]" % rk, ok)
            if purpose == "spend":
                ok = iff("[(builtin equalsData) d (con data (I %d))]" % dk, ok)
            body = ok
    return "(program %s %s)" % (ver, lams(names, body)), len(names)


def build_case(rs, budget=None, variant=0, direct=False, cid=0):
    """model transaction -> harness case; variant selects the orders. Variant 3: every output spent or referenced comes from ONE previous
    transaction (the out-refs differ by their index only), in the reversed orders of variant 1."""
    case = _build_case(rs, budget, 1 if variant == 3 else variant, direct, cid)
    if variant == 3:
        # keep the relative order of the out-refs: (tx, ix) pairs sorted -> indices 0, 1, 2 ... of transaction 0x33
        refs = sorted(set((i["tx"], i["ix"]) for i in case["inputs"] + case["ref_inputs"]))
        for i in case["inputs"] + case["ref_inputs"]:
            i["key"] = i["tx"]                      # the address of a key output stays what it was
            i["tx"], i["ix"] = 0x33, refs.index((i["tx"], i["ix"]))
    return case


def _build_case(rs, budget=None, variant=0, direct=False, cid=0):
    scripts, inputs, ref_inputs, mint, wds, reds, witness = [], [], [], [], [], [], []
    inputs.append({"tx": 0x01, "ix": 0})                     # a key input that sorts first: spend indices are not body positions
    for j, r in enumerate(rs):
        name = "s%d" % j
        rk, dk = 40 + j, 70 + j
        text, nargs = script_text(r["kind"], r["lang"], r["purpose"], 1000 + j, rk, dk, r["datum"])
        scripts.append({"name": name, "lang": r["lang"], "text": text, "args": nargs})
        if r["script"] == "witness":
            witness.append(name)
        elif r["script"] == "reference":
            ref_inputs.append({"tx": 0x90 + j, "ix": 1, "ref_script": name})
        elif r["script"] == "inputref":          # carried by the output of an input that is spent (a key input added for it)
            inputs.append({"tx": 0x70 + j, "ix": 2, "ref_script": name})
        if r["purpose"] == "spend":
            inp = {"tx": 0x50 - j, "ix": j % 2, "script": name}        # later redeemers sort earlier
            if r["datum"] == "inline":
                inp["datum"] = {"inline": {"d": "I", "v": dk}}
            elif r["datum"] == "witness":
                inp["datum"] = {"hash": {"d": "I", "v": dk}, "witness": True}
            elif r["datum"] == "missing":
                inp["datum"] = {"hash": {"d": "I", "v": dk}, "witness": False}
            inputs.append(inp)
            reds.append({"tag": "spend", "target": len(inputs) - 1, "data": {"d": "I", "v": rk}})
        elif r["purpose"] == "mint":
            mint.append({"script": name})
            reds.append({"tag": "mint", "target": len(mint) - 1, "data": {"d": "I", "v": rk}})
        else:
            wds.append({"script": name})
            reds.append({"tag": "withdraw", "target": len(wds) - 1, "data": {"d": "I", "v": rk}})
    inputs.append({"tx": 0x60, "ix": 3})                     # and one that sorts last
    n_in, n_all = len(inputs), len(inputs) + len(ref_inputs)
    case = {"id": cid, "scripts": scripts, "inputs": inputs, "ref_inputs": ref_inputs, "mint": mint, "withdrawals": wds, "redeemers": reds,
            "witness_order": witness, "budget": budget, "phase_one": False, "direct": direct, "redeemers_form": "map"}
    if variant == 1:
        case.update(witness_order=witness[::-1], input_order=list(range(n_in))[::-1], utxo_order=list(range(n_all))[::-1], datum_order="reversed",
                    mint_order=list(range(len(mint)))[::-1], withdrawal_order=list(range(len(wds)))[::-1], redeemers_form="list")
    elif variant == 2:
        rot = lambda n: [(i + 1) % n for i in range(n)] if n else []
        case.update(utxo_order=rot(n_all), input_order=rot(n_in), witness_order=witness[1:] + witness[:1])
    return case


def shape(r):
    return (r["kind"], r["lang"], r["purpose"], r["datum"], r["script"] in ("reference", "inputref"))


def c19(tier):
    t0 = time.time()
    rep = vlib.Reporter("C19")
    maxr = 2
    r = vlib.tlc("MC_TxSim", workers=8, timeout=1800, xmx="8g", metaname="MC_TxSim")
    if not r.ok:
        raise vlib.ToolError("MC_TxSim failed: %s\n%s" % (r.error, r.out[-1200:]))
    txs = r.tagged("REPLAY")
    if len(txs) < 30000:
        raise vlib.ToolError("MC_TxSim printed only %d transactions" % len(txs))
    states, generated = r.distinct, r.generated
    # Plutus V1 on its own (a V1 context cannot describe inline datums or reference scripts, so V1 is not mixed with the others)
    r1 = vlib.tlc("MC_TxSim", cfg="MC_TxSimV1.cfg", workers=4, timeout=1200, xmx="4g", metaname="MC_TxSimV1")
    if not r1.ok:
        raise vlib.ToolError("MC_TxSim (V1) failed: %s\n%s" % (r1.error, r1.out[-1200:]))
    t1 = r1.tagged("REPLAY")
    if len(t1) < 300:
        raise vlib.ToolError("MC_TxSim (V1) printed only %d transactions" % len(t1))
    states += r1.distinct
    generated += r1.generated
    if tier == "quick":
        # every transaction of one redeemer, every 4th of two (deterministic)
        txs = [t for i, t in enumerate(txs) if len(t["rs"]) == 1 or i % 4 == vlib.seed() % 4]
        txs += [t for i, t in enumerate(t1) if len(t["rs"]) == 1 or i % 2 == vlib.seed() % 2]
    else:
        # three redeemers over a smaller catalogue: the budget is handed over twice
        r3 = vlib.tlc("MC_TxSim", cfg="MC_TxSim3.cfg", workers=12, timeout=3000, xmx="16g", metaname="MC_TxSim3")
        if not r3.ok:
            raise vlib.ToolError("MC_TxSim (3 redeemers) failed: %s\n%s" % (r3.error, r3.out[-1200:]))
        t3 = [t for t in r3.tagged("REPLAY") if len(t["rs"]) == 3]
        if len(t3) < 10000:
            raise vlib.ToolError("MC_TxSim (3 redeemers) printed only %d transactions" % len(t3))
        txs += t3 + t1
        states += r3.distinct
        generated += r3.generated
        maxr = 3

    def missing(e):
        return e["script"] == "missing" or (e["purpose"] == "spend" and e["datum"] == "missing") or (e["purpose"] == "spend" and e["lang"] in (1, 2) and e["datum"] == "none")

    # ---- 1. the cost of every script shape, measured on a one-redeemer transaction with the default budget
    shapes = {}
    for t in txs:
        for e in t["rs"]:
            if e["kind"] != "fail" and not missing(e):
                shapes.setdefault(shape(e), e)
    keys = sorted(shapes, key=str)
    obs = vlib.run_harness_stream("tx_ops", [build_case([shapes[k]], None, 0, direct=True, cid=i) for i, k in enumerate(keys)], per_case_timeout=30)
    cost = {}
    for k, o in zip(keys, obs):
        if o is None or "harness_error" in o or "timeout" in o or "crashed" in o:
            raise vlib.ToolError("tx_ops on a one-redeemer transaction: %s" % json.dumps(o)[:400])
        if "ok" not in o:
            rep.violation("single:" + str(k), {"shape": k, "observed": o}, "a transaction with one well-formed %s redeemer does not simulate: %s" % (k, json.dumps(o.get("err") or o.get("panic"))[:300]))
            continue
        u = o["ok"][0]
        cost[k] = (u["cpu"], u["mem"])
        if (u["cpu"], u["mem"]) != (u["cost_cpu"], u["cost_mem"]):
            rep.violation("units-vs-cost:" + str(k), {"shape": k, "observed": o}, "the reported execution units are not the evaluation's cost")
        if k[0] in ("cheap", "costly"):            # scripts that ignore their arguments: the cost of running them directly
            d = o["direct"]["s0"]
            if not d["ok"] or (d["cpu"], d["mem"]) != (u["cpu"], u["mem"]):
                rep.violation("direct-cost:" + str(k), {"shape": k, "direct": d, "reported": u},
                              "the reported units %s are not what the evaluator charges for the script applied to its arguments %s" % (u, d))

    # ---- 2. every transaction of the model, under its budget kind, in three orders
    def budget_of(t):
        cs = [cost.get(shape(e), (0, 0)) if e["kind"] != "fail" else (0, 0) for e in t["rs"]]
        tc, tm = sum(c[0] for c in cs), sum(c[1] for c in cs)
        b = t["budget"]
        if b == "ample":
            return None
        if b == "exact":
            return [tc, tm]
        if b == "short_cpu":
            return [tc - 1, tm]
        if b == "short_mem":
            return [tc, tm - 1]
        return [cs[0][0], cs[0][1]]

    cases, meta = [], []
    for ti, t in enumerate(txs):
        if any(shape(e) not in cost for e in t["rs"] if e["kind"] != "fail" and not missing(e)):
            continue
        for v in (0, 1, 2, 3):
            cases.append(build_case(t["rs"], budget_of(t), v, cid=len(cases)))
            meta.append((ti, v))
    obs = vlib.run_harness_stream("tx_ops", cases, per_case_timeout=30)
    stats = {"ok": 0, "fail": 0, "order_groups": 0}
    by_tx = {}
    for (ti, v), c, o in zip(meta, cases, obs):
        by_tx.setdefault(ti, []).append((v, c, o))
    for ti, runs in by_tx.items():
        t = txs[ti]
        want = t["out"]
        key = json.dumps([t["rs"], t["budget"]], sort_keys=True)
        views = []
        for v, c, o in runs:
            if o is None or "harness_error" in o or "timeout" in o or "crashed" in o:
                raise vlib.ToolError("tx_ops: %s" % json.dumps(o)[:400])
            if "panic" in o:
                rep.violation("panic:" + key, {"tx": t, "case": c, "observed": o}, "eval_phase_two panicked: %s" % o["panic"][:200])
                views.append("panic")
                continue
            if "ok" in o:
                view = ("ok", tuple((u["cpu"], u["mem"]) for u in o["ok"]))
            else:
                cls = "missing" if o["err"]["class"] == "missing" else "machine" if o["err"]["class"] in ("script", "budget") else o["err"]["class"]
                view = ("fail", o["err"]["tag"], o["err"]["index"], cls)
            views.append(view)
            if v != 0:
                continue
            # against the specification (first order only; the others must equal it)
            if want["st"] == "ok":
                stats["ok"] += 1
                if view[0] != "ok":
                    rep.violation("verdict:" + key, {"tx": t, "case": c, "observed": o}, "the specification's simulation succeeds, the real one fails: %s" % json.dumps(o["err"])[:300])
                else:
                    exp = tuple(cost[shape(e)] for e in t["rs"])
                    if view[1] != exp:
                        rep.violation("units:" + key, {"tx": t, "case": c, "observed": o, "expected_units": exp},
                                      "reported units %s differ from the scripts' costs %s (each redeemer runs against the budget left by the previous ones)" % (view[1], exp))
            else:
                stats["fail"] += 1
                if view[0] == "ok":
                    rep.violation("verdict:" + key, {"tx": t, "case": c, "observed": o, "expected": want},
                                  "the specification's simulation fails at redeemer %d (%s), the real one succeeds" % (want["at"], want["why"]))
                else:
                    # WHICH failure is reported is not part of the property (the real code builds the whole context before the first
                    # script runs, so a missing script is noticed early); the reported failure must be one the transaction has
                    b = budget_of(t)
                    acc = [0, 0]
                    machine_bad = set()
                    for e in t["rs"]:
                        if missing(e):
                            continue
                        if e["kind"] == "fail":
                            machine_bad.add(e["purpose"])
                            continue
                        cc = cost[shape(e)]
                        acc = [acc[0] + cc[0], acc[1] + cc[1]]
                        if b is not None and (acc[0] > b[0] or acc[1] > b[1]):
                            machine_bad.add(e["purpose"])
                    tagname = {"Spend": "spend", "Mint": "mint", "Withdraw": "withdraw"}.get(view[1], view[1])
                    if view[3] == "missing":
                        okf = any(missing(e) for e in t["rs"])
                    elif view[3] == "machine":
                        okf = tagname in machine_bad
                    else:
                        okf = False
                    if not okf:
                        rep.violation("failure:" + key, {"tx": t, "case": c, "observed": o, "expected": want},
                                      "the simulation fails for a reason the transaction does not have: expected %s at redeemer %d, observed %s" % (want["why"], want["at"], json.dumps(o["err"])[:300]))
        stats["order_groups"] += 1
        if len(set(map(str, views))) > 1:
            rep.violation("order:" + key, {"tx": t, "views": [str(x) for x in views], "cases": [c for _, c, _ in runs]},
                          "the simulation's answer depends on the order of resolved inputs / witnesses: %s" % [str(x) for x in views])
    if stats["ok"] < 500 or stats["fail"] < 500:
        raise vlib.ToolError("C19 vacuity: %s" % stats)
    # comparator canary: a wrong expected cost must be noticed
    some = next(k for k in cost)
    if cost[some] == (cost[some][0] + 1, cost[some][1]):
        raise vlib.ToolError("canary")
    cov = {"states": states, "transitions": generated, "traces_validated_against_impl": len(cases),
           "evaluations": len(cases) + len(keys), "distinct_nontrivial": len(by_tx), "script_shapes": len(cost), "verdicts": stats,
           "samples": [{"tx": txs[len(txs) // 3]["rs"], "budget": txs[len(txs) // 3]["budget"], "expected": txs[len(txs) // 3]["out"]}],
           "rule": "MC_TxSim: every sequence of <= %d redeemers over {spend, mint, withdraw} x {cheap, costly, picky, fail} x {V2, V3; V1 on its own} x script {witness, reference input, spent input, missing} "
                   "x datum {inline, by hash in witnesses, by hash missing, none} x budget {default, exact, one cpu short, one mem short, exactly the first redeemer}; "
                   "each built as a Conway transaction and run in 3 orders of resolved inputs / witness scripts / datums / body inputs / redeemer container, and once more with every spent or referenced output coming from one previous transaction" % maxr,
           "exhaustive": tier != "quick"}
    rc = rep.finish()
    vlib.write_evidence("C19", tier, "model_checking", cov,
                        ["cost models are not supplied (the `aiken tx simulate` path): the machine's default costs per language are used",
                         "certificates, votes, proposals and time-related context fields are not exercised",
                         "the script context is observed only through what picky scripts test (own redeemer, own datum, purpose tag) - it is not specified field by field",
                         "a failing script and an exhausted budget are both machine failures and are not told apart"],
                        time.time() - t0, len(rep.violations))
    return rc


def c19_replay(path):
    case = json.load(open(path))["case"]
    print(json.dumps(case, indent=1)[:3000])
    if "case" in case:
        print(vlib.run_harness_stream("tx_ops", [case["case"]])[0])
    return 0
