"""Parse Rust `{:?}` Debug text into a generic tree:
   struct  Name { f: v, .. }   -> ("Name", {f: v})
   tuple   Name(v, ..)         -> ("Name", [v, ..])      (also bare tuples: ("", [..]))
   list    [v, ..]             -> [v, ..]
   atoms   strings / numbers / identifiers -> str"""


class P:
    def __init__(self, s):
        self.s = s
        self.i = 0

    def ws(self):
        while self.i < len(self.s) and self.s[self.i] in " \n":
            self.i += 1

    def value(self):
        self.ws()
        s = self.s
        c = s[self.i]
        if c == '"':
            j = self.i + 1
            while s[j] != '"':
                j += 2 if s[j] == "\\" else 1
            v = s[self.i:j + 1]
            self.i = j + 1
            return v
        if c == "'":
            j = self.i + 1
            while s[j] != "'":
                j += 2 if s[j] == "\\" else 1
            v = s[self.i:j + 1]
            self.i = j + 1
            return v
        if c == "[":
            self.i += 1
            return self.seq("]")
        if c == "(":
            self.i += 1
            return ("", self.seq(")"))
        if c == "{":          # map / set debug
            self.i += 1
            return ("{}", self.seq("}", allow_kv=True))
        j = self.i
        while j < len(s) and (s[j].isalnum() or s[j] in "_-.:<>&"):
            if s[j] == ":" and not s.startswith("::", j) and not (j > 0 and s[j - 1] == ":"):
                break
            j += 1
        name = s[self.i:j]
        self.i = j
        self.ws()
        if self.i < len(s) and s[self.i] == "(":
            self.i += 1
            return (name, self.seq(")"))
        if self.i < len(s) and s[self.i] == "{" and name and (name[0].isupper() or name[0] == "_"):
            self.i += 1
            fields = {}
            while True:
                self.ws()
                if s[self.i] == "}":
                    self.i += 1
                    break
                if s.startswith("..", self.i):
                    self.i += 2
                    continue
                j = self.i
                while s[j] != ":":
                    j += 1
                f = s[self.i:j].strip()
                self.i = j + 1
                fields[f] = self.value()
                self.ws()
                if s[self.i] == ",":
                    self.i += 1
            return (name, fields)
        return name

    def seq(self, close, allow_kv=False):
        out = []
        while True:
            self.ws()
            if self.s[self.i] == close:
                self.i += 1
                return out
            v = self.value()
            self.ws()
            if allow_kv and self.s[self.i] == ":":
                self.i += 1
                v = ("kv", [v, self.value()])
                self.ws()
            out.append(v)
            if self.s[self.i] == ",":
                self.i += 1


def parse(s):
    p = P(s)
    v = p.value()
    p.ws()
    if p.i != len(s):
        raise ValueError("trailing text at %d: %r" % (p.i, s[p.i:p.i + 40]))
    return v


def kind(v):
    if isinstance(v, tuple):
        return v[0]
    if isinstance(v, list):
        return "[]"
    return "atom"


def edges(v, out=None, parent="<top>"):
    """(parent kind, slot, child kind) for every struct-valued field, through lists / tuples / Some(..)"""
    if out is None:
        out = set()

    def walk(child, pk, slot):
        if isinstance(child, tuple):
            name, body = child
            if isinstance(body, dict):
                out.add((pk, slot, name))
                for f, c in body.items():
                    walk(c, name, f)
            else:
                if name and name not in ("Some",):
                    out.add((pk, slot, name))
                    for c in body:
                        walk(c, name, "_")
                else:
                    for c in body:
                        walk(c, pk, slot)
        elif isinstance(child, list):
            for c in child:
                walk(c, pk, slot)

    walk(v, parent, "_")
    return out


def first_diff(a, b, path=""):
    if type(a) != type(b):
        return path, a, b
    if isinstance(a, tuple):
        if a[0] != b[0]:
            return path, a, b
        if isinstance(a[1], dict):
            if not isinstance(b[1], dict) or list(a[1]) != list(b[1]):
                return path + "/" + a[0], a, b
            for f in a[1]:
                d = first_diff(a[1][f], b[1][f], path + "/" + a[0] + "." + f)
                if d:
                    return d
            return None
        return first_diff(a[1], b[1], path + "/" + a[0])
    if isinstance(a, list):
        if len(a) != len(b):
            return path + "[len %d/%d]" % (len(a), len(b)), a, b
        for n, (x, y) in enumerate(zip(a, b)):
            d = first_diff(x, y, path + "[%d]" % n)
            if d:
                return d
        return None
    return None if a == b else (path, a, b)


def show(v, lim=200):
    def r(v):
        if isinstance(v, tuple):
            if isinstance(v[1], dict):
                return "%s { %s }" % (v[0], ", ".join("%s: %s" % (f, r(c)) for f, c in v[1].items()))
            return "%s(%s)" % (v[0], ", ".join(r(c) for c in v[1]))
        if isinstance(v, list):
            return "[%s]" % ", ".join(r(c) for c in v)
        return v
    s = r(v)
    return s if len(s) <= lim else s[:lim] + "…"
