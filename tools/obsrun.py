#!/usr/bin/env python3
# debugging helper: run an Obs_* module on an ndjson file and summarise
import sys,re,json,collections,subprocess,os
mod,path=sys.argv[1],sys.argv[2]
p=subprocess.run(["/verif/tools/tlcrun.sh",mod],env=dict(os.environ,TRACE=path),stdout=subprocess.PIPE,stderr=subprocess.STDOUT,text=True)
got=False
for l in p.stdout.splitlines():
    m=re.match(r'^<<"OBSRESULT", "(.*)">>$',l.strip())
    if m:
        got=True
        j=json.loads(re.sub(r'\\(["\\])',r'\1',m.group(1)))
        print(j['n'],'ok',j['ok'],'bad',j['bad'])
        print(collections.Counter(w for _,w in j['skipped']))
if not got: print(p.stdout[-5000:])
