"""C15: UPLC text round-trips (UplcText.tla, MC_Text.tla)."""
import json, random, time
import vlib, termgen
from vlib import log
from uplc_checks import cj


BIGS = {1000001: 2 ** 63, 1000002: -2 ** 63 - 1, 1000003: 2 ** 64, 1000004: -2 ** 64, 1000005: 2 ** 64 + 1, 1000006: 2 ** 127}


def bigform(x):
    """placeholders of MC_Text -> the interchange form of integers beyond a machine word"""
    if isinstance(x, dict):
        if isinstance(x.get("v"), int) and x.get("v") in BIGS and (x.get("t") == "int" or x.get("d") == "I"):
            y = dict(x)
            y["v"] = 0
            y["big"] = str(BIGS[x["v"]])
            return y
        return {k: bigform(v) for k, v in x.items()}
    if isinstance(x, list):
        return [bigform(v) for v in x]
    return x


def render(pieces):
    out = []
    for p in pieces:
        if isinstance(p, str):
            out.append(p)
        elif "n" in p:
            out.append(str(BIGS.get(p["n"], p["n"])))
        elif "hex" in p:
            out.append("".join("%02x" % b for b in p["hex"]))
        elif "cps" in p:
            out.append("".join(chr(c) for c in p["cps"]))
    return "".join(out)


def unbig(x):
    """the harness writes integers beyond 2^30 as {"v":0,"big":"<decimal>"}"""
    if isinstance(x, dict):
        if "big" in x and x.get("v") == 0:
            x = dict(x); x["v"] = int(x.pop("big"))
        return {k: unbig(v) for k, v in x.items()}
    if isinstance(x, list):
        return [unbig(v) for v in x]
    return x


def judge(term, o, rep, src, spec_text=None):
    bad = []
    want = cj(unbig(bigform(term)))
    o = unbig(o)
    ps = o.get("parse_spec_text")
    if ps is not None:
        if "panic" in ps:
            bad.append(("spec-text", "the parser panicked on the specification's text: %s" % ps["panic"][:160]))
        elif "err" in ps:
            bad.append(("spec-text", "the parser rejects the specification's text: %s" % ps["err"][:160]))
        elif cj(ps["ok"]) != want:
            bad.append(("spec-text", "the parser reads the specification's text as a different program"))
    for form in ("named",):      # the bare de Bruijn form prints index-derived names and is not meant to be read back
        r = o.get(form)
        if not r:
            continue
        if "print_panic" in r:
            bad.append((form, "the printer panicked: %s" % r["print_panic"][:160]))
            continue
        if "print_err" in r:
            continue
        b = r.get("back", {})
        if "panic" in b:
            bad.append((form, "the parser panicked on the printer's output: %s" % b["panic"][:160]))
        elif "err" in b:
            bad.append((form, "the printer emitted text the parser rejects: %s" % b["err"][:160]))
        elif cj(b["ok"]) != want:
            bad.append((form, "the printer's text parses to a different program"))
        elif r.get("fixed_point") is False:
            bad.append((form, "printing the re-parsed program does not reproduce the text"))
    for where, why in bad:
        rep.violation(classify(term, why) or (want + "|" + where), {"term": term, "spec_text": spec_text, "observed": o, "source": src}, "%s: %s" % (where, why))
    return not bad


def classify(term, why):
    return None


def c15(tier):
    t0 = time.time()
    rep = vlib.Reporter("C15")
    r = vlib.tlc("MC_Text", workers=4, timeout=1200, xmx="4g", metaname="MC_Text")
    if not r.ok:
        raise vlib.ToolError("MC_Text failed: %s\n%s" % (r.error, r.out[-1200:]))
    cases = r.tagged("REPLAY")
    if len(cases) < 150:
        raise vlib.ToolError("MC_Text printed only %d programs" % len(cases))
    real = [{"id": i, "term": bigform(c["term"]), "text": render(c["v110"])} for i, c in enumerate(cases)]
    obs = vlib.run_harness("uplc_text", stdin_lines=real)
    for c, rq, o in zip(cases, real, obs):
        if "harness_error" in o:
            raise vlib.ToolError("uplc_text: " + o["harness_error"])
        judge(c["term"], o, rep, "MC_Text #%d" % c["id"], rq["text"])
    # version line 1.0.0 as well
    obs100 = vlib.run_harness("uplc_text", stdin_lines=[{"id": i, "term": bigform(c["term"]), "text": render(c["v100"])} for i, c in enumerate(cases[:40])])
    for c, o in zip(cases[:40], obs100):
        ps = o.get("parse_spec_text", {})
        if "ok" in ps and ps.get("version") != [1, 0, 0]:
            rep.violation("version:" + cj(c["term"]), {"term": c["term"], "observed": ps}, "the program version is not read back")
    # canary
    class D:
        def __init__(self): self.n = 0
        def violation(self, *a): self.n += 1
    d = D()
    judge(cases[0]["term"], {"parse_spec_text": {"ok": {"k": "err"}}, "named": {"text": "x", "back": {"ok": {"k": "err"}}, "fixed_point": True}}, d, "canary")
    if d.n < 2:
        raise vlib.ToolError("C15 comparator canary did not fire")
    # beyond the tables: random programs, printer -> parser only (no spec text for these)
    rng = random.Random(vlib.seed() + 15)
    terms = termgen.random_terms(rng.randint(0, 1 << 30), 1500 if tier == "quick" else 20000, fuel=(4, 40), wrong=0.05)
    obs2 = vlib.run_harness("uplc_text", stdin_lines=[{"id": i, "term": t} for i, t in enumerate(terms)])
    for t, o in zip(terms, obs2):
        judge(t, o, rep, "random term (seed %d)" % vlib.seed())
    cov = {"states": r.distinct, "transitions": r.generated, "traces_validated_against_impl": len(cases) + len(terms),
           "samples": [{"term": cases[120]["term"], "spec_text": real[120]["text"]}, {"term": cases[200]["term"], "spec_text": real[200]["text"]}],
           "evaluations": len(cases) + 40 + len(terms), "distinct_nontrivial": len(cases) + len(set(cj(t) for t in terms)),
           "rule": "MC_Text: one program per built-in name (all %d), per constant type and nesting, per string escape class (quote, backslash, "
                   "\\n \\r \\t, NUL, DEL, U+00E9, U+2028, astral, backslash-followed-by-letter), per Data tag range (0, 6, 7, 127, 128, 2^31-1), per "
                   "term constructor; for each the spec's text must parse to the program, and the printer's text (de Bruijn and named form) must parse "
                   "back to it and be a fixed point. Random programs beyond: printer -> parser -> printer" % sum(1 for c in cases if c["term"]["k"] == "bi"),
           "exhaustive": True}
    rc = rep.finish()
    vlib.write_evidence("C15", tier, "model_checking", cov,
                        ["UplcText.tla is my transcription of the Plutus Core concrete syntax (names table, type and constant syntax, string escapes)",
                         "BLS constants are not representable in the interchange format and are not covered"], time.time() - t0, len(rep.violations))
    return rc


def c15_replay(path):
    print(open(path).read()[:3000])
    return 0
