"""Shared plumbing for the checks: TLC runner, harness builder, evidence writer,
violation / known-finding reporting.  Python standard library only."""
import hashlib, json, os, re, subprocess, sys, time, shutil, random

ROOT = os.path.dirname(os.path.dirname(os.path.abspath(__file__)))
SPEC = os.path.join(ROOT, "spec")
WORK = os.path.join(ROOT, "work")
HARNESS = os.path.join(ROOT, "harness")
EVID = os.path.join(ROOT, "evidence")
TLA_CP = "/opt/veriftools/tla/tla2tools.jar:/opt/veriftools/tla/CommunityModules-deps.jar"

EXIT_OK, EXIT_VIOLATION, EXIT_TOOL = 0, 1, 2


class ToolError(Exception):
    pass


def log(*a):
    print(*a, file=sys.stderr, flush=True)


def seed():
    try:
        return int(os.environ.get("VERIF_SEED", "1"))
    except ValueError:
        return 1


def workdir(name):
    d = os.path.join(WORK, name)
    os.makedirs(d, exist_ok=True)
    return d


# --------------------------------------------------------------------------- harness

_built = set()


def build_harness(bins=None):
    """Incremental offline build of the harness against /repo's CURRENT working tree."""
    key = tuple(sorted(bins)) if bins else None
    if key in _built:
        return
    cmd = ["cargo", "build", "--offline", "--quiet"]
    for b in bins or []:
        cmd += ["--bin", b]
    env = dict(os.environ, CARGO_NET_OFFLINE="true")
    t0 = time.time()
    p = subprocess.run(cmd, cwd=HARNESS, env=env, stdout=subprocess.PIPE, stderr=subprocess.STDOUT, text=True)
    if p.returncode != 0 and "signal:" in p.stdout:
        # rustc itself was killed (seen under heavy load: SIGABRT / SIGKILL); the build is incremental, try once more with fewer jobs
        log("[build] rustc died (%s); retrying with -j 4" % p.stdout[p.stdout.index("signal:"):][:40])
        p = subprocess.run(cmd + ["-j", "4"], cwd=HARNESS, env=env, stdout=subprocess.PIPE, stderr=subprocess.STDOUT, text=True)
    if p.returncode != 0:
        log(p.stdout[-6000:])
        raise ToolError("harness build failed")
    log("[build] harness %s in %.1fs" % (bins or "all", time.time() - t0))
    _built.add(key)


def hbin(name):
    return os.path.join(HARNESS, "target", "debug", name)


def run_harness(name, args=(), stdin_lines=None, timeout=3600, env=None):
    """Run a harness binary; returns list of parsed ndjson objects from stdout."""
    build_harness([name])
    inp = None
    if stdin_lines is not None:
        inp = "\n".join(json.dumps(x, separators=(",", ":")) if not isinstance(x, str) else x for x in stdin_lines) + "\n"
    e = dict(os.environ)
    e["RUST_MIN_STACK"] = str(1 << 30)
    if env:
        e.update(env)
    try:
        p = subprocess.run([hbin(name)] + list(args), input=inp, stdout=subprocess.PIPE, stderr=subprocess.PIPE,
                           text=True, timeout=timeout, env=e)
    except subprocess.TimeoutExpired:
        raise ToolError("harness %s timed out" % name)
    if p.returncode != 0:
        raise HarnessCrash(name, p.returncode, p.stderr[-4000:], p.stdout)
    out = []
    for l in p.stdout.split("\n"):       # not splitlines(): U+2028 inside a JSON string is not a line end
        l = l.strip(" \t\r")
        if l:
            out.append(json.loads(l))
    return out


def run_harness_stream(name, cases, per_case_timeout=20, env=None, confirm_timeout=240):
    """see _run_harness_stream; an input that timed out is given once more, ALONE, a much longer limit (the machine may simply be
    busy): only if it still does not answer is it reported as {"timeout": True}; otherwise its answer is used and marked "slow"."""
    res = _run_harness_stream(name, cases, per_case_timeout, env)
    for i, r in enumerate(res):
        if isinstance(r, dict) and r.get("timeout") and confirm_timeout:
            again = _run_harness_stream(name, [cases[i]], confirm_timeout, env)[0]
            if isinstance(again, dict) and not again.get("timeout"):
                if isinstance(again, dict):
                    again["slow"] = True
                res[i] = again
            else:
                res[i] = {"timeout": True, "confirmed_alone_after_s": confirm_timeout}
    return res


def _run_harness_stream(name, cases, per_case_timeout=20, env=None):
    """Like run_harness, but the binary answers line by line and each input gets its own time limit.
    Returns a list aligned with cases; an input that exceeds the limit (or kills the process) yields
    {"timeout": True} / {"crashed": rc} and the remaining inputs are given to a fresh process."""
    import select
    build_harness([name])
    e = dict(os.environ)
    e["RUST_MIN_STACK"] = str(1 << 30)
    if env:
        e.update(env)
    results = [None] * len(cases)
    i = 0
    while i < len(cases):
        p = subprocess.Popen([hbin(name)], stdin=subprocess.PIPE, stdout=subprocess.PIPE, stderr=subprocess.DEVNULL, env=e)
        try:
            while i < len(cases):
                line = (json.dumps(cases[i], separators=(",", ":")) + "\n").encode()
                try:
                    p.stdin.write(line)
                    p.stdin.flush()
                except BrokenPipeError:
                    results[i] = {"crashed": p.poll()}
                    i += 1
                    break
                r, _, _ = select.select([p.stdout], [], [], per_case_timeout)
                if not r:
                    results[i] = {"timeout": True}
                    i += 1
                    break
                out = p.stdout.readline()
                if not out:
                    results[i] = {"crashed": p.wait()}
                    i += 1
                    break
                results[i] = json.loads(out.decode())
                i += 1
        finally:
            try:
                p.kill()
            except Exception:
                pass
            p.wait()
    return results


class HarnessCrash(Exception):
    def __init__(self, name, rc, stderr, stdout):
        super().__init__("harness %s exited %s: %s" % (name, rc, stderr[-500:]))
        self.name, self.rc, self.stderr, self.stdout = name, rc, stderr, stdout


# --------------------------------------------------------------------------- TLC

class TlcResult:
    def __init__(self, rc, out, wall):
        self.rc, self.out, self.wall = rc, out, wall
        self.generated = self.distinct = 0
        m = re.findall(r"(\d+) states generated, (\d+) distinct states found", out)
        if m:
            self.generated, self.distinct = int(m[-1][0]), int(m[-1][1])
        self.ok = ("Model checking completed. No error has been found." in out) or \
                  ("Finished computing" in out and "Error:" not in out and rc == 0)
        self.error = None
        m = re.search(r"Error: (.*?)(?:\n\n|\Z)", out, re.S)
        if m and not self.ok:
            self.error = m.group(1)[:3000]
        self.invariant_violated = re.findall(r"Invariant (\S+) is violated", out)

    def tagged(self, tag):
        """JSON payloads printed as PrintT(<<tag, ToJson(x)>>)."""
        res = []
        pat = re.compile(r'^<<"%s", "(.*)">>$' % re.escape(tag))
        for line in self.out.splitlines():
            m = pat.match(line.strip())
            if m:
                s = m.group(1)
                # TLC prints the string with \" and \\ escapes
                s = re.sub(r'\\(["\\])', r"\1", s)
                res.append(json.loads(s))
        return res

    def tuples(self, tag):
        """raw tuples printed by PrintT(<<tag, ...>>) as text after the tag"""
        res = []
        for line in self.out.splitlines():
            line = line.strip()
            if line.startswith('<<"%s"' % tag):
                res.append(line)
        return res

    def coverage(self):
        """action name -> (distinct, total) from -coverage output (best effort)"""
        cov = {}
        for m in re.finditer(r"<(\w+) line \d+, col \d+ to line \d+, col \d+ of module (\w+)>: (\d+):(\d+)", self.out):
            cov[m.group(1)] = (int(m.group(3)), int(m.group(4)))
        return cov


def tlc(module, cfg=None, workers=1, env=None, timeout=1800, deque=False, xss="1g", xmx="8g",
        coverage=False, simulate=None, depth=None, metaname=None, extra=(), cwd=SPEC, seed_=None):
    """Run TLC on spec/<module>.tla. Returns TlcResult. Raises ToolError on timeout."""
    meta = workdir("tlc_" + (metaname or module) + "_" + str(os.getpid()))
    cmd = ["java", "-XX:+UseParallelGC", "-Xss" + xss, "-Xmx" + xmx, "-Djava.io.tmpdir=" + meta]     # TLC unpacks its modules into a temp dir: keep it out of /tmp
    if deque:
        cmd.append("-Dtlc2.tool.queue.IStateQueue=StateDeque")
    cmd += ["-cp", TLA_CP, "tlc2.TLC", "-workers", str(workers), "-metadir", meta, "-cleanup",
            "-noGenerateSpecTE", "-config", cfg or (module + ".cfg")]
    if coverage:
        cmd += ["-coverage", "1"]
    if simulate:
        cmd += ["-simulate", "num=%d" % simulate]
        if seed_ is not None:
            cmd += ["-seed", str(seed_)]
    if depth:
        cmd += ["-depth", str(depth)]
    cmd += list(extra) + [module + ".tla"]
    e = dict(os.environ)
    if env:
        e.update({k: str(v) for k, v in env.items()})
    t0 = time.time()
    try:
        p = subprocess.run(cmd, cwd=cwd, env=e, stdout=subprocess.PIPE, stderr=subprocess.STDOUT, text=True,
                           timeout=timeout)
    except subprocess.TimeoutExpired as ex:
        shutil.rmtree(meta, ignore_errors=True)
        raise ToolError("TLC timed out on %s after %ss" % (module, timeout))
    shutil.rmtree(meta, ignore_errors=True)
    return TlcResult(p.returncode, p.stdout, time.time() - t0)


def sany(module, cwd=SPEC):
    p = subprocess.run(["java", "-cp", TLA_CP, "tla2sany.SANY", module + ".tla"], cwd=cwd, stdout=subprocess.PIPE,
                       stderr=subprocess.STDOUT, text=True)
    ok = p.returncode == 0 and "Fatal errors" not in p.stdout and "*** Errors" not in p.stdout
    return ok, p.stdout


# --------------------------------------------------------------------------- observation validation

def write_ndjson(path, events):
    with open(path, "w") as f:
        for e in events:
            f.write(json.dumps(e, separators=(",", ":")) + "\n")


def validate_observations(module, events, name, chunk=2000, parallel=8, timeout=1800, env_extra=None):
    """Validate events (list of dicts) against an Obs_* spec. Splits into chunks run by
    parallel TLC processes. Returns dict(ok=int, bad=[(event, why)], skipped=[(event, why)], states=int).
    A TLC evaluation error on one event drops that event (skipped: spec error) and the rest of
    the chunk is re-run."""
    from concurrent.futures import ThreadPoolExecutor
    d = workdir("obs_" + name)
    chunks = [events[i:i + chunk] for i in range(0, len(events), chunk)]

    def run_chunk(ci):
        evs = list(chunks[ci])
        res = dict(ok=0, bad=[], skipped=[], states=0, generated=0)
        attempt = 0
        while evs:
            attempt += 1
            path = os.path.join(d, "chunk_%d_%d.ndjson" % (ci, attempt))
            write_ndjson(path, evs)
            env = {"TRACE": path}
            if env_extra:
                env.update(env_extra)
            r = tlc(module, workers=1, env=env, deque=True, timeout=timeout,
                    metaname="%s_%s_%d" % (module, name, ci), xmx="4g")
            got = r.tagged("OBSRESULT")
            res["states"] += r.distinct
            res["generated"] += r.generated
            if got:
                g = got[-1]
                res["ok"] += g["ok"]
                for l, why in g["bad"]:
                    res["bad"].append((evs[l - 1], why))
                for l, why in g["skipped"]:
                    res["skipped"].append((evs[l - 1], why))
                os.remove(path)
                break
            # TLC died: find the event being processed from the printed state
            m = re.findall(r"^/?\\?\s*l = (\d+)", r.out, re.M)
            if not m:
                m = re.findall(r"\bl = (\d+)", r.out)
            if not m or attempt > 50:
                raise ToolError("TLC failed on %s chunk %d without a usable state:\n%s" % (module, ci, r.out[-3000:]))
            l = int(m[-1])
            err = (r.error or "TLC error").splitlines()[0][:200]
            # events before l were fine but their verdicts are lost with the run: re-run them too
            res["skipped"].append((evs[l - 1], "skip:spec evaluation error: " + err))
            evs = evs[:l - 1] + evs[l:]
        return res

    total = dict(ok=0, bad=[], skipped=[], states=0, generated=0)
    with ThreadPoolExecutor(max_workers=parallel) as ex:
        for r in ex.map(run_chunk, range(len(chunks))):
            total["ok"] += r["ok"]
            total["bad"] += r["bad"]
            total["skipped"] += r["skipped"]
            total["states"] += r["states"]
            total["generated"] += r["generated"]
    return total


# --------------------------------------------------------------------------- findings / evidence

def canon_hash(x):
    return hashlib.sha256(json.dumps(x, sort_keys=True, separators=(",", ":")).encode()).hexdigest()[:16]


def load_known():
    p = os.path.join(ROOT, "KNOWN_FINDINGS.json")
    if not os.path.exists(p):
        return {"findings": [], "fixed": []}
    return json.load(open(p))


LAST_REPORTER = None


class Reporter:
    """Collects violations for one property, classifies against KNOWN_FINDINGS.json,
    prints the protocol lines and writes replay files."""

    def __init__(self, pid):
        self.pid = pid
        self.known = [f for f in load_known()["findings"] if f["property"] == pid]
        self.violations = []      # (key, replay_path)
        self.known_hits = {}      # key -> what
        self.dir = workdir(os.path.join("replays", pid))
        global LAST_REPORTER
        LAST_REPORTER = self

    def violation(self, key, payload, what):
        """key: stable identification of the failing input/call site (string)."""
        for f in self.known:
            if f["key"] == key or (f.get("key_prefix") and key.startswith(f["key_prefix"])):
                if f["key"] not in self.known_hits:
                    self.known_hits[f["key"]] = f["what"]
                return False
        path = os.path.join(self.dir, "%s.json" % canon_hash(key))
        with open(path, "w") as fh:
            json.dump({"property": self.pid, "key": key, "what": what, "case": payload}, fh, indent=1)
        self.violations.append((key, path, what))
        return True

    def finish(self):
        for k, what in self.known_hits.items():
            print("KNOWN-FINDING: property=%s %s" % (self.pid, what))
        seen = set()
        for key, path, what in self.violations[:20]:
            if path in seen:
                continue
            seen.add(path)
            print("VIOLATION property=%s replay=%s" % (self.pid, path))
            log("  ->", what[:300])
        sys.stdout.flush()
        return EXIT_VIOLATION if self.violations else EXIT_OK


def write_evidence(pid, tier, level, coverage, assumptions, wall, violations):
    os.makedirs(EVID, exist_ok=True)
    ev = {
        "property_id": pid,
        "tier": tier,
        "seed": seed(),
        "level": level,
        "coverage": coverage,
        "assumptions": assumptions,
        "wall_s": round(wall, 2),
        "violations": violations,
    }
    with open(os.path.join(EVID, pid + ".json"), "w") as f:
        json.dump(ev, f, indent=1)
    return ev


def term_size(t):
    """number of nodes of a JSON term"""
    k = t.get("k")
    if k in ("lam", "delay", "force"):
        return 1 + term_size(t["b"])
    if k == "app":
        return 1 + term_size(t["f"]) + term_size(t["a"])
    if k == "constr":
        return 1 + sum(term_size(x) for x in t["fs"])
    if k == "case":
        return 1 + term_size(t["s"]) + sum(term_size(x) for x in t["bs"])
    return 1
