"""C12: blueprint schemas describe exactly what validators accept (Obs_Schema.tla)."""
import json, random, time, copy, os
import vlib, aikengen as ag
from vlib import log
from uplc_checks import cj

TYPES12 = [ag.INT, ag.BOOL, ag.BYTES, ag.VOID, ag.DATA, ag.TList(ag.INT), ag.TOption(ag.INT), ag.TAdt("Color"), ag.TAdt("Point"),
           ag.TAdt("Shape"), ag.TAdt("Tree"), ag.TTuple(ag.INT, ag.BOOL), ag.TPair(ag.INT, ag.BYTES), ag.TList(ag.TPair(ag.INT, ag.INT)),
           ag.TAdt("Box", ag.INT), ag.TAdt("Either", ag.INT, ag.BOOL), ag.TAdt("Acct"), ag.TList(ag.TAdt("Point")),
           ag.TOption(ag.TAdt("Shape")), ag.TTuple(ag.INT, ag.TAdt("Color"), ag.BYTES), ag.TList(ag.TList(ag.INT)),
           ag.TAdt("Box", ag.TOption(ag.BOOL)), ag.TAdt("Either", ag.TAdt("Point"), ag.TList(ag.BOOL)), ag.TList(ag.TOption(ag.INT)),
           ag.TPair(ag.TAdt("Color"), ag.TList(ag.INT)), ag.TList(ag.TPair(ag.BYTES, ag.TAdt("Shape"))),
           ag.TAdt("Tagged"), ag.TAdt("Wrap", ag.INT), ag.TAdt("Wrap", ag.BYTES), ag.TOption(ag.TAdt("Tagged")), ag.TAdt("Inner", ag.TAdt("Color")),
           ag.TAdt("Rec5"), ag.TList(ag.TAdt("Rec5")), ag.TAdt("RecL"), ag.TList(ag.TAdt("RecL")), ag.TOption(ag.TAdt("RecL")),
           ag.TAdt("Named"), ag.TList(ag.STRING), ag.TTuple(ag.STRING, ag.INT), ag.TOption(ag.STRING),
           ag.TAdt("Solo"), ag.TList(ag.TAdt("Solo")), ag.TAdt("Solo2"), ag.TOption(ag.TAdt("Solo2")),
           ag.TAdt("Box", ag.TPair(ag.INT, ag.INT)), ag.TAdt("Box", ag.TPair(ag.INT, ag.BYTES)), ag.TOption(ag.TAdt("Box", ag.TPair(ag.INT, ag.INT))),
           ag.TAdt("Box", ag.TTuple(ag.INT, ag.INT)), ag.TAdt("Box", ag.TTuple(ag.INT, ag.BYTES)), ag.TList(ag.TPair(ag.INT, ag.BYTES)),
           ag.TAdt("Box", ag.TList(ag.INT)), ag.TAdt("Box", ag.TList(ag.BYTES)), ag.TAdt("Either", ag.BOOL, ag.INT), ag.TOption(ag.BYTES)]

# two types converted from Data in ONE program: instances of one generic type (or one container) that differ late in their arguments.
# The conversion of each must be what it is alone (the code generator shares `expect` helpers between conversions by a key).
T_ = ag
SIBLINGS = [(T_.TAdt("Box", T_.TPair(T_.INT, T_.INT)), T_.TAdt("Box", T_.TPair(T_.INT, T_.BYTES))),
            (T_.TOption(T_.TAdt("Box", T_.TPair(T_.INT, T_.INT))), T_.TAdt("Box", T_.TPair(T_.INT, T_.BYTES))),
            (T_.TAdt("Box", T_.TTuple(T_.INT, T_.INT)), T_.TAdt("Box", T_.TTuple(T_.INT, T_.BYTES))),
            (T_.TList(T_.TPair(T_.INT, T_.INT)), T_.TList(T_.TPair(T_.INT, T_.BYTES))),
            (T_.TAdt("Box", T_.TList(T_.INT)), T_.TAdt("Box", T_.TList(T_.BYTES))),
            (T_.TAdt("Wrap", T_.INT), T_.TAdt("Wrap", T_.BYTES)),
            (T_.TOption(T_.INT), T_.TOption(T_.BYTES)),
            (T_.TAdt("Either", T_.INT, T_.BOOL), T_.TAdt("Either", T_.BOOL, T_.INT)),
            (T_.TAdt("Box", T_.INT), T_.TAdt("Box", T_.TOption(T_.BOOL))),
            (T_.TPair(T_.INT, T_.BYTES), T_.TPair(T_.TAdt("Color"), T_.TList(T_.INT))),
            (T_.TList(T_.TAdt("Rec5")), T_.TList(T_.TAdt("RecL")))]


def norm_schema(s):
    """blueprint JSON schema -> the vocabulary of Obs_Schema.tla (titles / descriptions dropped)"""
    if "$ref" in s:
        return {"s": "ref", "n": s["$ref"].replace("#/definitions/", "").replace("~1", "/").replace("~0", "~")}
    if "anyOf" in s:
        alts = []
        for a in s["anyOf"]:
            if a.get("dataType") != "constructor":
                return {"s": "other", "raw": json.dumps(s)[:200]}
            alts.append({"index": a["index"], "fields": [norm_schema(f) for f in a.get("fields", [])]})
        return {"s": "anyof", "alts": alts}
    dt = s.get("dataType")
    if dt is None:
        return {"s": "any"}
    if dt == "integer":
        return {"s": "int"}
    if dt == "bytes":
        return {"s": "bytes"}
    if dt == "#string":
        return {"s": "string"}
    if dt == "list":
        it = s.get("items")
        if isinstance(it, list):
            return {"s": "tuple", "items": [norm_schema(x) for x in it]}
        return {"s": "list", "item": norm_schema(it)}
    if dt == "map":
        return {"s": "map", "k": norm_schema(s["keys"]), "v": norm_schema(s["values"])}
    if dt == "constructor":
        return {"s": "anyof", "alts": [{"index": s["index"], "fields": [norm_schema(f) for f in s.get("fields", [])]}]}
    return {"s": "other", "raw": json.dumps(s)[:200]}


# ---- data universe: conforming values and near misses
def mutants(d, depth=3):
    """all single-node near-miss mutations of d"""
    out = []
    k = d["d"]
    if k == "I":
        out += [{"d": "B", "v": []}, {"d": "L", "v": [d]}, {"d": "C", "tag": 0, "fs": []}]
    elif k == "B":
        out += [{"d": "I", "v": 0}, {"d": "L", "v": []}, {"d": "C", "tag": 0, "fs": [d]}]
    elif k == "L":
        out += [{"d": "M", "v": []}, {"d": "C", "tag": 0, "fs": d["v"]}, {"d": "L", "v": d["v"] + [{"d": "I", "v": 0}]}, {"d": "I", "v": 1}]
        if d["v"]:
            out += [{"d": "L", "v": d["v"][:-1]}, {"d": "L", "v": d["v"][1:]}, {"d": "L", "v": list(reversed(d["v"]))}]
    elif k == "M":
        out += [{"d": "L", "v": [x for kv in d["v"] for x in kv]}, {"d": "L", "v": [{"d": "L", "v": kv} for kv in d["v"]]}, {"d": "C", "tag": 0, "fs": []},
                {"d": "M", "v": d["v"] + [[{"d": "B", "v": [1]}, {"d": "C", "tag": 9, "fs": []}]]}]
    else:
        out += [{"d": "C", "tag": d["tag"] + 1, "fs": d["fs"]}, {"d": "C", "tag": d["tag"] + 100, "fs": d["fs"]}, {"d": "L", "v": d["fs"]},
                {"d": "C", "tag": 128, "fs": d["fs"]}, {"d": "C", "tag": 1000, "fs": d["fs"]},
                {"d": "C", "tag": d["tag"], "fs": d["fs"] + [{"d": "I", "v": 0}]}, {"d": "I", "v": d["tag"]}]
        if d["tag"] > 0:
            out.append({"d": "C", "tag": d["tag"] - 1, "fs": d["fs"]})
        if d["fs"]:
            out += [{"d": "C", "tag": d["tag"], "fs": d["fs"][:-1]}, {"d": "C", "tag": d["tag"], "fs": list(reversed(d["fs"]))}]
    if depth > 0:
        if k == "L":
            for i, x in enumerate(d["v"]):
                for m in mutants(x, depth - 1):
                    out.append({"d": "L", "v": d["v"][:i] + [m] + d["v"][i + 1:]})
        elif k == "M":
            for i, (a, b) in enumerate(d["v"]):
                for m in mutants(a, depth - 1)[:3]:
                    out.append({"d": "M", "v": d["v"][:i] + [[m, b]] + d["v"][i + 1:]})
                for m in mutants(b, depth - 1)[:3]:
                    out.append({"d": "M", "v": d["v"][:i] + [[a, m]] + d["v"][i + 1:]})
        elif k == "C":
            for i, x in enumerate(d["fs"]):
                for m in mutants(x, depth - 1):
                    out.append({"d": "C", "tag": d["tag"], "fs": d["fs"][:i] + [m] + d["fs"][i + 1:]})
    return out


def replace_first_bytes(d, bs):
    """a copy of d whose first byte-string leaf is bs (None if it has none)"""
    import copy
    d = copy.deepcopy(d)

    def go(x):
        if x["d"] == "B":
            x["v"] = list(bs)
            return True
        if x["d"] == "L":
            return any(go(y) for y in x["v"])
        if x["d"] == "C":
            return any(go(y) for y in x["fs"])
        if x["d"] == "M":
            return any(go(k) or go(v) for k, v in x["v"])
        return False
    return d if go(d) else None


def valid_utf8(bs):
    try:
        bytes(bs).decode("utf-8")
        return True
    except UnicodeDecodeError:
        return False


def has_ill_formed_text(d):
    if d["d"] == "B":
        return not valid_utf8(d["v"])
    if d["d"] == "L":
        return any(has_ill_formed_text(x) for x in d["v"])
    if d["d"] == "C":
        return any(has_ill_formed_text(x) for x in d["fs"])
    if d["d"] == "M":
        return any(has_ill_formed_text(k) or has_ill_formed_text(v) for k, v in d["v"])
    return False


def data_for(rng, ty, n_conf, tier):
    seen, out = set(), []

    def add(d, kind):
        k = cj(d)
        if k not in seen:
            seen.add(k)
            out.append((d, kind))
    # conforming: the finite universe of the generator (exhaustive at its depth) + random deeper ones
    for v in ag.universe(ty, 2)[:60 if tier == "quick" else 400]:
        if ty["t"] != "Data":
            add(ag.to_data(ty, v), "conforming")
    for _ in range(n_conf):
        add(ag.to_data(ty, ag.rand_value(rng, ty, 3)), "conforming")
    base = [d for d, _ in out]
    if "String" in ag.ty_str(ty):
        # text positions: valid non-ASCII UTF-8 (accepted by schema and conversion alike) and ill-formed UTF-8 (the published schema says
        # `bytes`, so it conforms; the conversion decodes and rejects: the recorded finding schema:string-published-as-bytes)
        for d in base[:4]:
            for bs in ([195, 169], [226, 130, 172, 33], [255], [195], [237, 160, 128], [192, 175]):
                m = replace_first_bytes(d, bs)
                if m is not None:
                    add(m, "utf8")
    for d in base[:25 if tier == "quick" else 200]:
        for m in mutants(d, 2 if tier == "quick" else 3):
            add(m, "near-miss")
    for _ in range(10 if tier == "quick" else 100):
        add(ag.rand_data(rng, 2), "random")
    return out


def c12(tier):
    t0 = time.time()
    rep = vlib.Reporter("C12")
    rng = random.Random(vlib.seed() * 1000 + 12)
    types = TYPES12 if tier == "thorough" else TYPES12
    T = ag.render_types()
    # (1) the published schemas: one validator whose parameters are all the types
    params = ", ".join("p%d: %s" % (i, ag.ty_str(t)) for i, t in enumerate(types))
    vsrc = T + "\nvalidator v(%s) {\n  else(_) {\n    True\n  }\n}\n" % params
    datas = [data_for(rng, ty, 6 if tier == "quick" else 60, tier) for ty in types]
    ops = [{"op": "validate", "validator": 0, "param": i, "data": [d for d, _ in ds]} for i, ds in enumerate(datas)]
    bpo = vlib.run_harness("blueprint_ops", stdin_lines=[{"id": 0, "dir": os.path.join(vlib.WORK, "bp", "c12_%d" % os.getpid()), "src": vsrc, "ops": ops}])[0]
    if bpo.get("build") != "ok":
        if isinstance(bpo.get("build"), dict) and "panic" in bpo["build"]:
            rep.violation("build-panic", {"src": vsrc, "build": bpo["build"]}, "building the blueprint panicked: %s" % bpo["build"]["panic"][:300])
            rc = rep.finish()
            vlib.write_evidence("C12", tier, "model_checking", {"evaluations": 1, "distinct_nontrivial": 2, "samples": [vsrc[-300:]]}, [], time.time() - t0, 1)
            return rc
        raise vlib.ToolError("C12: could not build the probe validator: %s" % json.dumps(bpo.get("build"))[:800])
    bp = bpo["blueprint"]
    defs = {k: norm_schema(v) for k, v in bp["definitions"].items()}
    roots = [norm_schema(p["schema"]) for p in bp["validators"][0]["parameters"]]
    # (2) the compiled `expect`
    fsrc = T + "\n" + "\n".join("pub fn check%d(d: Data) -> Bool {\n  expect _: %s = d\n  True\n}\n" % (i, ag.ty_str(t)) for i, t in enumerate(types))
    ro = vlib.run_harness("aiken_run", stdin_lines=[{"id": 0, "src": fsrc, "tracings": [["all", "silent"]],
                                                    "fns": [{"name": "check%d" % i, "args": [[d] for d, _ in ds]} for i, ds in enumerate(datas)]}])[0]
    run = ro["runs"][0]
    if run["check"] != "ok":
        raise vlib.ToolError("C12: the expect probes were rejected by the checker: %s" % run["check"])
    events = []
    stypes = ag.spec_types()
    for i, (ty, ds) in enumerate(zip(types, datas)):
        vres = bpo["ops"][i]["results"]
        f = run["fns"][i]
        if f["compile"] != "ok":
            rep.violation("compile-panic:%s" % ag.ty_str(ty), {"type": ag.ty_str(ty), "compile": f["compile"]}, "compiling `expect _: %s = d` panicked" % ag.ty_str(ty))
            continue
        for (d, kind), v, x in zip(ds, vres, f["results"]):
            val = "ok" if v == "ok" else ("panic" if isinstance(v, dict) and "panic" in v else "err")
            post = x["post"]
            exp = "ok" if (post["o"] == "val" and post.get("c") == {"t": "bool", "v": True}) else ("panic" if post["o"] == "panic" else "fail")
            if val == "panic":
                rep.violation("validate-panic:" + ag.ty_str(ty) + cj(d), {"type": ag.ty_str(ty), "data": d, "observed": v},
                              "Parameter::validate panicked: %s" % v["panic"][:200])
            events.append({"id": len(events), "types": stypes, "ty": ty, "defs": defs, "root": roots[i], "d": d, "validate": val, "expect": exp,
                           "_kind": kind, "_ty": ag.ty_str(ty)})
    # canaries: a flipped observation must be rejected
    canaries = []
    for e in events:
        if e["validate"] == "ok" and e["expect"] == "ok" and len(canaries) < 3:
            c = dict(e, validate="err", canary=e["id"])
            canaries.append(c)
        elif e["validate"] == "err" and e["expect"] == "fail" and 3 <= len(canaries) < 6:
            canaries.append(dict(e, expect="ok", canary=e["id"]))
    strip = lambda e: {k: v for k, v in e.items() if not k.startswith("_")}
    res = vlib.validate_observations("Obs_Schema", [strip(e) for e in events] + [strip(c) for c in canaries], "c12", chunk=400, parallel=10)
    fired = set(e["canary"] for e, _ in res["bad"] if "canary" in e)
    if len(fired) != len(canaries) or not canaries:
        raise vlib.ToolError("Obs_Schema canary: %d of %d corrupted events rejected" % (len(fired), len(canaries)))
    byid = {e["id"]: e for e in events}
    for e, why in res["bad"]:
        if "canary" in e:
            continue
        ev = byid[e["id"]]
        # the one recorded disagreement: a String is published as `bytes`, which cannot say "well-formed UTF-8". Attributed only when the
        # SPECIFICATION's own two statements disagree that way (schema conforms, FromData rejects), the real code agrees with both of
        # them (validate accepts, expect fails) and the data does hold ill-formed text; the shapes agree otherwise (SchemaFor held).
        if why.startswith("the schema accepts this data but the type's conversion rejects it") and "String" in ev["_ty"] and \
                ev["validate"] == "ok" and ev["expect"] == "fail" and has_ill_formed_text(ev["d"]):
            rep.violation("schema:string-published-as-bytes", {"type": ev["_ty"], "data": ev["d"]}, why)
            continue
        rep.violation(ev["_ty"] + "|" + cj(ev["d"]) + "|" + why[:40], {"type": ev["_ty"], "data": ev["d"], "validate": ev["validate"], "expect": ev["expect"],
                                                                       "published_schema": ev["root"], "kind": ev["_kind"]}, why)
    # (3) two conversions in one program: each must behave as it does alone (the single results were judged by Obs_Schema above)
    single = {}
    for e in events:
        single[(e["_ty"], cj(e["d"]))] = e["expect"]
    idx = {ag.ty_str(t): i for i, t in enumerate(types)}
    sib_src, sib_fns, sib_meta = [T], [], []
    for k, (ta, tb) in enumerate(SIBLINGS):
        for order, (t1, t2) in enumerate(((ta, tb), (tb, ta))):
            name = "both%d_%d" % (k, order)
            sib_src.append("pub fn %s(d1: Data, d2: Data) -> Bool {\n  expect _: %s = d1\n  expect _: %s = d2\n  True\n}\n" % (name, ag.ty_str(t1), ag.ty_str(t2)))
            d1s = [d for d, kd in datas[idx[ag.ty_str(t1)]] if kd == "conforming"][:4] + [d for d, kd in datas[idx[ag.ty_str(t2)]] if kd == "conforming"][:2]
            d2s = [d for d, kd in datas[idx[ag.ty_str(t2)]] if kd == "conforming"][:4] + [d for d, kd in datas[idx[ag.ty_str(t1)]] if kd == "conforming"][:2]
            args = [[a1, a2] for a1 in d1s for a2 in d2s if (ag.ty_str(t1), cj(a1)) in single and (ag.ty_str(t2), cj(a2)) in single]
            sib_fns.append({"name": name, "args": args})
            sib_meta.append((t1, t2, args))
    so = vlib.run_harness("aiken_run", stdin_lines=[{"id": 0, "src": "\n".join(sib_src), "tracings": [["all", "silent"]], "fns": sib_fns}])[0]["runs"][0]
    if so["check"] != "ok":
        raise vlib.ToolError("C12: the two-conversion probes were rejected by the checker: %s" % json.dumps(so["check"])[:500])
    sib_runs = 0
    for (t1, t2, args), f in zip(sib_meta, so["fns"]):
        if f["compile"] != "ok":
            rep.violation("compile-panic:%s+%s" % (ag.ty_str(t1), ag.ty_str(t2)), {"types": [ag.ty_str(t1), ag.ty_str(t2)], "compile": f["compile"]}, "compiling two conversions in one program panicked")
            continue
        for (a1, a2), x in zip(args, f["results"]):
            sib_runs += 1
            post = x["post"]
            got = "ok" if (post["o"] == "val" and post.get("c") == {"t": "bool", "v": True}) else ("panic" if post["o"] == "panic" else "fail")
            want = "ok" if single[(ag.ty_str(t1), cj(a1))] == "ok" and single[(ag.ty_str(t2), cj(a2))] == "ok" else "fail"
            if got != want:
                rep.violation("siblings:%s+%s|%s|%s" % (ag.ty_str(t1), ag.ty_str(t2), cj(a1), cj(a2)),
                              {"types": [ag.ty_str(t1), ag.ty_str(t2)], "data": [a1, a2], "together": got, "alone": [single[(ag.ty_str(t1), cj(a1))], single[(ag.ty_str(t2), cj(a2))]]},
                              "`expect _: %s = d1  expect _: %s = d2` in one program: %s, but alone the conversions give %s / %s" %
                              (ag.ty_str(t1), ag.ty_str(t2), got, single[(ag.ty_str(t1), cj(a1))], single[(ag.ty_str(t2), cj(a2))]))
    if sib_runs < 200:
        raise vlib.ToolError("C12: only %d two-conversion runs" % sib_runs)
    conf = sum(1 for e in events if e["expect"] == "ok")
    if conf < 100 or len(events) - conf < 100:
        raise vlib.ToolError("C12 vacuity: %d accepted / %d rejected data values" % (conf, len(events) - conf))
    cov = {"states": res["states"], "transitions": res["generated"], "traces_validated_against_impl": res["ok"], "two_conversions_in_one_program_runs": sib_runs,
           "samples": [{"type": events[5]["_ty"], "data": events[5]["d"], "validate": events[5]["validate"], "expect": events[5]["expect"]},
                       {"type": events[-5]["_ty"], "data": events[-5]["d"], "validate": events[-5]["validate"], "expect": events[-5]["expect"]}],
           "evaluations": 2 * len(events), "distinct_nontrivial": len(events),
           "rule": "%d serialisable types (ADTs, generics instantiated, records, Option, lists, tuples, pairs, maps, Bool, Void, Data, nested, "
                   "recursive) x (all values of a finite universe + random deeper values, serialised; every single-node near miss of "
                   "those: tag +-1, tag +100, missing / extra / reversed field, wrong leaf kind, list<->map<->constr, ...; random data). "
                   "Per (type, data): Parameter::validate against the published schema, the compiled expect, CIP-57 conformance to the "
                   "published schema and Aiken.tla's FromData must all coincide" % len(types),
           "exhaustive": False, "types": len(types), "accepted_by_expect": conf, "rejected_by_expect": len(events) - conf}
    rc = rep.finish()
    vlib.write_evidence("C12", tier, "model_checking", cov,
                        ["python normalises the blueprint JSON into the spec's schema vocabulary (titles / descriptions dropped)",
                         "definite vs indefinite CBOR encodings of the same Data are not distinguished here",
                         "String fields: only ASCII text is generated (text is published as `bytes`; byte strings that are not valid UTF-8 are outside the universes)"],
                        time.time() - t0, len(rep.violations))
    return rc


def c12_replay(path):
    print(open(path).read()[:3000])
    return 0
