#!/usr/bin/env python3
"""One-off generator of spec/UplcCostTable.tla from `harness dump_costs` output
(Rust pretty Debug of CostModel per semantics variant at the pinned commit).
The generated module is COMMITTED and frozen: it is the specification's own copy of the
ledger cost parameters, later validated against the upstream budget goldens."""
import re, sys, json

def tokenize(s):
    return re.findall(r"[A-Za-z_][A-Za-z_0-9]*|-?\d+|[{}(),:\[\]]", s)

class P:
    def __init__(self, toks): self.t = toks; self.i = 0
    def peek(self): return self.t[self.i] if self.i < len(self.t) else None
    def next(self): x = self.t[self.i]; self.i += 1; return x
    def value(self):
        tok = self.next()
        if re.fullmatch(r"-?\d+", tok): return int(tok)
        assert re.fullmatch(r"[A-Za-z_][A-Za-z_0-9]*", tok), tok
        name = tok
        if self.peek() == "{":
            self.next(); fields = {}
            while self.peek() != "}":
                k = self.next(); assert self.next() == ":"
                fields[k] = self.value()
                if self.peek() == ",": self.next()
            self.next()
            return {"_": name, **fields}
        if self.peek() == "(":
            self.next(); items = []
            while self.peek() != ")":
                items.append(self.value())
                if self.peek() == ",": self.next()
            self.next()
            return {"_": name, "args": items}
        return {"_": name}

SNAKE = {}  # rust field name -> spec builtin name
def load_names():
    import os
    names = [n for n, _ in json.load(open(os.path.join(os.path.dirname(__file__), "../spec/builtin_names.json")))]
    for n in names:
        s = re.sub(r"([A-Z])", lambda m: "_" + m.group(1).lower(), n)
        s = s.replace("bls12_381__g", "bls12_381_g").replace("bls12_381_G", "bls12_381_g")
        SNAKE[s] = n
    # irregular
    fix = {"sha2_256":"sha2_256","sha3_256":"sha3_256","blake2b_224":"blake2b_224","blake2b_256":"blake2b_256",
           "keccak_256":"keccak_256","ripemd_160":"ripemd_160","exp_mod_int":"expModInteger",
           "verify_ed25519_signature":"verifyEd25519Signature",
           "verify_ecdsa_secp256k1_signature":"verifyEcdsaSecp256k1Signature",
           "verify_schnorr_secp256k1_signature":"verifySchnorrSecp256k1Signature",
           "encode_utf8":"encodeUtf8","decode_utf8":"decodeUtf8",
           "i_data":"iData","b_data":"bData","un_i_data":"unIData","un_b_data":"unBData"}
    SNAKE.update(fix)
    for n in names:
        if n.startswith("bls12_381_"):
            s = re.sub(r"([A-Z])", lambda m: "_" + m.group(1).lower(), n[len("bls12_381_"):])
            s = "bls12_381_" + s.lstrip("_")
            s = s.replace("__", "_")
            SNAKE[s] = n

def tla_fn(v):
    """costing function value -> TLA+ record text"""
    shape = v["_"]
    args = v.get("args", [])
    fields = {"s": '"%s"' % shape}
    def put(d, prefix=""):
        for k, x in d.items():
            if k == "_": continue
            if isinstance(x, int): fields[prefix + k] = str(x)
            elif isinstance(x, dict) and "args" in x or (isinstance(x, dict) and x.get("_") in
                    ("ConstantCost",)):
                fields[prefix + k] = tla_fn(x)
            elif isinstance(x, dict): put(x, prefix)
            else: raise Exception(repr(x))
    ints = [a for a in args if isinstance(a, int)]
    for n, a in enumerate(ints): fields["c%d" % n] = str(a)
    for a in args:
        if isinstance(a, dict): put(a)
    return "[" + ", ".join("%s |-> %s" % kv for kv in fields.items()) + "]"

def main():
    load_names()
    text = sys.stdin.read()
    parts = re.split(r"^=== ([A-E])$", text, flags=re.M)[1:]
    out = []
    out.append("--------------------------- MODULE UplcCostTable ---------------------------")
    out.append("(* GENERATED once by tools/gen_cost_table.py from the pinned tree's default cost")
    out.append("   parameters (per ledger semantics variant A-E); frozen thereafter and validated")
    out.append("   against the upstream .uplc.budget.expected goldens. Do not edit by hand. *)")
    out.append("EXTENDS Integers")
    out.append("")
    mcs = {}
    for var, body in zip(parts[0::2], parts[1::2]):
        v = P(tokenize(body)).value()
        mc = v["machine_costs"]
        order = ["constant","var","lambda","apply","delay","force","builtin","constr","case"]
        mcs[var] = "[startup |-> [cpu |-> %d, mem |-> %d], step |-> <<%s>>]" % (
            mc["startup"]["cpu"], mc["startup"]["mem"],
            ", ".join("[cpu |-> %d, mem |-> %d]" % (mc[k]["cpu"], mc[k]["mem"]) for k in order))
        rows = []
        for k, cf in v["builtin_costs"].items():
            if k == "_": continue
            name = SNAKE.get(k)
            if name is None:
                continue  # builtins not in this language (array/value ops)
            rows.append('  %s |-> [cpu |-> %s,\n     mem |-> %s]' % (name, tla_fn(cf["cpu"]), tla_fn(cf["mem"])))
        out.append("CostTable%s == [\n%s\n]\n" % (var, ",\n".join(rows)))
    out.append("MachineCostsOf(sem) ==\n    CASE " + "\n      [] ".join('sem = "%s" -> %s' % (k, v) for k, v in mcs.items()))
    out.append("")
    out.append("CostTableOf(sem) ==\n    CASE " + "\n      [] ".join('sem = "%s" -> CostTable%s' % (k, k) for k in mcs))
    out.append("")
    out.append("=============================================================================")
    print("\n".join(out))
main()
