#!/bin/bash
# second, parallel sandbox: usage as mutbatch.sh -> work/t/mutbatchB.log
export MUT_DIR=/tmp/mutB
for spec in "$@"; do
  name=${spec%%:*}; checks=${spec#*:}
  echo "=== $name" >> /verif/work/t/mutbatchB.log
  python3 /verif/tools/mutrun.py /verif/seeded/$name/patch.diff ${checks//,/ } >> /verif/work/t/mutbatchB.log 2>&1
done
echo "=== DONE" >> /verif/work/t/mutbatchB.log
