#!/usr/bin/env python3
"""Collects what was run against the seeded changes (work/t/mutbatch*.log written by tools/mutbatch.sh, work/t/verify*.log written by
tools/verify_patch.sh / verify_seeded.sh) into seeded/RESULTS.md and one meta.json per seeded change."""
import glob, json, os, re, sys

ROOT = os.path.dirname(os.path.dirname(os.path.abspath(__file__)))
SEEDED = os.path.join(ROOT, "seeded")
# notes that the logs cannot carry
NOTES = {
    "C02-m1": "no longer manifests after fix 9e94165 (its demonstration passes with the change applied): the folded application is left alone when evaluation fails",
    "C10-m2": "no longer manifests after fix 9e94165 (constant folding skips failing evaluations)",
    "C04-m2": "missed until MC_Serialise was added (serialiseData bytes with integers around 2^63 / 2^64 given by the bytes of their CBOR argument)",
    "C18-m3": "missed until the histories were also run on the blueprint re-declared for Plutus V1 / V2",
    "C20-m1": "missed until EVERY single-bit flip of small encodings was tried (the first run's report was a load-induced watchdog alarm, see DESIGN 11.6)",
    "C20-m2": "missed until integer literals of the texts were rewritten with odd sign runs",
    "C20-m3": "missed until hex fields of the blueprint were tried at lengths around the expected one",
    "C16-m1": "missed until the end-to-end part (authored project through the real runner) was added",
    "C16-m2": "missed until the end-to-end part was added (fuzzers whose evaluation fails)",
    "C19-m2": "caught after script location `inputref` (script carried by a spent input's output) was added",
    "C13-m3": "caught after `aiken fmt` in place (format_files) was added to the check",
    "C13-m2": "caught after comments inside multi-line record constructors were generated",
    "C02-m5": "round 2; missed while no generator produced BLS12-381 constants; caught by the `points` family (the generator of G1 / G2, its negation and the point at infinity several times in one program; `VPoint` in Aiken.tla)",
    "C01-m4": "round 2; missed by the first generics family (the type variable itself must be a list in one use and a pair-list in another); caught after those instantiations were added",
    "C06-m4": "round 2; missed until typing rules across modules were checked on multi-module projects",
    "C06-m5": "round 2; caught once the String type existed in the generator (added while this round was running)",
    "C09-m5": "round 2; missed until builds with every type exported were compared",
    "C09-m6": "round 2; missed by a cycle whose dependencies are themselves recursive; caught after a cycle calling two plain hoisted functions was added",
    "C14-m5": "round 2; caught by the strictness family (expect on a discard), added while this round was running",
    "C02-m6": "round 2; caught by the strictness family (zero-argument functions), added while this round was running",
    "C02-m4": "round 2; and / or / xor on byte arrays with a non-constant flag: family added while this round was running",
    "C07-m2": "ported onto the repaired ListSwitch code (patch_original.diff is the agent's patch against the code before fix 8a035ae)",
    "C07-m4": "round 3; missed while only `when` was enumerated: every single pattern of MC_Match is now also checked under `let` (accepted iff irrefutable)",
    "C12-m4": "round 3; missed until a type with ONE explicitly written constructor carrying its own @tag was added (Solo, Solo2)",
    "C12-m5": "round 3; missed while each conversion was compiled in a program of its own: pairs of sibling instances are now converted in one program and compared with what each does alone",
    "C13-m5": "round 3; missed until negative integer patterns in hexadecimal / with digit grouping were generated",
    "C19-m5": "round 3; missed until a variant with every spent / referenced output coming from ONE previous transaction was added",
    "C19-m6": "round 3; missed while the model had no Plutus V1: MC_TxSimV1.cfg added",
    "C03-m1": "missed until the `closure` profile was added to MC_Cek",
    "C04-m3": "missed until builtin chains (group `chains`) and 64-bit boundary integers were added",
    "C01-m1": "caught by C07 only after ListIntSmall with K = 3 was added",
}


def parse_batches():
    res = {}        # name -> {check: (rc, line)}
    logs = sorted(glob.glob(os.path.join(ROOT, "work", "t", "mutbatch[2-9]*.log")), key=os.path.getmtime) + \
        sorted(glob.glob(os.path.join(ROOT, "work", "t", "mutbatchB*.log")) + [os.path.join(ROOT, "work", "t", "mutbatch.log")], key=lambda f: os.path.getmtime(f) if os.path.exists(f) else 0)
    for lg in logs:
        if not os.path.exists(lg):
            continue
        name = None
        for line in open(lg, errors="replace"):
            m = re.match(r"^=== (\S+)", line)
            if m:
                name = m.group(1)
                continue
            m = re.match(r"^(C\d\d) exit=(\d+) (\d+)s \[(.*?)\] ?(.*)$", line)
            if m and name and name != "DONE":
                res.setdefault(name, {})[m.group(1)] = (int(m.group(2)), m.group(5).strip()[:300], os.path.basename(lg))
    return res


def parse_verify():
    res = {}
    for lg in sorted(glob.glob(os.path.join(ROOT, "work", "t", "verify*.log"))):
        for line in open(lg, errors="replace"):
            m = re.match(r"^(C\d\d-m\d) (.*suite_with=\d+.*)$", line)
            if m:
                res[m.group(1)] = dict(kv.split("=") for kv in m.group(2).split())
            m = re.match(r"^(C\d\d-m\d) (CONFIRMED|.*demo.*)$", line)
    return res


def main():
    batches, verify = parse_batches(), parse_verify()
    rows = []
    for d in sorted(os.listdir(SEEDED)):
        p = os.path.join(SEEDED, d)
        if not os.path.isdir(p) or not re.match(r"C\d\d-m\d", d):
            continue
        meta_p = os.path.join(p, "meta.json")
        meta = json.load(open(meta_p)) if os.path.exists(meta_p) else {}
        agent = {}
        if os.path.exists(os.path.join(p, "agent_meta.json")):
            try:
                agent = json.load(open(os.path.join(p, "agent_meta.json")))
            except Exception:
                agent = {}
        prop = d[:3]
        meta.setdefault("property", prop)
        for k_src, k_dst in (("summary", "breaks"), ("needs", "needs"), ("demo_cmd", "demo_cmd"), ("files_touched", "files_touched")):
            if k_dst not in meta and k_src in agent:
                meta[k_dst] = agent[k_src]
        v = verify.get(d)
        if v:
            demo_ok = (v.get("demo_without") == "0" and v.get("demo_with") not in ("0", "na")) or (v.get("cli_without") == "0" and v.get("cli_with") not in ("0", "na"))
            meta["confirmed_by_me"] = {"how": "tools/verify_patch.sh in a scratch worktree: demonstration without / with the change, whole suite with the change",
                                       "demo_without_change": v.get("demo_without") if v.get("demo_without") != "na" else v.get("cli_without"),
                                       "demo_with_change": v.get("demo_with") if v.get("demo_with") != "na" else v.get("cli_with"),
                                       "suite_with_change_exit": v.get("suite_with"),
                                       "result": "CONFIRMED" if demo_ok and v.get("suite_with") == "0" else ("SUITE PASSES, demonstration not reproduced by the script" if v.get("suite_with") == "0" else "NOT CONFIRMED")}
        checks = batches.get(d, {})
        if checks:
            meta["checks_run"] = {c: {"exit": rc, "first_line": line, "log": lg} for c, (rc, line, lg) in sorted(checks.items())}
        if d in NOTES:
            meta["note"] = NOTES[d]
        caught = sorted(c for c, (rc, _, _) in checks.items() if rc == 1)
        cb = meta.get("confirmed_by_me")
        if cb and cb.get("result", "").startswith("SUITE PASSES") and caught:
            cb["result"] = "CONFIRMED (suite passes with the change; its effect is demonstrated by the violation the check reports, see checks_run)"
        missed = sorted(c for c, (rc, _, _) in checks.items() if rc == 0)
        if "caught_by" in meta and not checks:
            caught = meta["caught_by"] if isinstance(meta["caught_by"], list) else [meta["caught_by"]]
        meta["caught_by"] = caught
        json.dump(meta, open(meta_p, "w"), indent=1)
        conf = meta.get("confirmed_by_me", {}).get("result", "?")
        what = (meta.get("breaks") or "")[:150].replace("\n", " ").replace("|", "/")
        rows.append("| %s | %s | %s | %s | %s | %s |" % (d, conf, ", ".join(caught) or "-", ", ".join(missed) or "-", NOTES.get(d, ""), what))
    with open(os.path.join(SEEDED, "RESULTS.md"), "w") as f:
        f.write("# Seeded changes: what each check did with them\n\n"
                "Generated by tools/seeded_report.py from the run logs. `caught by` = checks that exited 1 with a VIOLATION line when run against\n"
                "the change in an isolated copy (tools/mutrun.py); `not caught by` = checks that were run against it and exited 0 (a check of\n"
                "another property is not expected to catch it). Checks were strengthened after misses; the row shows the latest run.\n\n"
                "| change | confirmed | caught by | run but not caught by | note | what it breaks |\n|---|---|---|---|---|---|\n")
        f.write("\n".join(rows) + "\n")
    print("wrote %d rows" % len(rows))


if __name__ == "__main__":
    main()
