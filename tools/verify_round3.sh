#!/bin/bash
# usage: verify_round3.sh <property id> : confirms the three round-3 changes of a property in the scratch worktree /tmp/wt4_<id> (warm build
# cache): demonstration without the change (must pass), with it (must fail), whole existing suite with it (must pass).
id=$1; W=/tmp/wt4_$id; LOG=/verif/work/t/verify6_$id.log; : > $LOG
for k in 4 5 6; do
  name=$id-m$k; D=/verif/seeded/$name
  git -C $W reset -q --hard; git -C $W clean -fdq -e target
  rm -rf /tmp/wt4_demo_$id; cp -r $D /tmp/wt4_demo_$id
  demo() {
    if [ -f $D/demo.rs ] && [ "$id" = C19 ]; then
      cp $D/demo.rs $W/crates/uplc/tests/verif_demo.rs; (cd $W && cargo test -p uplc --test verif_demo --offline -j 4 >/dev/null 2>&1); r=$?; rm -f $W/crates/uplc/tests/verif_demo.rs; return $r
    else
      (cd $W && cargo build -p aiken --offline -j 4 >/dev/null 2>&1 && AIKEN=$W/target/debug/aiken AIKEN_BIN=$W/target/debug/aiken bash /tmp/wt4_demo_$id/demo.sh >/dev/null 2>&1); return $?
    fi
  }
  demo; without=$?
  git -C $W apply $D/patch.diff || { echo "$name PATCH-FAILED" >> $LOG; continue; }
  demo; with=$?
  (cd $W && cargo test --workspace --no-fail-fast --offline -j 4 > /verif/work/t/suite_$name.log 2>&1); suite=$?
  echo "$name demo_without=$without demo_with=$with cli_without=na cli_with=na suite_with=$suite" >> $LOG
  git -C $W reset -q --hard; git -C $W clean -fdq -e target
done
rm -rf /tmp/wt4_demo_$id
echo DONE >> $LOG
