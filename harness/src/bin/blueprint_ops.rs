//! stdin ndjson cases -> build a one-module project with the real Project API and operate on its blueprint.
//! case: {"id", "dir": scratch dir, "src": validators/v.ak, "ops": [
//!    {"op":"validate","validator":i,"param":j,"data":[D..]}      -> per data: ok | err | panic
//!    {"op":"apply","data":[D..]}                                   -> successive Blueprint::apply_parameter
//!    {"op":"roundtrip"}                                            -> serde save/load fixed point
//! ]}
use aiken_lang::ast::{TraceLevel, Tracing};
use aiken_project::{Project, blueprint::Blueprint, options::BlueprintExport, telemetry::EventListener};
use serde_json::{Value as J, json};
use std::io::{BufRead, Write};
use std::path::PathBuf;
use uplc::ast::Constant;
use vh::conv::*;

#[derive(Clone, Copy)]
struct Quiet;
impl EventListener for Quiet {}

fn build(dir: &PathBuf, src: &str, extra: &J, verbose: bool, tracing: &J, all_types: bool) -> Result<Blueprint, String> {
    let _ = std::fs::remove_dir_all(dir);
    std::fs::create_dir_all(dir.join("validators")).map_err(|e| e.to_string())?;
    std::fs::write(
        dir.join("aiken.toml"),
        "name = \"verif/case\"\nversion = \"0.0.0\"\ncompiler = \"v1.1.21\"\nplutus = \"v3\"\nlicense = \"Apache-2.0\"\ndescription = \"\"\n",
    )
    .map_err(|e| e.to_string())?;
    std::fs::write(dir.join("validators").join("v.ak"), src).map_err(|e| e.to_string())?;
    if let Some(files) = extra.as_object() {
        for (rel, content) in files {
            let p = dir.join(rel);
            if let Some(parent) = p.parent() {
                std::fs::create_dir_all(parent).map_err(|e| e.to_string())?;
            }
            std::fs::write(p, content.as_str().unwrap_or("")).map_err(|e| e.to_string())?;
        }
    }
    let mut project = Project::new(dir.clone(), Quiet).map_err(|e| format!("project: {e:?}"))?;
    let path = dir.join("plutus.json");
    project
        .build(
            false,
            if tracing.is_array() { vh::aikenrun::tracing_from(tracing)? } else { Tracing::All(if verbose { TraceLevel::Verbose } else { TraceLevel::Silent }) },
            path.clone(),
            if all_types { BlueprintExport::AllTypes } else { BlueprintExport::OnlyBinaryInterface },
            None,
        )
        .map_err(|es| format!("build: {}", es.iter().map(|e| format!("{e:?}")).collect::<Vec<_>>().join(" | ").chars().take(1500).collect::<String>()))?;
    Project::<Quiet>::blueprint(&path).map_err(|e| format!("load: {e:?}"))
}

fn validator_summary(bp: &Blueprint) -> J {
    J::Array(
        bp.validators
            .iter()
            .map(|v| {
                let j = serde_json::to_value(v).unwrap_or(J::Null);
                json!({"title": v.title, "parameters": v.parameters.len(), "hash": j["hash"], "compiledCode": j["compiledCode"]})
            })
            .collect(),
    )
}

fn eval_hex(code: &str, args: &[uplc::PlutusData]) -> J {
    let code = code.to_string();
    let args = args.to_vec();
    match guarded(move || {
        let mut buffer = vec![];
        let mut cbor = vec![];
        let p = uplc::ast::Program::<uplc::ast::DeBruijn>::from_hex(&code, &mut cbor, &mut buffer).map_err(|e| format!("{e:?}"))?;
        let mut p: uplc::ast::Program<uplc::ast::NamedDeBruijn> = p.into();
        for a in &args {
            p = p.apply_data(a.clone());
        }
        let r = p.eval_version(uplc::machine::cost_model::ExBudget::max(), &pallas_primitives::conway::Language::PlutusV3);
        Ok::<J, String>(match &r.result {
            Ok(t) => json!({"o": "val", "t": format!("{}", t.to_pretty()).chars().take(60).collect::<String>()}),
            Err(e) => json!({"o": "fail", "e": format!("{e:?}").chars().take(80).collect::<String>()}),
        })
    }) {
        Ok(Ok(j)) => j,
        Ok(Err(e)) => json!({"o": "decode_error", "e": e}),
        Err(p) => json!({"o": "panic", "msg": p}),
    }
}

/// one history of apply / saveload operations on a fresh copy of the blueprint
fn run_history(bp0: &Blueprint, h: &J, ctxs: &J, select: &J) -> J {
    let module = select["module"].as_str().map(|s| s.to_string());
    let name = select["validator"].as_str().map(|s| s.to_string());
    let prefix = match (&module, &name) {
        (Some(m), Some(n)) => format!("{m}.{n}."),
        _ => String::new(),
    };
    let mut cur = bp0.clone();
    let mut steps = vec![];
    let mut applied: Vec<uplc::PlutusData> = vec![];
    for op in h.as_array().cloned().unwrap_or_default() {
        match op["op"].as_str().unwrap_or("") {
            "apply" => {
                let data = match data_from_json(&op["d"]) {
                    Ok(d) => d,
                    Err(e) => return json!({"harness_error": e}),
                };
                let mut next = cur.clone();
                let r = guarded(|| next.apply_parameter(module.as_deref(), name.as_deref(), &data).map_err(|e| format!("{e:?}").chars().take(160).collect::<String>()));
                match r {
                    Ok(Ok(())) => {
                        cur = next;
                        applied.push(data);
                        steps.push(json!({"r": "ok", "validators": validator_summary(&cur)}));
                    }
                    Ok(Err(e)) => steps.push(json!({"r": "err", "e": e, "validators": validator_summary(&cur)})),
                    Err(p) => steps.push(json!({"r": "panic", "msg": p, "validators": validator_summary(&cur)})),
                }
            }
            "saveload" => {
                let r = guarded(|| {
                    let s1 = serde_json::to_string_pretty(&cur).map_err(|e| e.to_string())?;
                    let b2: Blueprint = serde_json::from_str(&s1).map_err(|e| e.to_string())?;
                    Ok::<Blueprint, String>(b2)
                });
                match r {
                    Ok(Ok(b2)) => {
                        cur = b2;
                        steps.push(json!({"r": "ok", "validators": validator_summary(&cur)}));
                    }
                    Ok(Err(e)) => steps.push(json!({"r": "err", "e": e, "validators": validator_summary(&cur)})),
                    Err(p) => steps.push(json!({"r": "panic", "msg": p, "validators": validator_summary(&cur)})),
                }
            }
            _ => {}
        }
    }
    // behaviour once every parameter is applied: through the blueprint, and by plain application to the original code
    let mut behaviour = json!({});
    let all_applied = cur.validators.iter().filter(|v| v.title.starts_with(&prefix)).all(|v| v.parameters.is_empty());
    if all_applied {
        let orig = validator_summary(bp0);
        let fin = validator_summary(&cur);
        for (name, ctx) in ctxs.as_object().cloned().unwrap_or_default() {
            if let Ok(ctx) = data_from_json(&ctx) {
                let code_fin = fin[0]["compiledCode"].as_str().unwrap_or("");
                let code_orig = orig[0]["compiledCode"].as_str().unwrap_or("");
                let mut args = applied.clone();
                args.push(ctx.clone());
                behaviour[name] = json!({"via_blueprint": eval_hex(code_fin, &[ctx]), "by_application": eval_hex(code_orig, &args)});
            }
        }
    }
    json!({"steps": steps, "behaviour": behaviour})
}

fn run_case(case: &J) -> J {
    let id = case["id"].clone();
    let dir = PathBuf::from(case["dir"].as_str().unwrap_or("/verif/work/bp/x"));
    let src = case["src"].as_str().unwrap_or("").to_string();
    let d2 = dir.clone();
    let extra = case["extra_files"].clone();
    let verbose = case["verbose"].as_bool().unwrap_or(false);
    let built = if let Some(text) = case["blueprint_json"].as_str() {
        // a blueprint given as text (e.g. one written for another Plutus version), not built from sources
        let t = text.to_string();
        guarded(move || serde_json::from_str::<Blueprint>(&t).map_err(|e| format!("load: {e}")))
    } else {
        let tracing = case["tracing"].clone();
        let all_types = case["all_types"].as_bool().unwrap_or(false);
        guarded(move || build(&d2, &src, &extra, verbose, &tracing, all_types))
    };
    let bp = match built {
        Err(p) => return json!({"id": id, "build": {"panic": p}}),
        Ok(Err(e)) => return json!({"id": id, "build": {"err": e}}),
        Ok(Ok(bp)) => bp,
    };
    let mut out = json!({"id": id, "build": "ok", "blueprint": serde_json::to_value(&bp).unwrap_or(J::Null)});
    if let Some(hs) = case["histories"].as_array() {
        let mut hres = vec![];
        for h in hs {
            hres.push(run_history(&bp, h, &case["ctxs"], &case["select"]));
        }
        out["histories"] = J::Array(hres);
    }
    let mut ops_out = vec![];
    for op in case["ops"].as_array().cloned().unwrap_or_default() {
        match op["op"].as_str().unwrap_or("") {
            "eval" => {
                // run one handler's published code on script contexts: {"op":"eval","title":"v.w.mint","ctxs":[data..]}
                let title = op["title"].as_str().unwrap_or("");
                let code = bp.validators.iter().find(|v| v.title == title).map(|v| serde_json::to_value(v).unwrap_or(J::Null)["compiledCode"].as_str().unwrap_or("").to_string());
                let mut res = vec![];
                match code {
                    None => res.push(json!({"o": "no such validator"})),
                    Some(code) => {
                        for c in op["ctxs"].as_array().cloned().unwrap_or_default() {
                            match data_from_json(&c) {
                                Ok(d) => res.push(eval_hex(&code, &[d])),
                                Err(e) => return json!({"id": id, "harness_error": e}),
                            }
                        }
                    }
                }
                ops_out.push(json!({"op": "eval", "title": title, "results": res}));
            }
            "validate" => {
                let vi = op["validator"].as_u64().unwrap_or(0) as usize;
                let pi = op["param"].as_u64().unwrap_or(0) as usize;
                let mut res = vec![];
                for d in op["data"].as_array().cloned().unwrap_or_default() {
                    let data = match data_from_json(&d) {
                        Ok(d) => d,
                        Err(e) => return json!({"id": id, "harness_error": e}),
                    };
                    let bpr = &bp;
                    let r = guarded(move || {
                        let v = &bpr.validators[vi];
                        let p = &v.parameters[pi];
                        p.validate(&bpr.definitions, &Constant::Data(data)).map_err(|e| format!("{e:?}").chars().take(200).collect::<String>())
                    });
                    res.push(match r {
                        Ok(Ok(())) => json!("ok"),
                        Ok(Err(e)) => json!({"err": e}),
                        Err(p) => json!({"panic": p}),
                    });
                }
                ops_out.push(json!({"op": "validate", "results": res}));
            }
            "apply" => {
                let mut cur = bp.clone();
                let mut steps = vec![];
                for d in op["data"].as_array().cloned().unwrap_or_default() {
                    let data = match data_from_json(&d) {
                        Ok(d) => d,
                        Err(e) => return json!({"id": id, "harness_error": e}),
                    };
                    let mut next = cur.clone();
                    let r = guarded(|| next.apply_parameter(None, None, &data).map_err(|e| format!("{e:?}").chars().take(200).collect::<String>()));
                    match r {
                        Ok(Ok(())) => {
                            cur = next;
                            steps.push(json!({"r": "ok", "validators": validator_summary(&cur)}));
                        }
                        Ok(Err(e)) => steps.push(json!({"r": {"err": e}, "validators": validator_summary(&cur)})),
                        Err(p) => steps.push(json!({"r": {"panic": p}, "validators": validator_summary(&cur)})),
                    }
                }
                ops_out.push(json!({"op": "apply", "steps": steps, "final": serde_json::to_value(&cur).unwrap_or(J::Null)}));
            }
            "roundtrip" => {
                let s1 = serde_json::to_string_pretty(&bp).unwrap_or_default();
                let again: Result<Blueprint, _> = serde_json::from_str(&s1);
                let r = match again {
                    Ok(b2) => {
                        let s2 = serde_json::to_string_pretty(&b2).unwrap_or_default();
                        json!({"fixed_point": s1 == s2})
                    }
                    Err(e) => json!({"err": e.to_string()}),
                };
                ops_out.push(json!({"op": "roundtrip", "r": r}));
            }
            _ => {}
        }
    }
    out["ops"] = J::Array(ops_out);
    if !case["keep"].as_bool().unwrap_or(false) {
        let _ = std::fs::remove_dir_all(&dir);
    }
    out
}

fn main() {
    silence_panics();
    let stdin = std::io::stdin();
    let lines: Vec<String> = stdin.lock().lines().map(|l| l.unwrap()).filter(|l| !l.trim().is_empty()).collect();
    let out = with_big_stack(move || {
        let mut out = vec![];
        for l in lines {
            let case: J = match serde_json::from_str(&l) {
                Ok(c) => c,
                Err(e) => {
                    out.push(json!({"harness_error": e.to_string()}).to_string());
                    continue;
                }
            };
            out.push(run_case(&case).to_string());
        }
        out
    });
    let stdout = std::io::stdout();
    let mut w = std::io::BufWriter::new(stdout.lock());
    for l in out {
        writeln!(w, "{l}").unwrap();
    }
}
