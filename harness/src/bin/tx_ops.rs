//! C19: builds a Conway transaction from an abstract description and runs uplc::tx::eval_phase_two on it.
//! The description names scripts (UPLC text), spent outputs (with datums / reference scripts), minting policies,
//! withdrawals and redeemers by TARGET; this harness computes the ledger indices (position among the sorted inputs /
//! policies / reward accounts, the ledger's rule) itself, encodes the transaction with pallas and decodes it again.
//!
//! case {"id", "scripts":[{"name","lang","text","args"}], "witness_order":[names], "inputs":[{"tx","ix","key"?,"script"?,"datum"?:{"inline"|"hash":data,"witness":bool},"ref_script"?}],
//!       "input_order":[..], "utxo_order":[..], "ref_inputs":[..], "mint":[{"script"}], "withdrawals":[{"script"}],
//!       "redeemers":[{"tag","target","data"}], "redeemers_form":"map"|"list", "budget":[cpu,mem]|null, "phase_one":bool}
//!  ->  {"ok":[{"tag","index","cpu","mem"}]} | {"err":{"class","tag","index","text"}} | {"panic"}, plus "direct":{name:{cpu,mem,ok}}
use pallas_addresses::Network;
use pallas_codec::minicbor;
use pallas_codec::utils::{Bytes, CborWrap, NonEmptyKeyValuePairs, NonEmptySet, NonZeroInt, Nullable, Set};
use pallas_crypto::hash::Hash;
use pallas_primitives::Fragment;
use pallas_primitives::conway::{
    DatumOption, ExUnits, MintedTx, PlutusScript, PostAlonzoTransactionOutput, PseudoScript, PseudoTransactionOutput, Redeemer, RedeemerTag,
    Redeemers, RedeemersKey, RedeemersValue, TransactionBody, TransactionInput, TransactionOutput, Tx, Value, WitnessSet,
};
use pallas_traverse::ComputeHash;
use serde_json::{Value as J, json};
use std::collections::BTreeMap;
use std::io::{BufRead, Write};
use uplc::ast::{DeBruijn, Name, NamedDeBruijn, Program};
use uplc::machine::cost_model::ExBudget;
use uplc::tx::{self, ResolvedInput, SlotConfig};
use vh::conv::*;

#[derive(Clone)]
struct Script {
    lang: u8,
    cbor: Vec<u8>,
    hash: Hash<28>,
    program: Program<NamedDeBruijn>,
    args: usize,
}

fn build_script(j: &J) -> Result<Script, String> {
    let text = j["text"].as_str().ok_or("script text")?;
    let lang = j["lang"].as_u64().ok_or("script lang")? as u8;
    let p: Program<Name> = uplc::parser::program(text).map_err(|e| format!("parse: {e:?}"))?;
    let db: Program<DeBruijn> = p.clone().try_into().map_err(|e| format!("debruijn: {e:?}"))?;
    let named: Program<NamedDeBruijn> = p.try_into().map_err(|e| format!("named debruijn: {e:?}"))?;
    let cbor = db.to_cbor().map_err(|e| format!("to_cbor: {e:?}"))?;
    let hash = match lang {
        1 => PlutusScript::<1>(Bytes::from(cbor.clone())).compute_hash(),
        2 => PlutusScript::<2>(Bytes::from(cbor.clone())).compute_hash(),
        _ => PlutusScript::<3>(Bytes::from(cbor.clone())).compute_hash(),
    };
    Ok(Script { lang, cbor, hash, program: named, args: j["args"].as_u64().unwrap_or(1) as usize })
}

fn script_address(h: &Hash<28>) -> Vec<u8> {
    let mut v = vec![0x71u8];
    v.extend_from_slice(h.as_ref());
    v
}

fn key_address(b: u8) -> Vec<u8> {
    let mut v = vec![0x61u8];
    v.extend_from_slice(&[b; 28]);
    v
}

fn reward_account(h: &Hash<28>) -> Vec<u8> {
    let mut v = vec![0xF1u8];
    v.extend_from_slice(h.as_ref());
    v
}

fn script_ref(s: &Script) -> CborWrap<PseudoScript<pallas_primitives::conway::NativeScript>> {
    CborWrap(match s.lang {
        1 => PseudoScript::PlutusV1Script(PlutusScript::<1>(Bytes::from(s.cbor.clone()))),
        2 => PseudoScript::PlutusV2Script(PlutusScript::<2>(Bytes::from(s.cbor.clone()))),
        _ => PseudoScript::PlutusV3Script(PlutusScript::<3>(Bytes::from(s.cbor.clone()))),
    })
}

fn run_case(case: &J) -> Result<J, String> {
    let _ = Network::Mainnet;
    let mut scripts: BTreeMap<String, Script> = BTreeMap::new();
    for s in case["scripts"].as_array().ok_or("scripts")? {
        scripts.insert(s["name"].as_str().ok_or("script name")?.to_string(), build_script(s)?);
    }
    let get = |name: &J| -> Result<&Script, String> {
        let n = name.as_str().ok_or("script reference")?;
        scripts.get(n).ok_or(format!("unknown script {n}"))
    };

    // ---- outputs being spent / referenced
    let mut witness_data = vec![];
    let mut mk_resolved = |inp: &J| -> Result<ResolvedInput, String> {
        let txb = inp["tx"].as_u64().ok_or("input tx")? as u8;
        let input = TransactionInput { transaction_id: Hash::from([txb; 32]), index: inp["ix"].as_u64().unwrap_or(0) };
        let address = if inp["script"].is_string() { script_address(&get(&inp["script"])?.hash) } else { key_address(inp["key"].as_u64().map(|k| k as u8).unwrap_or(txb)) };
        let datum_option = if inp["datum"].is_object() {
            let d = &inp["datum"];
            if !d["inline"].is_null() {
                Some(DatumOption::Data(CborWrap(data_from_json(&d["inline"])?)))
            } else {
                let data = data_from_json(&d["hash"])?;
                let h = data.compute_hash();
                if d["witness"].as_bool().unwrap_or(true) {
                    witness_data.push(data);
                }
                Some(DatumOption::Hash(h))
            }
        } else {
            None
        };
        let script_ref = if inp["ref_script"].is_string() { Some(script_ref(get(&inp["ref_script"])?)) } else { None };
        Ok(ResolvedInput {
            input,
            output: PseudoTransactionOutput::PostAlonzo(PostAlonzoTransactionOutput {
                address: Bytes::from(address),
                value: Value::Coin(2_000_000),
                datum_option,
                script_ref,
            }),
        })
    };
    let inputs: Vec<ResolvedInput> = case["inputs"].as_array().ok_or("inputs")?.iter().map(&mut mk_resolved).collect::<Result<_, _>>()?;
    let ref_inputs: Vec<ResolvedInput> = case["ref_inputs"].as_array().map(|a| a.iter().map(&mut mk_resolved).collect::<Result<Vec<_>, _>>()).transpose()?.unwrap_or_default();
    if inputs.is_empty() {
        return Err("a transaction needs an input".into());
    }

    // ---- ledger indices: position among the sorted inputs / policy ids / reward accounts
    let mut sorted_inputs: Vec<(Vec<u8>, u64)> = inputs.iter().map(|r| (r.input.transaction_id.to_vec(), r.input.index)).collect();
    sorted_inputs.sort();
    let mint_scripts: Vec<&Script> = case["mint"].as_array().map(|a| a.iter().map(|m| get(&m["script"])).collect::<Result<Vec<_>, _>>()).transpose()?.unwrap_or_default();
    let mut sorted_policies: Vec<Vec<u8>> = mint_scripts.iter().map(|s| s.hash.to_vec()).collect();
    sorted_policies.sort();
    let wd_scripts: Vec<&Script> = case["withdrawals"].as_array().map(|a| a.iter().map(|m| get(&m["script"])).collect::<Result<Vec<_>, _>>()).transpose()?.unwrap_or_default();
    let mut sorted_accounts: Vec<Vec<u8>> = wd_scripts.iter().map(|s| reward_account(&s.hash)).collect();
    sorted_accounts.sort();

    let mut redeemers = vec![];
    for r in case["redeemers"].as_array().ok_or("redeemers")? {
        let target = r["target"].as_u64().ok_or("redeemer target")? as usize;
        let (tag, index) = match r["tag"].as_str().unwrap_or("") {
            "spend" => {
                let i = &inputs.get(target).ok_or("spend target")?.input;
                (RedeemerTag::Spend, sorted_inputs.iter().position(|x| *x == (i.transaction_id.to_vec(), i.index)).unwrap())
            }
            "mint" => (RedeemerTag::Mint, sorted_policies.iter().position(|x| *x == mint_scripts.get(target).unwrap().hash.to_vec()).unwrap()),
            "withdraw" => (RedeemerTag::Reward, sorted_accounts.iter().position(|x| *x == reward_account(&wd_scripts.get(target).unwrap().hash)).unwrap()),
            t => return Err(format!("redeemer tag {t}")),
        };
        redeemers.push(Redeemer { tag, index: index as u32, data: data_from_json(&r["data"])?, ex_units: ExUnits { mem: 0, steps: 0 } });
    }

    // ---- body
    let order = |key: &str, n: usize| -> Vec<usize> {
        case[key].as_array().map(|a| a.iter().map(|x| x.as_u64().unwrap() as usize).collect()).unwrap_or_else(|| (0..n).collect())
    };
    let body_inputs: Vec<TransactionInput> = order("input_order", inputs.len()).into_iter().map(|i| inputs[i].input.clone()).collect();
    let mint = if mint_scripts.is_empty() {
        None
    } else {
        let mut kv = vec![];
        for s in case["mint_order"].as_array().map(|a| a.iter().map(|x| x.as_u64().unwrap() as usize).collect::<Vec<_>>()).unwrap_or_else(|| (0..mint_scripts.len()).collect()) {
            let assets = NonEmptyKeyValuePairs::Def(vec![(Bytes::from(vec![0xAA]), NonZeroInt::try_from(1i64).map_err(|_| "nonzero")?)]);
            kv.push((mint_scripts[s].hash, assets));
        }
        Some(NonEmptyKeyValuePairs::Def(kv))
    };
    let withdrawals = if wd_scripts.is_empty() {
        None
    } else {
        let mut kv = vec![];
        for s in case["withdrawal_order"].as_array().map(|a| a.iter().map(|x| x.as_u64().unwrap() as usize).collect::<Vec<_>>()).unwrap_or_else(|| (0..wd_scripts.len()).collect()) {
            kv.push((Bytes::from(reward_account(&wd_scripts[s].hash)), 0u64));
        }
        Some(NonEmptyKeyValuePairs::Def(kv))
    };
    let body = TransactionBody {
        inputs: Set::from(body_inputs),
        outputs: vec![PseudoTransactionOutput::PostAlonzo(PostAlonzoTransactionOutput {
            address: Bytes::from(key_address(0xEE)),
            value: Value::Coin(1_000_000),
            datum_option: None,
            script_ref: None,
        })],
        fee: 200_000,
        ttl: None,
        certificates: None,
        withdrawals,
        auxiliary_data_hash: None,
        validity_interval_start: None,
        mint,
        script_data_hash: None,
        collateral: None,
        required_signers: None,
        network_id: None,
        collateral_return: None,
        total_collateral: None,
        reference_inputs: if ref_inputs.is_empty() { None } else { NonEmptySet::from_vec(ref_inputs.iter().map(|r| r.input.clone()).collect()) },
        voting_procedures: None,
        proposal_procedures: None,
        treasury_value: None,
        donation: None,
    };

    // ---- witnesses
    let mut v1 = vec![];
    let mut v2 = vec![];
    let mut v3 = vec![];
    for n in case["witness_order"].as_array().ok_or("witness_order")? {
        let s = get(n)?;
        match s.lang {
            1 => v1.push(PlutusScript::<1>(Bytes::from(s.cbor.clone()))),
            2 => v2.push(PlutusScript::<2>(Bytes::from(s.cbor.clone()))),
            _ => v3.push(PlutusScript::<3>(Bytes::from(s.cbor.clone()))),
        }
    }
    if case["datum_order"].as_str() == Some("reversed") {
        witness_data.reverse();
    }
    let redeemer_field = if redeemers.is_empty() {
        None
    } else if case["redeemers_form"].as_str() == Some("list") {
        Some(Redeemers::List(pallas_codec::utils::MaybeIndefArray::Def(redeemers.clone())))
    } else {
        Some(Redeemers::Map(NonEmptyKeyValuePairs::Def(
            redeemers.iter().map(|r| (RedeemersKey { tag: r.tag, index: r.index }, RedeemersValue { data: r.data.clone(), ex_units: r.ex_units })).collect(),
        )))
    };
    let ws = WitnessSet {
        vkeywitness: None,
        native_script: None,
        bootstrap_witness: None,
        plutus_v1_script: NonEmptySet::from_vec(v1),
        plutus_data: NonEmptySet::from_vec(witness_data),
        redeemer: redeemer_field,
        plutus_v2_script: NonEmptySet::from_vec(v2),
        plutus_v3_script: NonEmptySet::from_vec(v3),
    };
    let txv = Tx { transaction_body: body, transaction_witness_set: ws, success: true, auxiliary_data: Nullable::Null };
    let bytes = minicbor::to_vec(&txv).map_err(|e| format!("encode: {e:?}"))?;
    let mtx = MintedTx::decode_fragment(&bytes).map_err(|e| format!("decode: {e:?}"))?;

    // ---- resolved inputs, in the requested order
    let mut all: Vec<ResolvedInput> = inputs.iter().cloned().chain(ref_inputs.iter().cloned()).collect();
    let uo = order("utxo_order", all.len());
    all = uo.into_iter().map(|i| all[i].clone()).collect();

    let budget = case["budget"].as_array().map(|b| ExBudget { cpu: b[0].as_i64().unwrap(), mem: b[1].as_i64().unwrap() });
    let phase_one = case["phase_one"].as_bool().unwrap_or(false);
    let res = guarded(|| tx::eval_phase_two(&mtx, &all, None, budget.as_ref(), &SlotConfig::default(), phase_one, |_| ()));
    let mut out = json!({"id": case["id"]});
    match res {
        Err(p) => out["panic"] = json!(p),
        Ok(Ok(rs)) => {
            out["ok"] = json!(rs
                .iter()
                .map(|(r, e)| {
                    let c = e.cost();
                    json!({"tag": format!("{:?}", r.tag), "index": r.index, "cpu": r.ex_units.steps, "mem": r.ex_units.mem, "cost_cpu": c.cpu, "cost_mem": c.mem})
                })
                .collect::<Vec<_>>())
        }
        Ok(Err(e)) => {
            let text = format!("{e:?}");
            let (tag, index, inner) = match &e {
                tx::error::Error::RedeemerError { tag, index, err } => (tag.clone(), *index as i64, format!("{err:?}")),
                other => ("".to_string(), -1, format!("{other:?}")),
            };
            let class = if inner.starts_with("Machine") {
                if inner.contains("OutOfExError") { "budget" } else { "script" }
            } else if inner.contains("Missing") || inner.contains("NotFound") {
                "missing"
            } else {
                "other"
            };
            out["err"] = json!({"class": class, "tag": tag, "index": index, "text": text.chars().take(400).collect::<String>()});
        }
    }

    // ---- the cost of each script on its own (dummy arguments; only meaningful for scripts that ignore them)
    let mut direct = serde_json::Map::new();
    if case["direct"].as_bool().unwrap_or(false) {
        for (name, s) in scripts.iter() {
            let mut p = s.program.clone();
            for _ in 0..s.args {
                p = p.apply_data(uplc::PlutusData::BigInt(pallas_primitives::alonzo::BigInt::Int(0.into())));
            }
            let lang = match s.lang {
                1 => pallas_primitives::conway::Language::PlutusV1,
                2 => pallas_primitives::conway::Language::PlutusV2,
                _ => pallas_primitives::conway::Language::PlutusV3,
            };
            let r = guarded(move || {
                let e = p.eval_version(ExBudget::default(), &lang);
                let c = e.cost();
                (c.cpu, c.mem, e.result().is_ok())
            });
            if let Ok((cpu, mem, ok)) = r {
                direct.insert(name.clone(), json!({"cpu": cpu, "mem": mem, "ok": ok}));
            }
        }
        out["direct"] = J::Object(direct);
    }
    Ok(out)
}

fn main() {
    silence_panics();
    with_big_stack(move || {
        let stdin = std::io::stdin();
        let stdout = std::io::stdout();
        for l in stdin.lock().lines() {
            let l = l.unwrap();
            if l.trim().is_empty() {
                continue;
            }
            let out = match serde_json::from_str::<J>(&l) {
                Ok(c) => match run_case(&c) {
                    Ok(o) => o.to_string(),
                    Err(e) => json!({"id": c["id"], "harness_error": e}).to_string(),
                },
                Err(e) => json!({"harness_error": e.to_string()}).to_string(),
            };
            let mut w = stdout.lock();
            writeln!(w, "{out}").unwrap();
            w.flush().unwrap();
        }
    });
}
