//! flat / CBOR / hex codecs of programs.
//! case {"id","term": de Bruijn JSON,"flat":[bytes]?,"cbor":[bytes]?,"mutants":[[bytes]..]?, "mutant_kind": "flat"|"cbor"}
use serde_json::{Value as J, json};
use std::io::{BufRead, Write};
use uplc::ast::{DeBruijn, FakeNamedDeBruijn, Name, NamedDeBruijn, Program, Term};
use vh::conv::*;

fn bytes_of(j: &J) -> Vec<u8> {
    j.as_array().map(|a| a.iter().map(|x| x.as_u64().unwrap_or(0) as u8).collect()).unwrap_or_default()
}

fn decoded(r: Result<Result<Program<DeBruijn>, String>, String>) -> J {
    match r {
        Ok(Ok(p)) => json!({"ok": term_to_json(&p.term), "version": [p.version.0, p.version.1, p.version.2]}),
        Ok(Err(e)) => json!({"err": e.chars().take(160).collect::<String>()}),
        Err(p) => json!({"panic": p}),
    }
}

fn dec_flat(b: Vec<u8>) -> J {
    decoded(guarded(move || Program::<DeBruijn>::from_flat(&b).map_err(|e| format!("{e:?}"))))
}
fn dec_cbor(b: Vec<u8>) -> J {
    decoded(guarded(move || {
        let mut buf = vec![];
        Program::<DeBruijn>::from_cbor(&b, &mut buf).map_err(|e| format!("{e:?}"))
    }))
}
fn dec_hex(h: String) -> J {
    decoded(guarded(move || {
        let mut a = vec![];
        let mut b = vec![];
        Program::<DeBruijn>::from_hex(&h, &mut a, &mut b).map_err(|e| format!("{e:?}"))
    }))
}

fn run_case(case: &J) -> J {
    let id = case["id"].clone();
    let mut out = json!({"id": id});
    if !case["term"].is_null() {
        let term: Term<DeBruijn> = match term_from_json(&case["term"]) {
            Ok(t) => t,
            Err(e) => return json!({"id": id, "harness_error": e}),
        };
        let program = Program { version: (1, 1, 0), term };
        let p1 = program.clone();
        out["to_flat"] = match guarded(move || p1.to_flat().map_err(|e| format!("{e:?}"))) {
            Ok(Ok(b)) => json!(b),
            Ok(Err(e)) => json!({"err": e}),
            Err(p) => json!({"panic": p}),
        };
        let p2 = program.clone();
        out["to_cbor"] = match guarded(move || p2.to_cbor().map_err(|e| format!("{e:?}"))) {
            Ok(Ok(b)) => json!(b),
            Ok(Err(e)) => json!({"err": e}),
            Err(p) => json!({"panic": p}),
        };
        let p3 = program.clone();
        out["to_hex"] = match guarded(move || p3.to_hex().map_err(|e| format!("{e:?}"))) {
            Ok(Ok(h)) => json!(h),
            Ok(Err(e)) => json!({"err": e}),
            Err(p) => json!({"panic": p}),
        };
        // the other binder forms: there and back
        let p4 = program.clone();
        out["named_roundtrip"] = match guarded(move || {
            let n: Program<NamedDeBruijn> = p4.clone().into();
            let b = n.to_flat().map_err(|e| format!("{e:?}"))?;
            let back = Program::<NamedDeBruijn>::from_flat(&b).map_err(|e| format!("{e:?}"))?;
            let back_db: Program<DeBruijn> = back.into();
            let f: Program<FakeNamedDeBruijn> = n.into();
            let fb = f.to_flat().map_err(|e| format!("{e:?}"))?;
            let name: Result<Program<Name>, _> = p4.clone().try_into();
            let name_ok = match name {
                Ok(np) => {
                    let nb = np.to_flat().map_err(|e| format!("{e:?}"))?;
                    let nback = Program::<Name>::from_flat(&nb).map_err(|e| format!("{e:?}"))?;
                    let nd: Program<DeBruijn> = nback.try_into().map_err(|e| format!("{e}"))?;
                    json!(term_to_json(&nd.term))
                }
                Err(_) => J::Null,
            };
            Ok::<J, String>(json!({"named": term_to_json(&back_db.term), "fake_named_bytes": fb, "name": name_ok}))
        }) {
            Ok(Ok(j)) => j,
            Ok(Err(e)) => json!({"err": e}),
            Err(p) => json!({"panic": p}),
        };
    }
    if case.get("flat").is_some() && !case["flat"].is_null() {
        out["from_flat"] = dec_flat(bytes_of(&case["flat"]));
    }
    if case.get("cbor").is_some() && !case["cbor"].is_null() {
        let c = bytes_of(&case["cbor"]);
        out["from_hex"] = dec_hex(hex::encode(&c));
        out["from_cbor"] = dec_cbor(c);
    }
    if let Some(ms) = case["mutants"].as_array() {
        let kind = case["mutant_kind"].as_str().unwrap_or("flat");
        let mut res = vec![];
        for m in ms {
            let b = bytes_of(m);
            let r = if kind == "cbor" { dec_cbor(b) } else { dec_flat(b) };
            // what decodes must re-encode and decode to itself
            let r = if let Some(t) = r.get("ok") {
                let again = match term_from_json::<DeBruijn>(t) {
                    Ok(term) => {
                        let v = r["version"].clone();
                        let version = (v[0].as_u64().unwrap_or(1) as usize, v[1].as_u64().unwrap_or(0) as usize, v[2].as_u64().unwrap_or(0) as usize);
                        match guarded(move || {
                            let p = Program { version, term };
                            let b = p.to_flat().map_err(|e| format!("{e:?}"))?;
                            let q = Program::<DeBruijn>::from_flat(&b).map_err(|e| format!("{e:?}"))?;
                            Ok::<bool, String>(q == p)
                        }) {
                            Ok(Ok(same)) => json!(same),
                            Ok(Err(e)) => json!({"err": e}),
                            Err(p) => json!({"panic": p}),
                        }
                    }
                    Err(_) => J::Null,
                };
                json!({"ok": true, "stable": again})
            } else {
                r
            };
            res.push(r);
        }
        out["mutants"] = J::Array(res);
    }
    out
}

fn main() {
    silence_panics();
    let stdin = std::io::stdin();
    let lines: Vec<String> = stdin.lock().lines().map(|l| l.unwrap()).filter(|l| !l.trim().is_empty()).collect();
    let out = with_big_stack(move || {
        lines
            .iter()
            .map(|l| match serde_json::from_str::<J>(l) {
                Ok(c) => run_case(&c).to_string(),
                Err(e) => json!({"harness_error": e.to_string()}).to_string(),
            })
            .collect::<Vec<_>>()
    });
    let stdout = std::io::stdout();
    let mut w = std::io::BufWriter::new(stdout.lock());
    for l in out {
        writeln!(w, "{l}").unwrap();
    }
}
