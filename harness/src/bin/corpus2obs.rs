//! Upstream conformance corpus -> observation events (ndjson) for spec anchoring:
//! args: <root dir> <sem letter>. The recorded outcome is the GOLDEN (.uplc.expected /
//! .uplc.budget.expected), not the result of running the code under test.
use serde_json::json;
use std::path::Path;
use uplc::ast::{DeBruijn, Program};
use vh::conv::*;

fn walk(dir: &Path, out: &mut Vec<std::path::PathBuf>) {
    let mut es: Vec<_> = std::fs::read_dir(dir).unwrap().map(|e| e.unwrap().path()).collect();
    es.sort();
    for p in es {
        if p.is_dir() {
            walk(&p, out)
        } else if p.extension().and_then(|e| e.to_str()) == Some("uplc") {
            out.push(p)
        }
    }
}

fn parse(code: &str, canonical: bool) -> Result<Program<DeBruijn>, String> {
    let code = code.to_string();
    guarded(move || {
        let p = if canonical {
            uplc::parser::program_with_canonical_value_literals(&code)
        } else {
            uplc::parser::program(&code)
        }
        .map_err(|e| format!("parse: {e}"))?;
        p.to_debruijn().map_err(|e| format!("debruijn: {e}"))
    })
    .unwrap_or_else(|m| Err(format!("panic: {m}")))
}

fn main() {
    silence_panics();
    let args: Vec<String> = std::env::args().collect();
    let root = Path::new(&args[1]);
    let sem = &args[2];
    let canonical = sem == "E";
    let mut files = vec![];
    walk(root, &mut files);
    for f in files {
        let id = f.strip_prefix(root).unwrap().display().to_string();
        let code = std::fs::read_to_string(&f).unwrap();
        let expected = std::fs::read_to_string(f.with_extension("uplc.expected")).unwrap_or_default();
        let budget = std::fs::read_to_string(f.with_extension("uplc.budget.expected")).unwrap_or_default();
        if expected.contains("parse error") {
            println!("{}", json!({"id": id, "drop": "golden: parse error"}));
            continue;
        }
        let prog = match parse(&code, canonical) {
            Ok(p) => p,
            Err(e) => {
                println!("{}", json!({"id": id, "drop": format!("input not usable: {e}")}));
                continue;
            }
        };
        take_unsupported();
        let term = term_to_json(&prog.term);
        let out = if expected.contains("evaluation failure") {
            json!({"o":"fail"})
        } else {
            match parse(&expected, canonical) {
                Ok(p) => json!({"o":"val","v":term_to_json(&p.term)}),
                Err(e) => {
                    println!("{}", json!({"id": id, "drop": format!("golden not usable: {e}")}));
                    continue;
                }
            }
        };
        if take_unsupported() {
            println!("{}", json!({"id": id, "drop": "constants outside the modelled universe"}));
            continue;
        }
        let nums: Vec<i64> = budget
            .split(|c: char| !c.is_ascii_digit())
            .filter(|s| !s.is_empty())
            .filter_map(|s| s.parse().ok())
            .collect();
        let cost = if nums.len() == 2 && nums[0] < (1 << 31) && nums[1] < (1 << 31) {
            json!({"cpu": nums[0], "mem": nums[1]})
        } else {
            json!({})
        };
        println!("{}", json!({"id": id, "term": term, "sem": sem, "out": out, "cost": cost, "chk": "both"}));
    }
}
