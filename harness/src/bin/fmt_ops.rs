//! C13: the Aiken parser and formatter on one source text.
//! case {"id","src"[, "expr":true]}  ->
//!   {"id","parse":"ok"|"err", "defs":[debug text per definition], "docs":[..], "comments":{module,doc,plain},
//!    "out": formatted text, "parse2":..., "defs2", "docs2", "comments2", "out2": formatted again,
//!    "tree"/"tree2": operator tree of the body of the first function (when "expr")}
use aiken_lang::ast::{ModuleKind, UntypedDefinition};
use aiken_lang::expr::UntypedExpr;
use serde_json::{Value as J, json};
use std::io::{BufRead, Write};
use vh::conv::*;

fn tree(e: &UntypedExpr) -> J {
    match e {
        UntypedExpr::Var { name, .. } if name.contains(aiken_lang::ast::CAPTURE_VARIABLE) => json!({"k": "hole"}),
        UntypedExpr::Var { name, .. } if name.chars().next().map(|c| c.is_uppercase()).unwrap_or(false) => {
            json!({"k": "call", "f": name, "args": []})
        }
        UntypedExpr::Var { name, .. } => json!({"k": "v", "x": name}),
        UntypedExpr::Call { fun, arguments, .. } => match fun.as_ref() {
            UntypedExpr::Var { name, .. } => json!({
                "k": "call",
                "f": name,
                "args": arguments.iter().map(|a| json!({"l": a.label.clone().unwrap_or_default(), "v": tree(&a.value)})).collect::<Vec<_>>(),
            }),
            other => json!({"k": "other", "dbg": format!("{other:?}")}),
        },
        // a capture is its call with the hole in place
        UntypedExpr::Fn { fn_style: aiken_lang::expr::FnStyle::Capture, body, .. } => tree(body),
        UntypedExpr::UnOp { op, value, .. } => {
            let o = match op {
                aiken_lang::ast::UnOp::Not => "!",
                aiken_lang::ast::UnOp::Negate => "neg",
            };
            json!({"k": "un", "op": o, "e": tree(value)})
        }
        UntypedExpr::BinOp { name, left, right, .. } => {
            json!({"k": "bin", "op": format!("{}", name_of(name)), "l": tree(left), "r": tree(right)})
        }
        UntypedExpr::PipeLine { expressions, .. } => {
            json!({"k": "pipe", "es": expressions.iter().map(tree).collect::<Vec<_>>()})
        }
        other => json!({"k": "other", "dbg": format!("{other:?}")}),
    }
}

fn name_of(op: &aiken_lang::ast::BinOp) -> &'static str {
    use aiken_lang::ast::BinOp::*;
    match op {
        And => "&&",
        Or => "||",
        Eq => "==",
        NotEq => "!=",
        LtInt => "<",
        LtEqInt => "<=",
        GtEqInt => ">=",
        GtInt => ">",
        AddInt => "+",
        SubInt => "-",
        MultInt => "*",
        DivInt => "/",
        ModInt => "%",
    }
}

/// erase source positions from Debug text: spans print as `12..34`, plus the `end_position: 56` fields
fn erase(s: &str) -> String {
    let b: Vec<char> = s.chars().collect();
    let mut out = String::with_capacity(s.len());
    let mut i = 0;
    let is_d = |c: char| c.is_ascii_digit();
    while i < b.len() {
        if is_d(b[i]) && (i == 0 || !(b[i - 1].is_alphanumeric() || b[i - 1] == '_')) {
            let mut j = i;
            while j < b.len() && is_d(b[j]) {
                j += 1;
            }
            if j + 2 < b.len() && b[j] == '.' && b[j + 1] == '.' && is_d(b[j + 2]) {
                let mut k = j + 2;
                while k < b.len() && is_d(b[k]) {
                    k += 1;
                }
                out.push('_');
                i = k;
                continue;
            }
            let pre: String = out.chars().rev().take(14).collect::<Vec<_>>().into_iter().rev().collect();
            if pre == "end_position: " {
                out.push('_');
                i = j;
                continue;
            }
            for c in &b[i..j] {
                out.push(*c);
            }
            i = j;
            continue;
        }
        out.push(b[i]);
        i += 1;
    }
    out
}

struct Parsed {
    defs: Vec<String>,
    docs: Vec<String>,
    comments: J,
    tree: J,
    out: String,
}

fn parse_and_format(src: String, want_tree: bool) -> Result<Result<Parsed, String>, String> {
    guarded(move || {
        let (module, extra) = match aiken_lang::parser::module(&src, ModuleKind::Lib) {
            Ok(x) => x,
            Err(es) => return Err(format!("{:?}", es.first())),
        };
        let text = |spans: &Vec<aiken_lang::ast::Span>| -> Vec<String> {
            spans.iter().map(|s| src.get(s.start..s.end).unwrap_or("<bad span>").to_string()).collect()
        };
        let comments = json!({"module": text(&extra.module_comments), "doc": text(&extra.doc_comments), "plain": text(&extra.comments)});
        let defs: Vec<String> = module.definitions.iter().map(|d| erase(&format!("{d:?}"))).collect();
        let docs = module.docs.clone();
        let mut t = J::Null;
        if want_tree {
            for d in module.definitions.iter() {
                if let UntypedDefinition::Fn(f) = d {
                    t = tree(&f.body);
                    break;
                }
            }
        }
        let mut out = String::new();
        aiken_lang::format::pretty(&mut out, module, extra, &src);
        Ok(Parsed { defs, docs, comments, tree: t, out })
    })
}

fn run_case(case: &J) -> J {
    let id = case["id"].clone();
    let src = case["src"].as_str().unwrap_or("").to_string();
    let want_tree = case["expr"].as_bool().unwrap_or(false);
    let lean = case["lean"].as_bool().unwrap_or(false);
    let mut o = json!({"id": id});
    let p1 = match parse_and_format(src.clone(), want_tree) {
        Err(p) => {
            o["panic"] = json!(p);
            o["stage"] = json!("parse/format");
            return o;
        }
        Ok(Err(e)) => {
            o["parse"] = json!("err");
            o["error"] = json!(e);
            return o;
        }
        Ok(Ok(p)) => p,
    };
    o["parse"] = json!("ok");
    o["out"] = json!(p1.out);
    // `aiken fmt FILE`: the file is overwritten in place
    if let Some(dir) = case["inplace_dir"].as_str() {
        let path = std::path::Path::new(dir).join(format!("m{}.ak", std::process::id()));
        let _ = std::fs::create_dir_all(dir);
        if std::fs::write(&path, &src).is_ok() {
            let p = path.to_string_lossy().to_string();
            let r = guarded(move || aiken_project::format::run(false, false, vec![p]).map_err(|es| format!("{} errors", es.len())));
            match r {
                Err(pn) => o["inplace_panic"] = json!(pn),
                Ok(Err(e)) => o["inplace_err"] = json!(e),
                Ok(Ok(())) => {
                    let on_disk = std::fs::read_to_string(&path).unwrap_or_else(|e| format!("<unreadable: {e}>"));
                    o["inplace_same"] = json!(on_disk == p1.out);
                    if on_disk != p1.out {
                        o["inplace_out"] = json!(on_disk.chars().take(4000).collect::<String>());
                    }
                }
            }
            let _ = std::fs::remove_file(&path);
        }
    }
    if want_tree {
        o["tree"] = p1.tree.clone();
    }
    let p2 = match parse_and_format(p1.out.clone(), want_tree) {
        Err(p) => {
            o["panic"] = json!(p);
            o["stage"] = json!("parse/format of the formatted text");
            return o;
        }
        Ok(Err(e)) => {
            o["parse2"] = json!("err");
            o["error2"] = json!(e);
            return o;
        }
        Ok(Ok(p)) => p,
    };
    o["parse2"] = json!("ok");
    o["idempotent"] = json!(p2.out == p1.out);
    if p2.out != p1.out {
        o["out2"] = json!(p2.out);
    }
    if want_tree {
        o["tree2"] = p2.tree.clone();
    }
    o["comments_same"] = json!(p1.comments == p2.comments);
    o["docs_same"] = json!(p1.docs == p2.docs);
    if !lean || p1.comments != p2.comments {
        o["comments"] = p1.comments;
        o["comments2"] = p2.comments;
    }
    if p1.docs != p2.docs {
        o["docs"] = json!(p1.docs);
        o["docs2"] = json!(p2.docs);
    }
    if !lean || p1.defs != p2.defs {
        o["defs"] = json!(p1.defs);
        o["defs2"] = json!(p2.defs);
    }
    o
}

fn main() {
    silence_panics();
    with_big_stack(move || {
        let stdin = std::io::stdin();
        let stdout = std::io::stdout();
        for l in stdin.lock().lines() {
            let l = l.unwrap();
            if l.trim().is_empty() {
                continue;
            }
            let out = match serde_json::from_str::<J>(&l) {
                Ok(c) => run_case(&c).to_string(),
                Err(e) => json!({"harness_error": e.to_string()}).to_string(),
            };
            let mut w = stdout.lock();
            writeln!(w, "{out}").unwrap();
            w.flush().unwrap();
        }
    });
}
