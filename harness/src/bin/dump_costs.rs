//! One-off: print the builtin cost model (Debug) per semantics variant, to seed spec/UplcCostTable.tla.
use uplc::machine::cost_model::CostModel;
fn main() {
    for v in ["A", "B", "C", "D", "E"] {
        let (lang, pv) = vh::evalcase::variant(v).unwrap();
        let cm = CostModel::default_for_language_and_protocol(&lang, pv);
        println!("=== {v}");
        println!("{:#?}", cm);
    }
}
