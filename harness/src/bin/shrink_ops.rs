//! Drives the real shrinker (Counterexample::simplify) and its Cache with abstract fuzzers / properties
//! that mirror spec/Shrink.tla (the mirror is cross-checked against TLC's own table by the check).
use aiken_lang::test_framework::{Cache, Counterexample, Status};
use serde_json::{Value as J, json};
use std::cell::RefCell;
use std::io::{BufRead, Write};
use uplc::PlutusData;
use vh::conv::*;

fn fuzz(f: &str, c: &[u8]) -> Option<i64> {
    let at = |i: usize| c[i] as i64;
    match f {
        "const" => Some(7),
        "byte" => (!c.is_empty()).then(|| at(0)),
        "pair" => (c.len() >= 2).then(|| at(0) * 256 + at(1)),
        "list" => {
            if c.is_empty() {
                return None;
            }
            let n = (c[0] % 4) as usize;
            (c.len() >= 1 + n).then(|| c[1..1 + n].iter().map(|x| *x as i64).sum())
        }
        "until" => {
            for i in 0..c.len().min(4) {
                if c[i] == 0 {
                    return Some(i as i64);
                }
            }
            (c.len() >= 4).then_some(4)
        }
        "picky" => {
            if c.is_empty() || c[0] % 2 == 1 || c.len() < 2 {
                None
            } else {
                Some(at(0) + at(1))
            }
        }
        "branch" => {
            if c.is_empty() {
                None
            } else if c[0] < 2 {
                (c.len() >= 2).then(|| at(1))
            } else {
                (c.len() >= 3).then(|| at(1) * at(2) + at(0))
            }
        }
        _ => None,
    }
}

fn holds(p: &str, v: i64) -> bool {
    match p {
        "never" => false,
        "always" => true,
        "lt3" => v < 3,
        "even" => v % 2 == 0,
        "ne5" => v != 5,
        "le300" => v <= 300,
        _ => true,
    }
}

fn status(f: &str, p: &str, mode: &str, c: &[u8]) -> Status<PlutusData> {
    match fuzz(f, c) {
        None => Status::Invalid,
        Some(v) => {
            let failure = !holds(p, v);
            let keep = if mode == "succeed_eventually" { !failure } else { failure };
            if keep { Status::Keep(uplc::ast::Data::integer(v.into())) } else { Status::Ignore }
        }
    }
}

fn status_json(s: &Status<PlutusData>) -> J {
    match s {
        Status::Invalid => json!({"s": "invalid"}),
        Status::Ignore => json!({"s": "ignore"}),
        Status::Keep(d) => json!({"s": "keep", "v": data_to_json(d)["v"]}),
    }
}

fn bytes(j: &J) -> Vec<u8> {
    j.as_array().map(|a| a.iter().map(|x| x.as_u64().unwrap_or(0) as u8).collect()).unwrap_or_default()
}

fn run_case(case: &J) -> J {
    let id = case["id"].clone();
    let f = case["f"].as_str().unwrap_or("").to_string();
    let p = case["p"].as_str().unwrap_or("").to_string();
    let mode = case["mode"].as_str().unwrap_or("fail_immediately").to_string();
    match case["op"].as_str().unwrap_or("") {
        "table" => {
            let rows: Vec<J> = case["seqs"].as_array().cloned().unwrap_or_default().iter().map(|c| status_json(&status(&f, &p, &mode, &bytes(c)))).collect();
            json!({"id": id, "table": rows})
        }
        "cache" => {
            let log: RefCell<Vec<Vec<u8>>> = RefCell::new(vec![]);
            let r = guarded(|| {
                let mut cache = Cache::new(|c: &[u8]| {
                    log.borrow_mut().push(c.to_vec());
                    status(&f, &p, &mode, c)
                });
                let mut out = vec![];
                for c in case["hist"].as_array().cloned().unwrap_or_default() {
                    let before = log.borrow().len();
                    let a = cache.get(&bytes(&c));
                    out.push(json!({"a": status_json(&a), "ran": log.borrow().len() > before}));
                }
                out
            });
            match r {
                Ok(o) => json!({"id": id, "answers": o}),
                Err(m) => json!({"id": id, "panic": m}),
            }
        }
        "simplify" => {
            let init = bytes(&case["init"]);
            let log: RefCell<Vec<(Vec<u8>, J)>> = RefCell::new(vec![]);
            let Status::Keep(value) = status(&f, &p, &mode, &init) else {
                return json!({"id": id, "harness_error": "initial sequence is not a counterexample"});
            };
            let r = guarded(|| {
                let mut cx = Counterexample {
                    value,
                    choices: init.clone(),
                    cache: Cache::new(|c: &[u8]| {
                        let s = status(&f, &p, &mode, c);
                        if log.borrow().len() < 20000 {
                            log.borrow_mut().push((c.to_vec(), status_json(&s)));
                        }
                        s
                    }),
                };
                cx.simplify();
                (cx.choices.clone(), data_to_json(&cx.value)["v"].clone())
            });
            match r {
                Ok((choices, value)) => {
                    let q: Vec<J> = log.borrow().iter().map(|(c, s)| json!({"c": c, "s": s})).collect();
                    json!({"id": id, "final": choices, "value": value, "queries": q})
                }
                Err(m) => json!({"id": id, "panic": m}),
            }
        }
        _ => json!({"id": id, "harness_error": "unknown op"}),
    }
}

fn main() {
    silence_panics();
    let stdin = std::io::stdin();
    let stdout = std::io::stdout();
    let mut w = std::io::BufWriter::new(stdout.lock());
    for l in stdin.lock().lines() {
        let l = l.unwrap();
        if l.trim().is_empty() {
            continue;
        }
        let case: J = serde_json::from_str(&l).unwrap_or(J::Null);
        writeln!(w, "{}", run_case(&case)).unwrap();
    }
}
