//! UPLC concrete syntax: parser on the specification's text; printer -> parser round trip.
//! case: {"id","term": de Bruijn JSON,"text": spec text}
use serde_json::{Value as J, json};
use std::io::{BufRead, Write};
use uplc::ast::{DeBruijn, Name, Program, Term};
use vh::conv::*;

fn parse_db(text: &str) -> J {
    let t = text.to_string();
    match guarded(move || {
        let p = uplc::parser::program(&t).map_err(|e| format!("parse: {e}").chars().take(200).collect::<String>())?;
        let version = p.version;
        let d: Program<DeBruijn> = p.to_debruijn().map_err(|e| format!("debruijn: {e}"))?;
        Ok::<J, String>(json!({"ok": term_to_json(&d.term), "version": [version.0, version.1, version.2]}))
    }) {
        Ok(Ok(j)) => j,
        Ok(Err(e)) => json!({"err": e}),
        Err(p) => json!({"panic": p}),
    }
}

fn run_case(case: &J) -> J {
    let id = case["id"].clone();
    let mut out = json!({"id": id});
    if let Some(text) = case["text"].as_str() {
        let mut r = parse_db(text);
        if case["quiet"].as_bool().unwrap_or(false) {
            // only the class of the answer is wanted (the input may nest thousands of levels)
            if r.get("ok").is_some() {
                r = json!({"ok": true});
            }
            return json!({"id": id, "parse_spec_text": r});
        }
        out["parse_spec_text"] = r;
    }
    let term: Term<DeBruijn> = match term_from_json(&case["term"]) {
        Ok(t) => t,
        Err(e) => return json!({"id": id, "harness_error": e}),
    };
    let version = (1, 1, 0);
    // printer on the de Bruijn form and on the named form
    let t1 = term.clone();
    let printed_db = guarded(move || Program { version, term: t1 }.to_pretty());
    let t2 = term.clone();
    let printed_named = guarded(move || {
        let p: Program<Name> = Program { version, term: t2 }.try_into().map_err(|e| format!("{e}"))?;
        Ok::<String, String>(p.to_pretty())
    });
    for (key, printed) in [("db", printed_db.map(Ok::<String, String>)), ("named", printed_named)] {
        out[key] = match printed {
            Err(p) => json!({"print_panic": p}),
            Ok(Err(e)) => json!({"print_err": e}),
            Ok(Ok(text)) => {
                let back = parse_db(&text);
                // printing what was parsed must reproduce the text (fixed point)
                let text2 = text.clone();
                let again = guarded(move || uplc::parser::program(&text2).map(|p| p.to_pretty()).map_err(|e| format!("{e}")));
                let fixed = match (&again, key) {
                    (Ok(Ok(t2)), "named") => json!(t2 == &text),
                    (Ok(Ok(_)), _) => J::Null,
                    _ => json!(false),
                };
                json!({"text": text, "back": back, "fixed_point": fixed})
            }
        };
    }
    out
}

fn main() {
    silence_panics();
    let stdin = std::io::stdin();
    let lines: Vec<String> = stdin.lock().lines().map(|l| l.unwrap()).filter(|l| !l.trim().is_empty()).collect();
    let out = with_big_stack(move || {
        lines
            .iter()
            .map(|l| match serde_json::from_str::<J>(l) {
                Ok(c) => run_case(&c).to_string(),
                Err(e) => json!({"harness_error": e.to_string()}).to_string(),
            })
            .collect::<Vec<_>>()
    });
    let stdout = std::io::stdout();
    let mut w = std::io::BufWriter::new(stdout.lock());
    for l in out {
        writeln!(w, "{l}").unwrap();
    }
}
