//! stdin ndjson cases -> the real parser / checker / code generator / optimiser / machine.
//! case: {"id","src","kind"?, "tracings":[[scope,level]..], "fns":[{"name","args":[[Data..]..]}], "pre"?:bool, "stages"?:bool}
use aiken_lang::ast::ModuleKind;
use serde_json::{Value as J, json};
use std::io::{BufRead, Write};
use uplc::ast::{Name, Program, Term};
use uplc::optimize::interner::CodeGenInterner;
use uplc::optimize::shrinker::Context;
use vh::aikenrun::*;
use vh::conv::*;

fn repeatedly(prev: &mut usize, mut p: Program<Name>) -> Program<Name> {
    loop {
        let (np, Context { node_count, .. }) = p.multi_pass();
        p = np;
        if node_count == *prev {
            break;
        }
        *prev = node_count;
    }
    p
}

/// the stages of aiken_optimize_and_intern, replayed one by one through its public pieces
fn stages(pre: &Program<Name>) -> Vec<(&'static str, Program<Name>)> {
    let mut out = vec![];
    let mut n = 0usize;
    let p = pre.clone().run_once_pass();
    out.push(("run_once_pass", p.clone()));
    let p = repeatedly(&mut n, p);
    out.push(("multi_pass*", p.clone()));
    let p = p.builtin_curry_reducer();
    out.push(("curry_1", p.clone()));
    let p = p.multi_pass().0;
    out.push(("multi_pass", p.clone()));
    let p = p.builtin_curry_reducer();
    out.push(("curry_2", p.clone()));
    let p = repeatedly(&mut n, p);
    out.push(("multi_pass**", p.clone()));
    let p = p.clean_up_no_inlines();
    out.push(("clean_up_no_inlines", p.clone()));
    let p = p.afterwards();
    out.push(("afterwards", p));
    out
}

/// `(lam __no_inline__ body)` is a marker the code generator leaves for the optimiser (it is not
/// applied to anything; `clean_up_no_inlines` erases it): erase it before evaluating an
/// intermediate program, so that what is compared is the meaning of the program.
fn strip_markers(t: &Term<Name>) -> Term<Name> {
    use std::rc::Rc;
    match t {
        Term::Lambda { parameter_name, body } if parameter_name.text == uplc::optimize::shrinker::NO_INLINE => strip_markers(body),
        Term::Lambda { parameter_name, body } => Term::Lambda {
            parameter_name: parameter_name.clone(),
            body: Rc::new(strip_markers(body)),
        },
        Term::Delay(b) => Term::Delay(Rc::new(strip_markers(b))),
        Term::Force(b) => Term::Force(Rc::new(strip_markers(b))),
        Term::Apply { function, argument } => Term::Apply {
            function: Rc::new(strip_markers(function)),
            argument: Rc::new(strip_markers(argument)),
        },
        Term::Constr { tag, fields } => Term::Constr {
            tag: *tag,
            fields: fields.iter().map(strip_markers).collect(),
        },
        Term::Case { constr, branches } => Term::Case {
            constr: Rc::new(strip_markers(constr)),
            branches: branches.iter().map(strip_markers).collect(),
        },
        other => other.clone(),
    }
}

fn interned(p: &Program<Name>) -> Program<Name> {
    let mut q = Program {
        version: p.version,
        term: strip_markers(&p.term),
    };
    CodeGenInterner::new().program(&mut q);
    q
}

fn run_case(case: &J) -> J {
    let id = case["id"].clone();
    let src = case["src"].as_str().unwrap_or("").to_string();
    let kind = if case["kind"].as_str() == Some("validator") { ModuleKind::Validator } else { ModuleKind::Lib };
    let default_tr = json!([["all", "silent"]]);
    let tracings = case.get("tracings").unwrap_or(&default_tr).as_array().cloned().unwrap_or_default();
    let want_pre = case["pre"].as_bool().unwrap_or(false);
    let want_stages = case["stages"].as_bool().unwrap_or(false);
    let mut runs = vec![];
    for tr in &tracings {
        let tracing = match tracing_from(tr) {
            Ok(t) => t,
            Err(e) => return json!({"id": id, "harness_error": e}),
        };
        let src2 = src.clone();
        let checked = guarded(move || check_module(&src2, kind, tracing));
        let (checked, warnings) = match checked {
            Err(p) => {
                runs.push(json!({"tracing": tr, "check": {"panic": p}}));
                continue;
            }
            Ok(Err(e)) => {
                runs.push(json!({"tracing": tr, "check": e}));
                continue;
            }
            Ok(Ok(x)) => x,
        };
        let mut fns_out = vec![];
        for f in case["fns"].as_array().cloned().unwrap_or_default() {
            let name = f["name"].as_str().unwrap_or("").to_string();
            let Some(func) = checked.function(&name) else {
                fns_out.push(json!({"name": name, "compile": {"missing": true}}));
                continue;
            };
            let func = func.clone();
            let checked_ref = std::panic::AssertUnwindSafe(&checked);
            let compiled = guarded(move || {
                let mut generator = checked_ref.generator(tracing);
                uplc::optimize::verif_hook::start();
                let program = generator.generate_raw(&func.body, &func.arguments, MODULE);
                let pre = uplc::optimize::verif_hook::take();
                (program, pre)
            });
            let (post, pre) = match compiled {
                Ok(x) => x,
                Err(p) => {
                    let _ = uplc::optimize::verif_hook::take();
                    fns_out.push(json!({"name": name, "compile": {"panic": p}}));
                    continue;
                }
            };
            let mut fo = json!({"name": name, "compile": "ok", "pre_count": pre.len()});
            let pre_prog = pre.last().cloned();
            if case["dump"].as_bool().unwrap_or(false) {
                fo["post_uplc"] = json!(post.to_pretty());
                if let Some(p) = &pre_prog {
                    fo["pre_uplc"] = json!(p.to_pretty());
                }
            }
            let stage_progs = if want_stages {
                match &pre_prog {
                    Some(p) => {
                        let p2 = std::panic::AssertUnwindSafe(p.clone());
                        match guarded(move || stages(&p2)) {
                            Ok(s) => Some(s),
                            Err(m) => {
                                fo["stages_panic"] = json!(m);
                                None
                            }
                        }
                    }
                    None => None,
                }
            } else {
                None
            };
            if let Some(s) = &stage_progs {
                let last = &s.last().unwrap().1;
                let a = last.clone().to_debruijn().map(|p| p.to_pretty()).unwrap_or_default();
                let b = post.clone().to_debruijn().map(|p| p.to_pretty()).unwrap_or_default();
                fo["replica_matches_post"] = json!(a == b);
            }
            let mut results = vec![];
            for args in f["args"].as_array().cloned().unwrap_or_default() {
                let datas: Result<Vec<_>, _> = args.as_array().cloned().unwrap_or_default().iter().map(data_from_json).collect();
                let datas = match datas {
                    Ok(d) => d,
                    Err(e) => return json!({"id": id, "harness_error": e}),
                };
                let mut r = json!({"post": run_program(&post, &datas)});
                if want_pre {
                    if let Some(p) = &pre_prog {
                        r["pre"] = run_program(&interned(p), &datas);
                    }
                }
                if let Some(s) = &stage_progs {
                    let mut so = vec![];
                    for (n, p) in s {
                        so.push(json!({"stage": n, "out": run_program(&interned(p), &datas)}));
                    }
                    r["stages"] = J::Array(so);
                }
                results.push(r);
            }
            fo["results"] = J::Array(results);
            fns_out.push(fo);
        }
        runs.push(json!({"tracing": tr, "check": "ok", "warnings": warnings, "fns": fns_out}));
    }
    json!({"id": id, "runs": runs})
}

fn main() {
    silence_panics();
    let stdin = std::io::stdin();
    let lines: Vec<String> = stdin.lock().lines().map(|l| l.unwrap()).filter(|l| !l.trim().is_empty()).collect();
    let out = with_big_stack(move || {
        let mut out = vec![];
        for l in lines {
            let case: J = match serde_json::from_str(&l) {
                Ok(c) => c,
                Err(e) => {
                    out.push(json!({"harness_error": e.to_string()}).to_string());
                    continue;
                }
            };
            out.push(run_case(&case).to_string());
        }
        out
    });
    let stdout = std::io::stdout();
    let mut w = std::io::BufWriter::new(stdout.lock());
    for l in out {
        writeln!(w, "{l}").unwrap();
    }
}
