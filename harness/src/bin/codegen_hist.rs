//! Replays generation histories on one real CodeGenerator instance and on fresh ones.
//! case: {"id","src","items":[{"kind":"fn"|"validator","name"}], "histories":[[["g",i]|["f",i]|["c"]..]..], "tracing":[scope,level]}
use aiken_lang::ast::{Definition, ModuleKind};
use serde_json::{Value as J, json};
use std::io::{BufRead, Write};
use vh::aikenrun::*;
use vh::conv::*;

fn gen_item(generator: &mut aiken_lang::gen_uplc::CodeGenerator<'_>, checked: &Checked, item: &J) -> Result<String, String> {
    let name = item["name"].as_str().unwrap_or("");
    let program = if item["kind"].as_str() == Some("validator") {
        let v = checked
            .ast
            .definitions()
            .find_map(|d| match d {
                Definition::Validator(v) if v.name == name => Some(v.clone()),
                _ => None,
            })
            .ok_or("no such validator")?;
        generator.generate(&v, MODULE)
    } else {
        let f = checked.function(name).ok_or("no such function")?.clone();
        generator.generate_raw(&f.body, &f.arguments, MODULE)
    };
    program.to_debruijn().map_err(|e| format!("{e}"))?.to_hex().map_err(|e| format!("{e:?}"))
}

fn run_case(case: &J) -> J {
    let id = case["id"].clone();
    let src = case["src"].as_str().unwrap_or("").to_string();
    let tracing = match tracing_from(case.get("tracing").unwrap_or(&json!(["all", "silent"]))) {
        Ok(t) => t,
        Err(e) => return json!({"id": id, "harness_error": e}),
    };
    let (checked, _) = match check_module(&src, ModuleKind::Validator, tracing) {
        Ok(x) => x,
        Err(e) => return json!({"id": id, "harness_error": format!("module rejected: {e}")}),
    };
    let items = case["items"].as_array().cloned().unwrap_or_default();
    let mut fresh = vec![];
    for it in &items {
        let r = guarded(|| {
            let mut g = checked.generator(tracing);
            gen_item(&mut g, &checked, it)
        });
        fresh.push(match r {
            Ok(Ok(h)) => json!(h),
            Ok(Err(e)) => json!({"err": e}),
            Err(p) => json!({"panic": p}),
        });
    }
    let mut hres = vec![];
    for h in case["histories"].as_array().cloned().unwrap_or_default() {
        let r = guarded(|| {
            let mut g = checked.generator(tracing);
            let mut outs = vec![];
            for op in h.as_array().cloned().unwrap_or_default() {
                let kind = op[0].as_str().unwrap_or("");
                let i = op[1].as_u64().unwrap_or(1) as usize;
                match kind {
                    "g" => outs.push(match gen_item(&mut g, &checked, &items[i - 1]) {
                        Ok(h) => json!(h),
                        Err(e) => json!({"err": e}),
                    }),
                    "f" => {
                        let mut c = g.clone();
                        outs.push(match gen_item(&mut c, &checked, &items[i - 1]) {
                            Ok(h) => json!(h),
                            Err(e) => json!({"err": e}),
                        });
                    }
                    "c" => {
                        g = g.clone();
                        outs.push(J::Null);
                    }
                    _ => outs.push(J::Null),
                }
            }
            outs
        });
        hres.push(match r {
            Ok(o) => J::Array(o),
            Err(p) => json!({"panic": p}),
        });
    }
    json!({"id": id, "fresh": fresh, "histories": hres})
}

fn main() {
    silence_panics();
    let stdin = std::io::stdin();
    let lines: Vec<String> = stdin.lock().lines().map(|l| l.unwrap()).filter(|l| !l.trim().is_empty()).collect();
    let out = with_big_stack(move || {
        lines
            .iter()
            .map(|l| match serde_json::from_str::<J>(l) {
                Ok(c) => run_case(&c).to_string(),
                Err(e) => json!({"harness_error": e.to_string()}).to_string(),
            })
            .collect::<Vec<_>>()
    });
    let stdout = std::io::stdout();
    let mut w = std::io::BufWriter::new(stdout.lock());
    for l in out {
        writeln!(w, "{l}").unwrap();
    }
}
