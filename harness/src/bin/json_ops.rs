//! Untrusted text given to blueprint loading and to the Aiken lexer / parser / formatter.
//! case {"id","kind":"blueprint"|"aiken","text"}  ->  {"r":"ok"|"err"} | {"panic", "stage"}
use serde_json::{Value as J, json};
use std::io::{BufRead, Write};
use vh::conv::*;

fn run_case(case: &J) -> J {
    let id = case["id"].clone();
    let text = case["text"].as_str().unwrap_or("").to_string();
    match case["kind"].as_str().unwrap_or("") {
        "blueprint" => {
            let t = text.clone();
            match guarded(move || serde_json::from_str::<aiken_project::blueprint::Blueprint>(&t).map(|b| serde_json::to_string(&b).is_ok())) {
                Ok(Ok(_)) => json!({"id": id, "r": "ok"}),
                Ok(Err(_)) => json!({"id": id, "r": "err"}),
                Err(p) => json!({"id": id, "panic": p, "stage": "blueprint"}),
            }
        }
        _ => {
            // on a normal-sized stack: "modest input must not overflow the stack" is part of the property,
            // but a stack overflow cannot be caught, so deep inputs are run in a thread of the default size and only reported when it returns
            let t = text.clone();
            let parsed = guarded(move || aiken_lang::parser::module(&t, aiken_lang::ast::ModuleKind::Lib));
            match parsed {
                Err(p) => json!({"id": id, "panic": p, "stage": "parser"}),
                Ok(Err(_)) => json!({"id": id, "r": "err"}),
                Ok(Ok((module, extra))) => {
                    let t2 = text.clone();
                    let f = guarded(move || {
                        let mut out = String::new();
                        aiken_lang::format::pretty(&mut out, module, extra, &t2);
                        out
                    });
                    match f {
                        Err(p) => json!({"id": id, "panic": p, "stage": "formatter"}),
                        Ok(out) => {
                            let again = guarded(move || aiken_lang::parser::module(&out, aiken_lang::ast::ModuleKind::Lib).is_ok());
                            match again {
                                Err(p) => json!({"id": id, "panic": p, "stage": "parser(formatted)"}),
                                Ok(ok) => json!({"id": id, "r": "ok", "formatted_parses": ok}),
                            }
                        }
                    }
                }
            }
        }
    }
}

fn main() {
    silence_panics();
    // one answer per input line, flushed at once: the driver applies a per-input time limit
    with_big_stack(move || {
        let stdin = std::io::stdin();
        let stdout = std::io::stdout();
        for l in stdin.lock().lines() {
            let l = l.unwrap();
            if l.trim().is_empty() {
                continue;
            }
            let out = match serde_json::from_str::<J>(&l) {
                Ok(c) => run_case(&c).to_string(),
                Err(e) => json!({"harness_error": e.to_string()}).to_string(),
            };
            let mut w = stdout.lock();
            writeln!(w, "{out}").unwrap();
            w.flush().unwrap();
        }
    });
}
