//! Runs `Project::check` on a project directory with the audit hook installed.
//! case: {"id","root","seed"?,"max_success"?,"tracing"?}
//! output: {"audit": {tests, allocations, shared:[..], external:[..], assertions_left}, "results":[...]}
use aiken_lang::ast::{TraceLevel, Tracing};
use aiken_lang::test_framework::{Test, TestResult};
use aiken_project::{Project, telemetry::{CoverageMode, Event, EventListener}};
use serde_json::{Value as J, json};
use std::collections::HashMap;
use std::io::{BufRead, Write};
use std::path::PathBuf;
use std::rc::Rc;
use std::sync::Mutex;
use uplc::ast::{Constant, Name, Program, Term, Type};
use vh::conv::*;

static AUDITS: Mutex<Vec<String>> = Mutex::new(vec![]);
static RESULTS: Mutex<Vec<String>> = Mutex::new(vec![]);

#[derive(Default)]
struct Alloc {
    strong: usize,
    edges: usize,                 // references found inside the tests' own graphs
    owners: Vec<usize>,           // tests that reach it
    kind: &'static str,
}

#[derive(Default)]
struct Acc {
    allocs: HashMap<usize, Alloc>,
}

impl Acc {
    /// records one reference; returns true when the allocation is seen for the first time
    fn edge(&mut self, ptr: usize, strong: usize, owner: usize, kind: &'static str, count_edge: bool) -> bool {
        let first = !self.allocs.contains_key(&ptr);
        let a = self.allocs.entry(ptr).or_default();
        a.strong = strong;
        a.kind = kind;
        if count_edge {
            a.edges += 1;
        }
        if !a.owners.contains(&owner) {
            a.owners.push(owner);
        }
        first
    }
}

fn walk_type(t: &Type, owner: usize, acc: &mut Acc, count: bool) {
    match t {
        Type::List(a) => rc_type(a, owner, acc, count),
        Type::Pair(a, b) => {
            rc_type(a, owner, acc, count);
            rc_type(b, owner, acc, count);
        }
        _ => {}
    }
}
fn rc_type(t: &Rc<Type>, owner: usize, acc: &mut Acc, count: bool) {
    let first = acc.edge(Rc::as_ptr(t) as usize, Rc::strong_count(t), owner, "type", count);
    // children are owned by the allocation: count their edges only the first time the allocation is met
    walk_type(t, owner, acc, first);
}
fn walk_const(c: &Constant, owner: usize, acc: &mut Acc, count: bool) {
    match c {
        Constant::ProtoList(t, items) => {
            walk_type(t, owner, acc, count);
            for i in items {
                walk_const(i, owner, acc, count);
            }
        }
        Constant::ProtoPair(a, b, x, y) => {
            walk_type(a, owner, acc, count);
            walk_type(b, owner, acc, count);
            rc_const(x, owner, acc, count);
            rc_const(y, owner, acc, count);
        }
        _ => {}
    }
}
fn rc_const(c: &Rc<Constant>, owner: usize, acc: &mut Acc, count: bool) {
    let first = acc.edge(Rc::as_ptr(c) as usize, Rc::strong_count(c), owner, "constant", count);
    walk_const(c, owner, acc, first);
}
fn rc_name(n: &Rc<Name>, owner: usize, acc: &mut Acc, count: bool) {
    acc.edge(Rc::as_ptr(n) as usize, Rc::strong_count(n), owner, "name", count);
}
fn rc_term(t: &Rc<Term<Name>>, owner: usize, acc: &mut Acc, count: bool) {
    let first = acc.edge(Rc::as_ptr(t) as usize, Rc::strong_count(t), owner, "term", count);
    walk_term(t, owner, acc, first);
}
fn walk_term(t: &Term<Name>, owner: usize, acc: &mut Acc, count: bool) {
    match t {
        Term::Var(n) => rc_name(n, owner, acc, count),
        Term::Delay(b) | Term::Force(b) => rc_term(b, owner, acc, count),
        Term::Lambda { parameter_name, body } => {
            rc_name(parameter_name, owner, acc, count);
            rc_term(body, owner, acc, count);
        }
        Term::Apply { function, argument } => {
            rc_term(function, owner, acc, count);
            rc_term(argument, owner, acc, count);
        }
        Term::Constant(c) => rc_const(c, owner, acc, count),
        Term::Constr { fields, .. } => {
            for f in fields {
                walk_term(f, owner, acc, count);
            }
        }
        Term::Case { constr, branches } => {
            rc_term(constr, owner, acc, count);
            for b in branches {
                walk_term(b, owner, acc, count);
            }
        }
        _ => {}
    }
}
fn walk_program(p: &Program<Name>, owner: usize, acc: &mut Acc) {
    walk_term(&p.term, owner, acc, true);
}

fn audit(tests: &[Test]) {
    let mut acc = Acc::default();
    let mut assertions_left = 0;
    let mut names = vec![];
    for (i, t) in tests.iter().enumerate() {
        match t {
            Test::UnitTest(u) => {
                names.push(format!("{}.{}", u.module, u.name));
                if u.assertion.is_some() {
                    assertions_left += 1;
                }
                walk_program(&u.program, i, &mut acc);
            }
            Test::PropertyTest(p) => {
                names.push(format!("{}.{}", p.module, p.name));
                walk_program(&p.program, i, &mut acc);
                walk_program(&p.fuzzer.program, i, &mut acc);
            }
            Test::Benchmark(b) => {
                names.push(format!("{}.{}", b.module, b.name));
                walk_program(&b.program, i, &mut acc);
                walk_program(&b.sampler.program, i, &mut acc);
            }
        }
    }
    let mut shared = vec![];
    let mut external = vec![];
    for (ptr, a) in acc.allocs.iter() {
        if a.owners.len() > 1 && shared.len() < 20 {
            shared.push(json!({"kind": a.kind, "tests": a.owners.iter().map(|o| names[*o].clone()).collect::<Vec<_>>(), "strong": a.strong, "ptr": ptr}));
        }
        if a.strong > a.edges && external.len() < 20 {
            external.push(json!({"kind": a.kind, "tests": a.owners.iter().map(|o| names[*o].clone()).collect::<Vec<_>>(), "strong": a.strong, "held_by_tests": a.edges}));
        }
    }
    let n_shared = acc.allocs.values().filter(|a| a.owners.len() > 1).count();
    let n_external = acc.allocs.values().filter(|a| a.strong > a.edges).count();
    AUDITS.lock().unwrap().push(
        json!({"tests": tests.len(), "allocations": acc.allocs.len(), "shared_count": n_shared, "external_count": n_external,
               "shared": shared, "external": external, "assertions_left": assertions_left}).to_string(),
    );
}

/// the integer a reified counterexample denotes (the authored property tests of C16 generate integers)
fn expr_int(e: &aiken_lang::expr::UntypedExpr) -> Option<i64> {
    use aiken_lang::expr::UntypedExpr;
    match e {
        UntypedExpr::UInt { value, .. } => value.replace('_', "").parse().ok(),
        UntypedExpr::UnOp { op: aiken_lang::ast::UnOp::Negate, value, .. } => expr_int(value).map(|x| -x),
        _ => None,
    }
}

#[derive(Clone, Copy)]
struct Listener;
impl EventListener for Listener {
    fn handle_event(&self, event: Event) {
        if let Event::FinishedTests { tests, .. } = event {
            let mut out = RESULTS.lock().unwrap();
            for t in tests {
                let j = match &t {
                    TestResult::UnitTestResult(u) => json!({"kind": "unit", "module": u.test.module, "name": u.test.name, "success": u.success,
                        "cpu": u.spent_budget.cpu, "mem": u.spent_budget.mem, "logs": u.logs}),
                    TestResult::PropertyTestResult(p) => {
                        let (state, cex) = match &p.counterexample {
                            Ok(Some(v)) => ("some", expr_int(v).map(|n| json!(n)).unwrap_or(J::Null)),
                            Ok(None) => ("none", J::Null),
                            Err(_) => ("error", J::Null),
                        };
                        json!({"kind": "property", "module": p.test.module, "name": p.test.name, "success": t.is_success(),
                            "iterations": p.iterations, "labels": p.labels, "cex_state": state, "cex": cex,
                            "counterexample": format!("{:?}", p.counterexample).chars().take(300).collect::<String>()})
                    }
                    TestResult::BenchmarkResult(_) => json!({"kind": "bench"}),
                };
                out.push(j.to_string());
            }
        }
    }
}

fn run_case(case: &J) -> J {
    let id = case["id"].clone();
    let root = PathBuf::from(case["root"].as_str().unwrap_or(""));
    let seed = case["seed"].as_u64().unwrap_or(42) as u32;
    let max_success = case["max_success"].as_u64().unwrap_or(30) as usize;
    AUDITS.lock().unwrap().clear();
    RESULTS.lock().unwrap().clear();
    aiken_project::verif_hook::set(Some(audit));
    let r = guarded(|| {
        let mut project = Project::new(root.clone(), Listener).map_err(|e| format!("{e:?}").chars().take(300).collect::<String>())?;
        project
            .check(false, None, false, false, seed, max_success, CoverageMode::default(), Tracing::All(TraceLevel::Verbose), false, None)
            .map_err(|es| es.iter().map(|e| format!("{e:?}").chars().take(200).collect::<String>()).collect::<Vec<_>>().join(" | "))
    });
    aiken_project::verif_hook::set(None);
    let audits: Vec<J> = AUDITS.lock().unwrap().iter().map(|s| serde_json::from_str(s).unwrap()).collect();
    let results: Vec<J> = RESULTS.lock().unwrap().iter().map(|s| serde_json::from_str(s).unwrap()).collect();
    let status = match r {
        Ok(Ok(())) => json!("ok"),
        Ok(Err(e)) => json!({"err": e}),
        Err(p) => json!({"panic": p}),
    };
    json!({"id": id, "status": status, "audits": audits, "results": results})
}

fn main() {
    silence_panics();
    let stdin = std::io::stdin();
    let lines: Vec<String> = stdin.lock().lines().map(|l| l.unwrap()).filter(|l| !l.trim().is_empty()).collect();
    let stdout = std::io::stdout();
    let mut w = std::io::BufWriter::new(stdout.lock());
    for l in lines {
        let case: J = serde_json::from_str(&l).unwrap_or(J::Null);
        let c2 = case.clone();
        let out = with_big_stack(move || run_case(&c2).to_string());
        writeln!(w, "{out}").unwrap();
        w.flush().unwrap();
    }
}
