//! stdin / file: ndjson cases (see evalcase::eval_case) -> stdout ndjson observations.
use std::io::{BufRead, Write};

fn main() {
    vh::conv::silence_panics();
    let args: Vec<String> = std::env::args().collect();
    let input: Box<dyn BufRead> = if args.len() > 1 {
        Box::new(std::io::BufReader::new(std::fs::File::open(&args[1]).expect("open input")))
    } else {
        Box::new(std::io::BufReader::new(std::io::stdin()))
    };
    let lines: Vec<String> = input.lines().map(|l| l.unwrap()).filter(|l| !l.trim().is_empty()).collect();
    let out = vh::conv::with_big_stack(move || {
        let mut out = Vec::with_capacity(lines.len());
        for l in lines {
            let case: serde_json::Value = match serde_json::from_str(&l) {
                Ok(c) => c,
                Err(e) => {
                    out.push(serde_json::json!({"harness_error": e.to_string()}).to_string());
                    continue;
                }
            };
            out.push(vh::evalcase::eval_case(&case).to_string());
        }
        out
    });
    let stdout = std::io::stdout();
    let mut w = std::io::BufWriter::new(stdout.lock());
    for l in out {
        writeln!(w, "{l}").unwrap();
    }
}
