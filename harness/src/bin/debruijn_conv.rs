//! stdin ndjson cases {"id", "side": "named"|"db", "term", "intern": bool} -> conversions by the real code.
use serde_json::{Value as J, json};
use std::io::{BufRead, Write};
use uplc::ast::{DeBruijn, Name, NamedDeBruijn, Program, Term};
use uplc::optimize::interner::CodeGenInterner;
use vh::conv::*;

fn res<T, E>(r: Result<Result<Term<T>, E>, String>) -> J
where
    T: BinderJson,
    E: std::fmt::Display,
{
    match r {
        Ok(Ok(t)) => json!({"ok": term_to_json(&t)}),
        Ok(Err(e)) => json!({"err": format!("{e}")}),
        Err(p) => json!({"panic": p}),
    }
}

fn main() {
    silence_panics();
    let stdin = std::io::stdin();
    let lines: Vec<String> = stdin.lock().lines().map(|l| l.unwrap()).filter(|l| !l.trim().is_empty()).collect();
    let out = with_big_stack(move || {
        let mut out = vec![];
        for l in lines {
            let case: J = serde_json::from_str(&l).unwrap();
            let id = case["id"].clone();
            let side = case["side"].as_str().unwrap_or("");
            let mut o = json!({"id": id});
            if side == "named" {
                let term: Term<Name> = match term_from_json(&case["term"]) {
                    Ok(t) => t,
                    Err(e) => {
                        out.push(json!({"id": id, "harness_error": e}).to_string());
                        continue;
                    }
                };
                let t1 = term.clone();
                o["db"] = res(guarded(move || Term::<DeBruijn>::try_from(t1)));
                let t2 = term.clone();
                o["ndb"] = res(guarded(move || {
                    Term::<NamedDeBruijn>::try_from(t2).map(|t| Term::<DeBruijn>::from(t))
                }));
                // through the Program-level helpers
                let t3 = term.clone();
                o["prog_db"] = res(guarded(move || {
                    Program { version: (1, 1, 0), term: t3 }.to_debruijn().map(|p| p.term)
                }));
                if case["intern"].as_bool().unwrap_or(false) {
                    let t4 = term.clone();
                    o["interned_db"] = res(guarded(move || {
                        let mut p = Program { version: (1, 1, 0), term: t4 };
                        CodeGenInterner::new().program(&mut p);
                        p.to_debruijn().map(|p| p.term)
                    }));
                }
            } else {
                let term: Term<DeBruijn> = match term_from_json(&case["term"]) {
                    Ok(t) => t,
                    Err(e) => {
                        out.push(json!({"id": id, "harness_error": e}).to_string());
                        continue;
                    }
                };
                let t1 = term.clone();
                // index -> name -> index
                o["back"] = res(guarded(move || {
                    Term::<Name>::try_from(t1).and_then(Term::<DeBruijn>::try_from)
                }));
                let t2 = term.clone();
                o["named"] = res(guarded(move || Term::<Name>::try_from(t2)));
                let t3 = term.clone();
                o["back_ndb"] = res(guarded(move || {
                    let n: Term<NamedDeBruijn> = t3.into();
                    Term::<Name>::try_from(n).and_then(Term::<DeBruijn>::try_from)
                }));
            }
            out.push(o.to_string());
        }
        out
    });
    let stdout = std::io::stdout();
    let mut w = std::io::BufWriter::new(stdout.lock());
    for l in out {
        writeln!(w, "{l}").unwrap();
    }
}
