pub mod builtin_table;
pub mod conv;
pub mod evalcase;
pub mod aikenrun;
