//! Parse + type-check + compile an Aiken module with the real tool-chain and run its functions on
//! Data arguments; everything observable is returned as JSON.
use crate::conv::*;
use aiken_lang::{
    IdGenerator,
    ast::{
        DataTypeKey, Definition, FunctionAccessKey, ModuleKind, TraceLevel, Tracing, TypedDataType,
        TypedFunction,
    },
    builtins,
    expr::TypedExpr,
    gen_uplc::CodeGenerator,
    line_numbers::LineNumbers,
    parser,
    plutus_version::PlutusVersion,
    tipo::TypeInfo,
    utils,
};
use indexmap::IndexMap;
use pallas_primitives::conway::Language;
use serde_json::{Value as J, json};
use std::collections::HashMap;
use uplc::ast::{Constant, DeBruijn, Name, NamedDeBruijn, Program, Term};
use uplc::machine::cost_model::ExBudget;

pub fn tracing_from(j: &J) -> R<Tracing> {
    let scope = j[0].as_str().unwrap_or("all");
    let level = match j[1].as_str().unwrap_or("silent") {
        "silent" => TraceLevel::Silent,
        "compact" => TraceLevel::Compact,
        "verbose" => TraceLevel::Verbose,
        x => return Err(format!("trace level {x}")),
    };
    Ok(match scope {
        "all" => Tracing::All(level),
        "user" => Tracing::UserDefined(level),
        "compiler" => Tracing::CompilerGenerated(level),
        x => return Err(format!("trace scope {x}")),
    })
}

pub struct Checked {
    pub id_gen: IdGenerator,
    pub functions: IndexMap<FunctionAccessKey, TypedFunction>,
    pub constants: IndexMap<FunctionAccessKey, TypedExpr>,
    pub data_types: IndexMap<DataTypeKey, TypedDataType>,
    pub module_types: HashMap<String, TypeInfo>,
    pub module_sources: HashMap<String, (String, LineNumbers)>,
    pub ast: aiken_lang::ast::TypedModule,
}

pub const MODULE: &str = "test_module";

fn variant_name(dbg: &str) -> String {
    dbg.split(|c: char| !(c.is_alphanumeric() || c == '_'))
        .next()
        .unwrap_or("")
        .to_string()
}

/// Ok(checked, warnings) | Err(json describing the parse / type error)
pub fn check_module(src: &str, kind: ModuleKind, tracing: Tracing) -> Result<(Checked, Vec<J>), J> {
    let id_gen = IdGenerator::new();
    let mut module_types = HashMap::new();
    module_types.insert("aiken".to_string(), builtins::prelude(&id_gen));
    module_types.insert("aiken/builtin".to_string(), builtins::plutus(&id_gen));
    let mut functions = builtins::prelude_functions(&id_gen, &module_types);
    let mut data_types = builtins::prelude_data_types(&id_gen);
    let mut constants = IndexMap::new();

    let (mut ast, _extra) = match parser::module(src, kind) {
        Ok(x) => x,
        Err(errs) => {
            return Err(json!({"stage": "parse", "errors": errs.iter().map(|e| variant_name(&format!("{:?}", e.kind))).collect::<Vec<_>>()}));
        }
    };
    ast.name = MODULE.to_string();
    let mut warnings = vec![];
    let typed = match ast.infer(
        &id_gen,
        kind,
        "test/project",
        &module_types,
        tracing,
        &mut warnings,
        None,
    ) {
        Ok(t) => t,
        Err(e) => {
            let name = variant_name(&format!("{e:?}"));
            let mut j = json!({"stage": "check", "error": name});
            if let aiken_lang::tipo::error::Error::NotExhaustivePatternMatch {
                unmatched, is_let, ..
            } = &e
            {
                j["unmatched"] = json!(unmatched);
                j["is_let"] = json!(is_let);
            }
            return Err(j);
        }
    };
    typed.register_definitions(&mut functions, &mut constants, &mut data_types);
    let mut module_sources = HashMap::new();
    module_sources.insert(
        MODULE.to_string(),
        (src.to_string(), LineNumbers::new(src)),
    );
    module_types.insert(MODULE.to_string(), typed.type_info.clone());
    let ws = warnings
        .iter()
        .map(|w| json!(variant_name(&format!("{w:?}"))))
        .collect();
    Ok((
        Checked {
            id_gen,
            functions,
            constants,
            data_types,
            module_types,
            module_sources,
            ast: typed,
        },
        ws,
    ))
}

impl Checked {
    pub fn generator(&self, tracing: Tracing) -> CodeGenerator<'_> {
        CodeGenerator::new(
            PlutusVersion::default(),
            utils::indexmap::as_ref_values(&self.functions),
            utils::indexmap::as_ref_values(&self.constants),
            utils::indexmap::as_ref_values(&self.data_types),
            utils::indexmap::as_str_ref_values(&self.module_types),
            utils::indexmap::as_str_ref_values(&self.module_sources),
            tracing,
        )
    }

    pub fn function(&self, name: &str) -> Option<&TypedFunction> {
        self.ast.definitions().find_map(|d| match d {
            Definition::Fn(f) if f.name == name => Some(f),
            _ => None,
        })
    }
}

pub fn result_json(r: &Result<Term<NamedDeBruijn>, uplc::machine::Error>, logs: Vec<String>) -> J {
    match r {
        Ok(Term::Constant(c)) => match c.as_ref() {
            Constant::Data(d) => json!({"o": "val", "d": data_to_json(d)}),
            other => json!({"o": "val", "c": constant_to_json(other)}),
        },
        Ok(Term::Error) => json!({"o": "fail", "c": "user", "e": "ErrorTerm", "logs": logs}),
        Ok(t) => json!({"o": "val", "t": term_to_json(t)}),
        Err(e) => {
            let (c, n) = crate::evalcase::error_class(e);
            json!({"o": "fail", "c": c, "e": n, "logs": logs})
        }
    }
}

/// Apply `program` to Data arguments and evaluate (V3, default cost model, generous budget).
pub fn run_program(program: &Program<Name>, args: &[pallas_primitives::conway::PlutusData]) -> J {
    let p = program.clone();
    let args = args.to_vec();
    let r = guarded(move || {
        let mut p = p;
        for a in &args {
            p = p.apply_data(a.clone());
        }
        let p: Program<DeBruijn> = match p.to_debruijn() {
            Ok(p) => p,
            Err(e) => return json!({"o": "fail", "c": "open", "e": format!("{e}")}),
        };
        let res = p.eval_version(
            ExBudget {
                cpu: 10_000_000_000_000,
                mem: 10_000_000_000_000,
            },
            &Language::PlutusV3,
        );
        let logs = res.logs();
        let cost = res.cost();
        let mut j = result_json(&res.result, logs);
        j["cost"] = json!({"cpu": cost.cpu, "mem": cost.mem});
        j
    });
    match r {
        Ok(j) => j,
        Err(m) => json!({"o": "panic", "msg": m}),
    }
}
