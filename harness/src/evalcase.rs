//! One evaluation of the real CEK machine, as data.
use crate::conv::*;
use pallas_primitives::conway::Language;
use serde_json::{Value as J, json};
use uplc::ast::{NamedDeBruijn, Term};
use uplc::machine::cost_model::{CostModel, ExBudget, initialize_cost_model_with_protocol};
use uplc::machine::{Error, Machine};

pub fn error_class(e: &Error) -> (&'static str, String) {
    let dbg = format!("{e:?}");
    let name = dbg
        .split(|c: char| !(c.is_alphanumeric() || c == '_'))
        .next()
        .unwrap_or("")
        .to_string();
    let class = match e {
        Error::OutOfExError(_) => "budget",
        Error::EvaluationFailure => "user",
        Error::OpenTermEvaluated(_) => "open",
        Error::NonPolymorphicInstantiation(_)
        | Error::NonFunctionalApplication(_, _)
        | Error::NonConstrScrutinized(_)
        | Error::MissingCaseBranch(_, _)
        | Error::TypeMismatch(_, _)
        | Error::ListTypeMismatch(_)
        | Error::PairTypeMismatch(_)
        | Error::UnexpectedBuiltinTermArgument(_)
        | Error::BuiltinTermArgumentExpected(_)
        | Error::NotAConstant(_)
        | Error::InvalidStepKind(_)
        | Error::MachineNeverReachedDone => "structural",
        _ => "builtin",
    };
    (class, name)
}

pub fn language(s: &str) -> R<Language> {
    Ok(match s {
        "v1" => Language::PlutusV1,
        "v2" => Language::PlutusV2,
        "v3" => Language::PlutusV3,
        _ => return Err(format!("unknown language {s}")),
    })
}

/// Semantics variant letter -> (language, protocol version) selecting it.
pub fn variant(s: &str) -> R<(Language, u16)> {
    Ok(match s {
        "A" => (Language::PlutusV2, 8),
        "B" => (Language::PlutusV2, 9),
        "C" => (Language::PlutusV3, 9),
        "D" => (Language::PlutusV2, 11),
        "E" => (Language::PlutusV3, 11),
        _ => return Err(format!("unknown variant {s}")),
    })
}

fn budget_from(j: Option<&J>) -> R<ExBudget> {
    match j {
        None | Some(J::Null) => Ok(ExBudget::max()),
        Some(b) => Ok(ExBudget {
            cpu: int_from_json(&b["cpu"])?
                .try_into()
                .map_err(|_| "cpu budget")?,
            mem: int_from_json(&b["mem"])?
                .try_into()
                .map_err(|_| "mem budget")?,
        }),
    }
}

pub struct EvalOut {
    pub result: Result<Term<NamedDeBruijn>, Error>,
    pub cost: ExBudget,
    pub remaining: ExBudget,
    pub logs: Vec<String>,
}

pub fn run_term(
    term: Term<NamedDeBruijn>,
    lang: Language,
    pv: Option<u16>,
    costs: Option<&[i64]>,
    budget: ExBudget,
    slippage: u32,
) -> EvalOut {
    let mut machine = match (pv, costs) {
        (Some(pv), Some(c)) => Machine::new_with_protocol(
            lang.clone(),
            pv,
            initialize_cost_model_with_protocol(&lang, pv, c),
            budget,
            slippage,
        ),
        (Some(pv), None) => Machine::new_with_protocol(
            lang.clone(),
            pv,
            CostModel::default_for_language_and_protocol(&lang, pv),
            budget,
            slippage,
        ),
        (None, Some(c)) => Machine::new(
            lang.clone(),
            uplc::machine::cost_model::initialize_cost_model(&lang, c),
            budget,
            slippage,
        ),
        (None, None) => Machine::new(
            lang.clone(),
            match lang {
                Language::PlutusV1 => CostModel::v1(),
                Language::PlutusV2 => CostModel::v2(),
                Language::PlutusV3 => CostModel::v3(),
            },
            budget,
            slippage,
        ),
    };
    let result = machine.run(term);
    let logs = machine
        .traces
        .iter()
        .map(|t| format!("{t}"))
        .collect::<Vec<_>>();
    EvalOut {
        result,
        cost: ExBudget {
            cpu: budget.cpu.saturating_sub(machine.ex_budget.cpu),
            mem: budget.mem.saturating_sub(machine.ex_budget.mem),
        },
        remaining: machine.ex_budget,
        logs,
    }
}

pub fn outcome_json(r: &Result<Term<NamedDeBruijn>, Error>) -> J {
    match r {
        Ok(t) => json!({"o":"val","v":term_to_json(t)}),
        Err(e) => {
            let (c, n) = error_class(e);
            json!({"o":"fail","c":c,"e":n})
        }
    }
}

/// case: {"id", "term", "var"?: "A".."E", "lang"?: "v1|v2|v3", "pv"?: n, "costs"?: [..],
///        "budget"?: {cpu,mem}, "slippage"?: n}
pub fn eval_case(case: &J) -> J {
    let id = case.get("id").cloned().unwrap_or(J::Null);
    let prep = (|| -> R<_> {
        let term: Term<NamedDeBruijn> = term_from_json(&case["term"])?;
        let (lang, pv) = if let Some(v) = case.get("var").and_then(|v| v.as_str()) {
            let (l, p) = variant(v)?;
            (l, Some(p))
        } else {
            (
                language(case.get("lang").and_then(|l| l.as_str()).unwrap_or("v3"))?,
                case.get("pv").and_then(|p| p.as_u64()).map(|p| p as u16),
            )
        };
        let costs: Option<Vec<i64>> = match case.get("costs") {
            Some(J::Array(a)) => Some(
                a.iter()
                    .map(|x| x.as_i64().ok_or("cost param"))
                    .collect::<Result<_, _>>()?,
            ),
            _ => None,
        };
        let budget = budget_from(case.get("budget"))?;
        let slippage = case.get("slippage").and_then(|s| s.as_u64()).unwrap_or(200) as u32;
        Ok((term, lang, pv, costs, budget, slippage))
    })();
    let (term, lang, pv, costs, budget, slippage) = match prep {
        Ok(x) => x,
        Err(e) => return json!({"id": id, "harness_error": e}),
    };
    let api = case.get("api").and_then(|a| a.as_bool()).unwrap_or(false);
    if api {
        // the public entry points a user calls: Program::eval_version* + EvalResult accessors
        let r = guarded(move || {
            let program = uplc::ast::Program {
                version: (1, 1, 0),
                term,
            };
            let res = match pv {
                Some(pv) => program.eval_version_with_protocol(budget, &lang, pv),
                None => program.eval_version(budget, &lang),
            };
            let cost = res.cost();
            let logs = res.logs();
            let failed = res.failed(false, &lang);
            json!({
                "out": outcome_json(&res.result),
                "cost": {"cpu": cost.cpu, "mem": cost.mem},
                "logs": logs,
                "failed": failed,
            })
        });
        return match r {
            Ok(mut j) => {
                j["id"] = id;
                j
            }
            Err(msg) => json!({"id": id, "out": {"o":"panic","msg":msg}}),
        };
    }
    let r = guarded(move || {
        let out = run_term(term, lang, pv, costs.as_deref(), budget, slippage);
        json!({
            "out": outcome_json(&out.result),
            "cost": {"cpu": out.cost.cpu, "mem": out.cost.mem},
            "rem": {"cpu": out.remaining.cpu, "mem": out.remaining.mem},
            "logs": out.logs,
        })
    });
    match r {
        Ok(mut j) => {
            j["id"] = id;
            j
        }
        Err(msg) => json!({"id": id, "out": {"o":"panic","msg":msg}}),
    }
}
