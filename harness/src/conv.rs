//! JSON <-> uplc AST conversions (DESIGN.md Appendix B).
//!
//! Everything here is plain data plumbing: no semantics. The JSON shapes are
//! the ones the TLA+ specifications print (`ToJson`) and read
//! (`ndJsonDeserialize`): records with a discriminating field, 1-based arrays.

use num_bigint::BigInt;
use num_traits::{Signed, ToPrimitive};
use pallas_primitives::conway::{BigInt as PBigInt, Constr, PlutusData};
use pallas_primitives::{BoundedBytes, KeyValuePairs, MaybeIndefArray};
use serde_json::{Map, Value as J, json};
use std::rc::Rc;
use std::str::FromStr;
use uplc::ast::{Constant, DeBruijn, Name, NamedDeBruijn, Term, Type, Unique};
use uplc::builtins::DefaultFunction;

pub type R<T> = Result<T, String>;

fn obj(j: &J) -> R<&Map<String, J>> {
    j.as_object().ok_or_else(|| format!("expected object: {j}"))
}

fn field<'a>(o: &'a Map<String, J>, k: &str) -> R<&'a J> {
    o.get(k).ok_or_else(|| format!("missing field {k} in {:?}", o))
}

fn sfield<'a>(o: &'a Map<String, J>, k: &str) -> R<&'a str> {
    field(o, k)?
        .as_str()
        .ok_or_else(|| format!("field {k} not a string"))
}

fn arr(j: &J) -> R<&Vec<J>> {
    j.as_array().ok_or_else(|| format!("expected array: {j}"))
}

/// V = 2^70 * 720720: the magnitude behind the specs' symbolic huge integers.
pub fn huge_base() -> BigInt {
    (BigInt::from(1) << 70usize) * BigInt::from(720720)
}

/// Integer carried by an object with fields `v` and optionally `hs`/`hr` (symbolic huge:
/// hs * (V + hr)) or `big` (decimal string, outside both small and huge ranges).
pub fn int_from_obj(o: &Map<String, J>) -> R<BigInt> {
    if let Some(hs) = o.get("hs") {
        let sign = hs.as_i64().ok_or("hs")?;
        let r = int_from_json(field(o, "hr")?)?;
        let v = huge_base() + r;
        return Ok(if sign < 0 { -v } else { v });
    }
    if let Some(J::String(b)) = o.get("big") {
        return BigInt::from_str(b).map_err(|e| e.to_string());
    }
    int_from_json(field(o, "v")?)
}

pub fn int_from_json(j: &J) -> R<BigInt> {
    match j {
        J::Number(n) => {
            if let Some(i) = n.as_i64() {
                Ok(BigInt::from(i))
            } else if let Some(u) = n.as_u64() {
                Ok(BigInt::from(u))
            } else {
                Err(format!("bad integer {n}"))
            }
        }
        J::String(s) => BigInt::from_str(s).map_err(|e| e.to_string()),
        _ => Err(format!("bad integer {j}")),
    }
}

/// Writes `v` (+ `hs`,`hr` | `big`) into `o`. Returns false when the integer is outside what the
/// specifications can represent (neither small nor symbolic-huge).
pub fn int_to_obj(o: &mut Map<String, J>, i: &BigInt) -> bool {
    let lim = BigInt::from(1i64 << 30);
    if i.abs() < lim {
        o.insert("v".into(), json!(i.to_i64().unwrap()));
        return true;
    }
    let v = huge_base();
    let r = &i.abs() - &v;
    o.insert("v".into(), json!(0));
    if r >= BigInt::from(0) && r < BigInt::from(1 << 20) {
        o.insert("hs".into(), json!(if i.is_negative() { -1 } else { 1 }));
        o.insert("hr".into(), json!(r.to_i64().unwrap()));
        true
    } else {
        o.insert("big".into(), J::String(i.to_string()));
        false
    }
}

thread_local! {
    /// set when a conversion met something the JSON shapes cannot express faithfully
    pub static UNSUPPORTED: std::cell::Cell<bool> = const { std::cell::Cell::new(false) };
}
pub fn take_unsupported() -> bool {
    UNSUPPORTED.with(|u| u.replace(false))
}
fn mark_unsupported() {
    UNSUPPORTED.with(|u| u.set(true));
}

fn int_rec(kind_key: &str, kind: &str, i: &BigInt) -> J {
    let mut o = Map::new();
    o.insert(kind_key.into(), json!(kind));
    if !int_to_obj(&mut o, i) {
        mark_unsupported();
    }
    J::Object(o)
}

pub fn type_from_json(j: &J) -> R<Type> {
    let o = obj(j)?;
    Ok(match sfield(o, "t")? {
        "int" => Type::Integer,
        "bs" => Type::ByteString,
        "str" => Type::String,
        "unit" => Type::Unit,
        "bool" => Type::Bool,
        "data" => Type::Data,
        "g1" => Type::Bls12_381G1Element,
        "g2" => Type::Bls12_381G2Element,
        "ml" => Type::Bls12_381MlResult,
        "list" => Type::List(Rc::new(type_from_json(field(o, "e")?)?)),
        "pair" => Type::Pair(
            Rc::new(type_from_json(field(o, "a")?)?),
            Rc::new(type_from_json(field(o, "b")?)?),
        ),
        t => return Err(format!("unknown type {t}")),
    })
}

pub fn type_to_json(t: &Type) -> J {
    match t {
        Type::Integer => json!({"t":"int"}),
        Type::ByteString => json!({"t":"bs"}),
        Type::String => json!({"t":"str"}),
        Type::Unit => json!({"t":"unit"}),
        Type::Bool => json!({"t":"bool"}),
        Type::Data => json!({"t":"data"}),
        Type::Bls12_381G1Element => json!({"t":"g1"}),
        Type::Bls12_381G2Element => json!({"t":"g2"}),
        Type::Bls12_381MlResult => json!({"t":"ml"}),
        Type::List(e) => json!({"t":"list","e":type_to_json(e)}),
        Type::Pair(a, b) => json!({"t":"pair","a":type_to_json(a),"b":type_to_json(b)}),
    }
}

fn bytes_from_json(j: &J) -> R<Vec<u8>> {
    match j {
        J::String(s) => hex::decode(s).map_err(|e| e.to_string()),
        _ => arr(j)?
            .iter()
            .map(|b| {
                b.as_u64()
                    .filter(|b| *b < 256)
                    .map(|b| b as u8)
                    .ok_or_else(|| format!("bad byte {b}"))
            })
            .collect(),
    }
}

fn bytes_to_json(b: &[u8]) -> J {
    J::Array(b.iter().map(|x| json!(*x)).collect())
}

fn string_from_json(j: &J) -> R<String> {
    match j {
        J::String(s) => Ok(s.clone()),
        _ => arr(j)?
            .iter()
            .map(|c| {
                c.as_u64()
                    .and_then(|c| char::from_u32(c as u32))
                    .ok_or_else(|| format!("bad code point {c}"))
            })
            .collect(),
    }
}

fn string_to_json(s: &str) -> J {
    J::Array(s.chars().map(|c| json!(c as u32)).collect())
}

pub fn data_from_json(j: &J) -> R<PlutusData> {
    let o = obj(j)?;
    // optional "form": "def" | "indef" for arrays / maps (default: the tool-chain's own choice)
    let form = o.get("form").and_then(|f| f.as_str());
    let mk_arr = |xs: Vec<PlutusData>| -> MaybeIndefArray<PlutusData> {
        match form {
            Some("def") => MaybeIndefArray::Def(xs),
            Some("indef") => MaybeIndefArray::Indef(xs),
            _ => {
                if xs.is_empty() {
                    MaybeIndefArray::Def(xs)
                } else {
                    MaybeIndefArray::Indef(xs)
                }
            }
        }
    };
    Ok(match sfield(o, "d")? {
        "I" => {
            let i = int_from_obj(o)?;
            PlutusData::BigInt(uplc::machine::value::to_pallas_bigint(&i))
        }
        "B" => PlutusData::BoundedBytes(BoundedBytes::from(bytes_from_json(field(o, "v")?)?)),
        "L" => {
            let xs = arr(field(o, "v")?)?
                .iter()
                .map(data_from_json)
                .collect::<R<Vec<_>>>()?;
            PlutusData::Array(mk_arr(xs))
        }
        "M" => {
            let kvs = arr(field(o, "v")?)?
                .iter()
                .map(|kv| {
                    let kv = arr(kv)?;
                    if kv.len() != 2 {
                        return Err("map entry must have 2 elements".to_string());
                    }
                    Ok((data_from_json(&kv[0])?, data_from_json(&kv[1])?))
                })
                .collect::<R<Vec<_>>>()?;
            PlutusData::Map(match form {
                Some("indef") => KeyValuePairs::Indef(kvs),
                _ => KeyValuePairs::Def(kvs),
            })
        }
        "C" => {
            let tag = int_from_json(field(o, "tag")?)?;
            let tag = tag.to_u64().ok_or("constr tag out of u64")?;
            let fs = arr(field(o, "fs")?)?
                .iter()
                .map(data_from_json)
                .collect::<R<Vec<_>>>()?;
            let fields = mk_arr(fs);
            if tag < 7 {
                PlutusData::Constr(Constr {
                    tag: 121 + tag,
                    any_constructor: None,
                    fields,
                })
            } else if tag < 128 {
                PlutusData::Constr(Constr {
                    tag: 1280 + tag - 7,
                    any_constructor: None,
                    fields,
                })
            } else {
                PlutusData::Constr(Constr {
                    tag: 102,
                    any_constructor: Some(tag),
                    fields,
                })
            }
        }
        d => return Err(format!("unknown data kind {d}")),
    })
}

pub fn constr_index(c: &Constr<PlutusData>) -> Option<u64> {
    if (121..=127).contains(&c.tag) {
        Some(c.tag - 121)
    } else if (1280..=1400).contains(&c.tag) {
        Some(c.tag - 1280 + 7)
    } else if c.tag == 102 {
        c.any_constructor
    } else {
        None
    }
}

pub fn pallas_int_to_bigint(i: &PBigInt) -> BigInt {
    uplc::machine::value::from_pallas_bigint(i)
}

/// Data to JSON, *semantic* view: encoding forms are dropped.
pub fn data_to_json(d: &PlutusData) -> J {
    match d {
        PlutusData::BigInt(i) => int_rec("d", "I", &pallas_int_to_bigint(i)),
        PlutusData::BoundedBytes(b) => json!({"d":"B","v":bytes_to_json(b)}),
        PlutusData::Array(xs) => {
            json!({"d":"L","v":J::Array(xs.iter().map(data_to_json).collect())})
        }
        PlutusData::Map(kvs) => json!({"d":"M","v":J::Array(
            kvs.iter().map(|(k,v)| J::Array(vec![data_to_json(k), data_to_json(v)])).collect())}),
        PlutusData::Constr(c) => {
            let tag = match constr_index(c) {
                Some(t) => json!(t),
                None => {
                    mark_unsupported();
                    json!({"raw": c.tag})
                }
            };
            json!({"d":"C","tag":tag,"fs":J::Array(c.fields.iter().map(data_to_json).collect())})
        }
    }
}

pub fn constant_from_json(j: &J) -> R<Constant> {
    let o = obj(j)?;
    Ok(match sfield(o, "t")? {
        "int" => Constant::Integer(int_from_obj(o)?),
        "bs" => Constant::ByteString(bytes_from_json(field(o, "v")?)?),
        "str" => Constant::String(string_from_json(field(o, "v")?)?),
        "unit" => Constant::Unit,
        "bool" => Constant::Bool(field(o, "v")?.as_bool().ok_or("bool")?),
        "list" => Constant::ProtoList(
            type_from_json(field(o, "et")?)?,
            arr(field(o, "v")?)?
                .iter()
                .map(constant_from_json)
                .collect::<R<Vec<_>>>()?,
        ),
        "pair" => Constant::ProtoPair(
            type_from_json(field(o, "ft")?)?,
            type_from_json(field(o, "st")?)?,
            Rc::new(constant_from_json(field(o, "f")?)?),
            Rc::new(constant_from_json(field(o, "s")?)?),
        ),
        "data" => Constant::Data(data_from_json(field(o, "v")?)?),
        t => return Err(format!("unknown constant kind {t}")),
    })
}

pub fn constant_to_json(c: &Constant) -> J {
    match c {
        Constant::Integer(i) => int_rec("t", "int", i),
        Constant::ByteString(b) => json!({"t":"bs","v":bytes_to_json(b)}),
        Constant::String(s) => json!({"t":"str","v":string_to_json(s)}),
        Constant::Unit => json!({"t":"unit"}),
        Constant::Bool(b) => json!({"t":"bool","v":*b}),
        Constant::ProtoList(t, xs) => json!({"t":"list","et":type_to_json(t),
            "v":J::Array(xs.iter().map(constant_to_json).collect())}),
        Constant::ProtoPair(a, b, f, s) => json!({"t":"pair","ft":type_to_json(a),"st":type_to_json(b),
            "f":constant_to_json(f),"s":constant_to_json(s)}),
        Constant::Data(d) => json!({"t":"data","v":data_to_json(d)}),
        Constant::Bls12_381G1Element(_) => {
            mark_unsupported();
            json!({"t":"g1"})
        }
        Constant::Bls12_381G2Element(_) => {
            mark_unsupported();
            json!({"t":"g2"})
        }
        Constant::Bls12_381MlResult(_) => {
            mark_unsupported();
            json!({"t":"ml"})
        }
    }
}

pub fn builtin_from_name(s: &str) -> R<DefaultFunction> {
    // The harness has its own table keyed by the *specification's* names so
    // that neither Display nor FromStr of the code under test is trusted here.
    for (name, f) in crate::builtin_table::TABLE.iter() {
        if *name == s {
            return Ok(*f);
        }
    }
    Err(format!("unknown builtin {s}"))
}

pub fn builtin_name(f: DefaultFunction) -> &'static str {
    for (name, g) in crate::builtin_table::TABLE.iter() {
        if *g == f {
            return name;
        }
    }
    "?"
}

/// Binder abstraction so that the three binder forms share one converter.
pub trait BinderJson: Sized {
    fn var_from(o: &Map<String, J>) -> R<Self>;
    fn lam_from(o: &Map<String, J>) -> R<Self>;
    fn var_to(&self, o: &mut Map<String, J>);
    fn lam_to(&self, o: &mut Map<String, J>);
}

impl BinderJson for DeBruijn {
    fn var_from(o: &Map<String, J>) -> R<Self> {
        let i = int_from_json(field(o, "i")?)?;
        Ok(DeBruijn::new(i.to_usize().ok_or("index out of usize")?))
    }
    fn lam_from(_: &Map<String, J>) -> R<Self> {
        Ok(DeBruijn::new(0))
    }
    fn var_to(&self, o: &mut Map<String, J>) {
        o.insert("i".into(), json!(self.inner()));
    }
    fn lam_to(&self, _: &mut Map<String, J>) {}
}

impl BinderJson for NamedDeBruijn {
    fn var_from(o: &Map<String, J>) -> R<Self> {
        let i = int_from_json(field(o, "i")?)?;
        Ok(NamedDeBruijn {
            text: o
                .get("n")
                .and_then(|n| n.as_str())
                .unwrap_or("i")
                .to_string(),
            index: DeBruijn::new(i.to_usize().ok_or("index out of usize")?),
        })
    }
    fn lam_from(o: &Map<String, J>) -> R<Self> {
        Ok(NamedDeBruijn {
            text: o
                .get("n")
                .and_then(|n| n.as_str())
                .unwrap_or("i")
                .to_string(),
            index: DeBruijn::new(0),
        })
    }
    fn var_to(&self, o: &mut Map<String, J>) {
        o.insert("i".into(), json!(self.index.inner()));
    }
    fn lam_to(&self, _: &mut Map<String, J>) {}
}

impl BinderJson for Name {
    fn var_from(o: &Map<String, J>) -> R<Self> {
        let n = obj(field(o, "n")?)?;
        Ok(Name {
            text: sfield(n, "t")?.to_string(),
            unique: Unique::new(field(n, "u")?.as_i64().ok_or("unique")? as isize),
        })
    }
    fn lam_from(o: &Map<String, J>) -> R<Self> {
        Self::var_from(o)
    }
    fn var_to(&self, o: &mut Map<String, J>) {
        let u: isize = self.unique.into();
        o.insert("n".into(), json!({"t": self.text, "u": u}));
    }
    fn lam_to(&self, o: &mut Map<String, J>) {
        self.var_to(o)
    }
}

pub fn term_from_json<T: BinderJson>(j: &J) -> R<Term<T>> {
    let o = obj(j)?;
    Ok(match sfield(o, "k")? {
        "var" => Term::Var(Rc::new(T::var_from(o)?)),
        "lam" => Term::Lambda {
            parameter_name: Rc::new(T::lam_from(o)?),
            body: Rc::new(term_from_json(field(o, "b")?)?),
        },
        "app" => Term::Apply {
            function: Rc::new(term_from_json(field(o, "f")?)?),
            argument: Rc::new(term_from_json(field(o, "a")?)?),
        },
        "delay" => Term::Delay(Rc::new(term_from_json(field(o, "b")?)?)),
        "force" => Term::Force(Rc::new(term_from_json(field(o, "b")?)?)),
        "con" => Term::Constant(Rc::new(constant_from_json(field(o, "c")?)?)),
        "bi" => Term::Builtin(builtin_from_name(sfield(o, "f")?)?),
        "err" => Term::Error,
        "constr" => Term::Constr {
            tag: int_from_json(field(o, "tag")?)?
                .to_usize()
                .ok_or("constr tag")?,
            fields: arr(field(o, "fs")?)?
                .iter()
                .map(term_from_json)
                .collect::<R<Vec<_>>>()?,
        },
        "case" => Term::Case {
            constr: Rc::new(term_from_json(field(o, "s")?)?),
            branches: arr(field(o, "bs")?)?
                .iter()
                .map(term_from_json)
                .collect::<R<Vec<_>>>()?,
        },
        k => return Err(format!("unknown term kind {k}")),
    })
}

pub fn term_to_json<T: BinderJson>(t: &Term<T>) -> J {
    let mut o = Map::new();
    match t {
        Term::Var(n) => {
            o.insert("k".into(), json!("var"));
            n.var_to(&mut o);
        }
        Term::Lambda {
            parameter_name,
            body,
        } => {
            o.insert("k".into(), json!("lam"));
            parameter_name.lam_to(&mut o);
            o.insert("b".into(), term_to_json(body));
        }
        Term::Apply { function, argument } => {
            o.insert("k".into(), json!("app"));
            o.insert("f".into(), term_to_json(function));
            o.insert("a".into(), term_to_json(argument));
        }
        Term::Delay(b) => {
            o.insert("k".into(), json!("delay"));
            o.insert("b".into(), term_to_json(b));
        }
        Term::Force(b) => {
            o.insert("k".into(), json!("force"));
            o.insert("b".into(), term_to_json(b));
        }
        Term::Constant(c) => {
            o.insert("k".into(), json!("con"));
            o.insert("c".into(), constant_to_json(c));
        }
        Term::Builtin(f) => {
            o.insert("k".into(), json!("bi"));
            o.insert("f".into(), json!(builtin_name(*f)));
        }
        Term::Error => {
            o.insert("k".into(), json!("err"));
        }
        Term::Constr { tag, fields } => {
            o.insert("k".into(), json!("constr"));
            o.insert("tag".into(), json!(*tag));
            o.insert(
                "fs".into(),
                J::Array(fields.iter().map(term_to_json).collect()),
            );
        }
        Term::Case { constr, branches } => {
            o.insert("k".into(), json!("case"));
            o.insert("s".into(), term_to_json(constr));
            o.insert(
                "bs".into(),
                J::Array(branches.iter().map(term_to_json).collect()),
            );
        }
    }
    J::Object(o)
}

thread_local! {
    static PANIC_LOC: std::cell::RefCell<String> = const { std::cell::RefCell::new(String::new()) };
}

/// Run `f`, turning a panic of the code under test into data (message + source location).
pub fn guarded<T>(f: impl FnOnce() -> T) -> Result<T, String> {
    match std::panic::catch_unwind(std::panic::AssertUnwindSafe(f)) {
        Ok(v) => Ok(v),
        Err(e) => {
            let msg = if let Some(s) = e.downcast_ref::<&str>() {
                s.to_string()
            } else if let Some(s) = e.downcast_ref::<String>() {
                s.clone()
            } else {
                "panic".to_string()
            };
            let loc = PANIC_LOC.with(|l| l.borrow().clone());
            Err(format!("{msg} @ {loc}"))
        }
    }
}

pub fn silence_panics() {
    std::panic::set_hook(Box::new(|info| {
        let loc = info
            .location()
            .map(|l| format!("{}:{}", l.file(), l.line()))
            .unwrap_or_default();
        PANIC_LOC.with(|l| *l.borrow_mut() = loc);
    }));
}

/// Run `f` on a thread with a big stack (the code under test recurses on term depth).
pub fn with_big_stack<T: Send + 'static>(f: impl FnOnce() -> T + Send + 'static) -> T {
    std::thread::Builder::new()
        .stack_size(1 << 30)
        .spawn(f)
        .unwrap()
        .join()
        .unwrap()
}
